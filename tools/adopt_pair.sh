#!/bin/bash
# usage: tools/adopt_pair.sh <seed id> <check id>...  -- a sub-agent's PAIR (benign.diff = the change done correctly,
# patch.diff = the same change with a bug): copy from /tmp/seed-<id>, confirm both in a scratch worktree, run the checks on
# the benign version (must not report a violation) and on the buggy one (must report one)
set -u
ID=$1; shift
D=/verif/seeded/$ID; W=/tmp/confirm-$ID
mkdir -p $D && cp /tmp/seed-$ID/{benign.diff,patch.diff,demo.diff,notes.md} $D/ || exit 9
/verif/tools/confirm_seed.sh $ID 2>&1 | tail -3
git -C /repo worktree remove --force $W >/dev/null 2>&1
git -C /repo worktree add -q $W HEAD || exit 9
cd $W
git apply $D/benign.diff || { echo "benign does not apply"; exit 9; }
A=$(cargo test --offline 2>&1 | grep "^test result" | head -1)
echo "suite with benign: $A"
git apply $D/demo.diff || { echo "demo does not apply on benign"; }
B=$(cargo test --offline seeded_demo 2>&1 | grep "^test result" | head -1)
echo "demo with benign: $B"
cd /; git -C /repo worktree remove --force $W
python3 - <<PY
import json
p="$D/confirm.json"; d=json.load(open(p)); d["suite_with_benign"]="""$A"""; d["demo_with_benign"]="""$B"""; json.dump(d, open(p,"w"), indent=1)
PY
echo "##### benign"
/verif/tools/try_seed.sh $D/benign.diff "$@" 2>&1 | tail -7
echo "##### buggy"
/verif/tools/try_seed.sh $D/patch.diff "$@" 2>&1 | tail -7
