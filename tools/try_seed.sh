#!/bin/bash
# usage: tools/try_seed.sh <patch.diff> <check id>...   -- applies the patch to /repo, runs the checks, reverts.
# The evidence files are saved and restored: evidence must only ever come from runs on the unchanged tree.
set -u
P=$1; shift
cd /repo || exit 9
if [ -n "$(git status --porcelain)" ]; then echo "/repo not clean"; exit 9; fi
git apply "$P" || { echo "patch does not apply"; exit 9; }
cd /verif
SAVE=$(mktemp -d /verif/.cache/evsave.XXXXXX)
cp -a /verif/evidence/. $SAVE/
for c in "$@"; do
  echo "=== $c on $(basename $(dirname $P))"
  ./check $c > /tmp/try_seed_$c.log 2>&1
  echo "exit=$?"; grep -c "^VIOLATION" /tmp/try_seed_$c.log; grep -A1 "^VIOLATION" /tmp/try_seed_$c.log | head -4 | cut -c1-300; tail -n 2 /tmp/try_seed_$c.log | cut -c1-300
done
rm -rf /verif/evidence; mkdir -p /verif/evidence; cp -a $SAVE/. /verif/evidence/; rm -rf $SAVE
git -C /repo checkout -- . ; git -C /repo status --porcelain
