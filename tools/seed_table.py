#!/usr/bin/env python3
"""regenerate the seeded-change table in DESIGN.md from /verif/seeded/*/meta.json"""
import json, glob, os, re
HERE = os.path.dirname(os.path.dirname(os.path.abspath(__file__)))
rows = []
for d in sorted(glob.glob(os.path.join(HERE, 'seeded', '*'))):
    mf = os.path.join(d, 'meta.json')
    if not os.path.exists(mf):
        continue
    m = json.load(open(mf))
    sid = os.path.basename(d)
    needs = m.get('needs', '').replace('|', '/').replace('\n', ' ')
    caught = ' ; '.join(m.get('caught_by', [])).replace('|', '/').replace('\n', ' ')
    first = m.get('first_run', 'caught')
    cut = lambda t, n: t if len(t) <= n else t[:n - 1].rsplit(' ', 1)[0] + ' …'
    also = ''
    if m.get('also_breaks'):
        also = ' (+' + ','.join(x.split()[0] for x in m['also_breaks']) + ')'
    rows.append('| %s | %s%s | %s | %s | %s |' % (sid, m.get('property'), also, cut(needs, 170), cut(caught, 230), first))
table = ['| seed | property | needs, to manifest | caught by (now) | first run of the check |', '|---|---|---|---|---|'] + rows
block = '<!-- SEEDTABLE-BEGIN -->\n' + '\n'.join(table) + '\n<!-- SEEDTABLE-END -->'
p = os.path.join(HERE, 'DESIGN.md')
s = open(p).read()
if 'SEEDTABLE-BEGIN' in s:
    s = re.sub(r'<!-- SEEDTABLE-BEGIN -->.*?<!-- SEEDTABLE-END -->', lambda _: block, s, flags=re.S)
else:
    s = s.replace('\nSEEDTABLE\n', '\n' + block + '\n')
open(p, 'w').write(s)
print(len(rows), 'seeds')
