#!/bin/bash
# re-run every registered quick check on the (clean) tree and rewrite the evidence; refuses to run on a dirty /repo
cd /verif
if [ -n "$(git -C /repo status --porcelain)" ]; then echo "/repo not clean"; exit 9; fi
for c in $(python3 -c "import json; print(' '.join(c['property_id'] for c in json.load(open('MANIFEST.json'))['checks']))"); do
  ./check $c --tier quick 2>&1 | tail -1
done
