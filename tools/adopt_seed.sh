#!/bin/bash
# usage: tools/adopt_seed.sh <seed id> <check id>...  -- copy a sub-agent's deliverables from /tmp/seed-<id>, confirm in a scratch worktree, run the checks on it
set -u
ID=$1; shift
mkdir -p /verif/seeded/$ID && cp /tmp/seed-$ID/* /verif/seeded/$ID/ || exit 9
/verif/tools/confirm_seed.sh $ID 2>&1 | tail -3
/verif/tools/try_seed.sh /verif/seeded/$ID/patch.diff "$@" 2>&1 | tail -8
