#!/bin/bash
# usage: tools/confirm_seed.sh <seed id>   -- independent confirmation of a seeded change in a scratch worktree
set -u
ID=$1; D=/verif/seeded/$ID; W=/tmp/confirm-$ID
git -C /repo worktree remove --force $W >/dev/null 2>&1
git -C /repo worktree add -q $W HEAD || exit 9
cd $W
git apply $D/patch.diff || { echo "patch does not apply"; exit 9; }
A=$(cargo test --offline 2>&1 | grep "^test result" | head -1)
echo "suite with patch: $A"
git apply $D/demo.diff || { echo "demo does not apply"; exit 9; }
B=$(cargo test --offline seeded_demo 2>&1 | grep "^test result" | head -1)
echo "demo with patch: $B"
git apply -R $D/patch.diff
C=$(cargo test --offline seeded_demo 2>&1 | grep "^test result" | head -1)
echo "demo without patch: $C"
cd /; git -C /repo worktree remove --force $W
python3 - <<PY
import json
json.dump({"suite_with_patch": """$A""", "demo_with_patch": """$B""", "demo_without_patch": """$C"""}, open("$D/confirm.json","w"), indent=1)
PY
