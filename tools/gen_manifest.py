#!/usr/bin/env python3
"""Regenerates /verif/MANIFEST.json from the table below (keeps it schema-valid)."""
import json, os
HERE = os.path.dirname(os.path.dirname(os.path.abspath(__file__)))
props = [json.loads(l) for l in open(os.path.join(HERE, 'properties.jsonl'))]

TB = ('Trusted: rustc MIR dump == compiled program; the mirsym parser/executor and its std models '
      '(cross-checked on every run by concrete execution against the natively built crate); the reference rules in props/chessref.py; z3.')

CHECKS = {
 'C06': dict(
   category='proof',
   text=('For each of the 64 squares the real magic lookup (mask, multiply, shift, table read, bounds checks) of rook and bishop, and the '
         'queen union, is executed symbolically from MIR over a free 64-bit occupancy and shown equal to a ray-walk reference by z3 '
         '(unsat of the negation) - all 2^64 occupancies per square, no sampling. Knight/king/pawn sets are checked through Kind::get_attacks '
         'for a symbolic (rank,file). Panic obligations (index, overflow) are discharged separately. Counterexamples are replayed on the native build.'),
   design_ref='5 (C06), 3',
   note=TB + ' Table contents come from a native run of the real initialisers (not executed symbolically); the check is of the resulting lookup.',
   technique='symbolic execution of rustc MIR into z3 bit-vector terms; per-square unsat queries (simplify/bit-blast/sat), native replay of models'),
 'C02': dict(
   category='proof',
   text=('One inductive step from an arbitrary position: twelve free 64-bit piece sets, free clocks, rights, en-passant file, previous undo record and an '
         'arbitrary set of earlier keys, constrained only by the representation invariant; an arbitrary consistent move record; the real make_move, '
         'unmake_move and is_legal_move run symbolically from MIR; z3 shows that every component (15 piece sets, turn, counters, en-passant, '
         'undo stack, key, record of earlier positions) is restored, that the invariant holds again after make (so the step nests to any depth), '
         'and that no panic is reachable. Case split only over enum discriminants (118 move shapes). Models are replayed on the native build.'),
   design_ref='5 (C02), 4.1, 4.2',
   note=TB + ' HashSet/Vec per std documentation; history stack = unread older part + top record; is_in_check (a &self method) is a free Bool in the legality-probe obligation; Zobrist words uninterpreted.',
   technique='symbolic execution of rustc MIR into z3 (bit-vectors, arrays, uninterpreted functions); inductive step with representation invariant; per-shape unsat queries; native replay'),
 'C03': dict(
   category='proof',
   text=('Same inductive step: make_move run from MIR on an arbitrary invariant-satisfying position and consistent move record, compared by z3 with an '
         'independent rules update (placement incl. castling rook / en-passant victim / promotion, side to move, each castling right with monotonicity, '
         'en-passant file, half-move clock, full-move number, pushed undo record, record of earlier positions = old + key of S). '
         'Induction over game length with C07 (start / FEN satisfy the invariant).'),
   design_ref='5 (C03), 4.3',
   note=TB + ' Moves are assumed consistent with the position (Cons); that only legal moves reach make_move is C01/C08.',
   technique='symbolic execution of rustc MIR into z3; differential against an independent reference update; per-shape unsat queries; native replay judged by a mailbox reference'),
 'C04': dict(
   category='proof',
   text=('The from-scratch key F is obtained by running impl From<&Board> for ZKey symbolically; for every invariant-satisfying S with zkey == F(S) and every '
         'consistent move, zkey after make_move == F(S\'). The 64-square XOR identity is split into per-square lemmas (64 z3 queries per shape), a rights/ep/turn lemma, '
         'the incremental-update lemma and a selector-sum lemma, all decided by z3 with the Zobrist words uninterpreted (any table); the XOR regrouping that '
         'combines them is checked by GF(2) elimination in the harness (documented as not an SMT step). F reads only placement, turn, rights, ep (checked on the term).'),
   design_ref='5 (C04)',
   note=TB + ' Composition step (XOR associativity/commutativity over 64 summands) is linear algebra in the harness, not SMT (z3 gives no verdict on parity chains). Unmake: by C02.',
   technique='symbolic execution of rustc MIR into z3 with uninterpreted Zobrist words; lemma decomposition of the XOR identity; 8.4k unsat queries; native replay (incremental vs from-scratch key)'),
 'C05': dict(
   category='proof',
   text=('Lemma A: the from-scratch key computation is executed from MIR on a fully symbolic board with the real table; its XOR-summands are shown by z3, '
         'one per square, to be exactly the table word of that square\'s content (colour and kind both matter, empty = 0), plus the word of each available '
         'castling right, of the en-passant file, and of the side to move. Lemma B: z3 over symbolic indices shows that per square the 12 words and 0 are '
         'pairwise different and that all 2x16x9 side/rights/en-passant states have pairwise different keys. Hence every single-component perturbation '
         'changes the key. The all-pairs clause is not claimed (false for any 64-bit Zobrist scheme).'),
   design_ref='5 (C05)',
   note=TB + ' The table is the native dump of ZTable::init (ChaCha8 not executed symbolically). Composition A+B => perturbation theorem is XOR regrouping.',
   technique='symbolic execution of rustc MIR into z3 bit-vector terms; per-summand unsat queries against the table; table distinctness as SAT over mux-encoded table'),
 'C17': dict(
   category='proof',
   text=('SimpleEvaluator::evaluate and the piece-count chain are executed from MIR in exact integer mode (count_ones as an uninterpreted function into Int, '
         'every cast / saturating op / checked multiply kept as explicit mod, clamp or panic obligation); z3 (linear integer arithmetic) shows '
         'eval(S) == eval(mirror S) and eval(S) == -eval(S with the other side to move) for all counts within the maxima of legal chess, and that no overflow '
         'panic is reachable. popcount(bswap x) == popcount(x) and popcount <= 64 are shown bit-precisely.'),
   design_ref='5 (C17)',
   note=TB + ' Bound: per colour <= 9 queens, <= 10 rooks/bishops/knights, <= 8 pawns.',
   technique='symbolic execution of rustc MIR into z3 integer terms (exact integer mode) + bit-vector popcount lemmas; native replay'),
 'C15': dict(
   category='other',
   text=('(a) UCICommand::new with parse_go / parse_option / parse_position is executed from MIR on token lists of every length 0..8 (quick) / 0..12 (thorough) '
         'whose tokens are symbolic words (any keyword, any decimal number up to 2^136, or junk); every reachable panic site (index, slice range, assert!, unwrap, overflow) '
         'is an obligation that z3 must refute. (b) one iteration of Uci::uci_loop from a fresh session (with and without a previous search) on an arbitrary line of 0..9 tokens and on end of input: '
         'no panic in execute_command, isready => readyok, quit leaves the loop, no other line does, and end of input must not start another iteration. '
         'Level other: the claim is bounded by the line length.'),
   design_ref='5 (C15), 3.3',
   note=TB + ' Strings are abstract tokens (only comparisons with literals, parse::<uN>, emptiness are modelled); from_fen/find_move/make_move/thread::spawn are opaque in (b); FEN arguments assumed valid as the property says.',
   technique='symbolic execution of rustc MIR into z3 over abstract token strings; panic-site obligations; bounded line length; native replay of the concretised line / closed-stdin run'),
 'C01': dict(
   category='proof',
   text=('Lemma decomposition, every lemma decided by z3 over all inputs of its domain, the real code run from MIR: L0 Vec<Square>::from(Bitboard) enumerates set bits in order; '
         'L2 get_attacked_squares / is_in_check equal a reference computed from each target square outward, for every position satisfying the invariant; '
         'L3 castling_ability equals the rule (turn, right, empty squares, unattacked king path); L4 for each of the 768 (kind, colour, square) cases Kind::get_moveset equals the '
         'reference pseudo-legal records as a bag (sound, complete, duplicate-free: double push, en passant, four promotions, castling records); L5 get_all_moves visits 0..63, expands exactly own pieces, '
         'fills captured_piece from the victim square; L6 is_legal_move is Err iff the mover is in check after make_move; L7 get_legal_moves is the filter. '
         'Composition of the lemmas (with C03, C06) into "legal set exact" is a documented argument, not a solver query.'),
   design_ref='5 (C01), 4.3',
   note=TB + ' Slider lookups replaced by the ray-walk reference proven equal in C06; L0 summary used in L4; concrete reference rules are additionally compared with the native engine on the repository FENs.',
   technique='symbolic execution of rustc MIR into z3 bit-vector terms; lemma decomposition with summaries; 1.2k unsat queries; native replay judged by a mailbox reference'),
 'C11': dict(
   category='other',
   text=('Induction over the height of the look-ahead tree, one node per obligation: the real alpha_beta, quiescence, alpha_beta_start, iter_deep/search, MoveOrderer and score_move '
         'are executed from MIR on one node with n pseudo-legal moves (n <= 3 quick, <= 4 thorough), recursive calls replaced by any result the fail-soft window contract allows for free child values; '
         'z3 (linear integer arithmetic, scores in exact integer mode) shows that the node result obeys the same contract w.r.t. the reference value of the property statement '
         '(draws, check extension, quiescence at the horizon, mate by distance, stalemate), that children are searched with depth-1 and proper windows, that the root score and chosen move are exact, '
         'and that no panic is reachable; for all flags, evaluations, windows, plies, killer contents and every ordering the real orderer can produce. Level other: bounded number of moves per node, composition by induction is documented.'),
   design_ref='5 (C11), 4.4',
   note=TB + ' Board through a one-level abstract game; transposition table off; killer table and statistics arbitrary; clock free; no limits; capture-only list modelled as full list with non-captures rejected.',
   technique='symbolic execution of rustc MIR into z3 integer terms; inductive step with a window-search contract for recursive calls; path-by-path execution of the move orderer'),
 'C12': dict(
   category='other',
   text=('Mechanism level, not an end-to-end mate test: the real alpha_beta / alpha_beta_start are executed from MIR on one node WITH the transposition table active and holding an arbitrary entry (any score, stored depth, bound kind, stored move) for the node. '
         'Assuming only that entries at least as deep as the request are sound for the node\'s true value (Exact ==, Lower <=, Upper >=; shallower ones are garbage), the result satisfies the window contract, every entry written is sound and carries the depth searched, '
         'the root picks exactly the best child value (so a mated child is always preferred and an avoidable mate-in-one never allowed) and stores it as Exact. Induction over height and over the sequence of searches gives: a cache filled by this code never changes a result beyond the window contract.'),
   design_ref='5 (C12)',
   note=TB + ' One node with <= 2 generated moves. Idealisation stated: one true value per node once the depth suffices (exact for mate scores, which is why the property speaks of mates). Outside: hash collisions, mate distances reused at another distance from the root, comparison with an oracle on real tactical positions.',
   technique='symbolic execution of rustc MIR into z3; inductive step with an arbitrary cache entry and the fail-soft window contract for nested searches'),
 'C13': dict(
   category='other',
   text=('The same one-node inductive step as C11, but the search may be cut anywhere: the running flag may be cleared at every poll, all limits are symbolic, and every nested '
         'alpha_beta / quiescence call may report that it was cut short (returning the dummy 0; the cut is sticky). Every transposition-table insert of alpha_beta and alpha_beta_start is observed; '
         'z3 shows that no insert is reachable on a path on which a nested search of that node was cut. Cut points are free Booleans: all of them at once, not an enumeration of node budgets.'),
   design_ref='5 (C13)',
   note=TB + ' One-level abstract game; nested calls by contract-or-abort; nodes with <= 2 (quick) / 3 (thorough) moves; quiescence has no insert site.',
   technique='symbolic execution of rustc MIR into z3; inductive step with symbolic cut points; observed cache writes as obligations'),
 'C07': dict(
   category='proof',
   text=('Lemma chain over the real MIR, composed by substitution: piece_placement by ONE trip round its character loop from an arbitrary loop state related to an independent rank/file reader (induction over the string: unbounded length), plus its entry and exit wiring; '
         'the turn / castling / en-passant / counter readers on symbolic characters; the fabricated history record; from_fen field wiring for 4/5/6 fields; BoardBuilder::build field by field with the key as ZKey::from(board); '
         'and: valid FEN content => the loaded Board satisfies the representation invariant Inv from which C01-C05 are proved, so behaviour after loading is that of the position however reached.'),
   design_ref='5 (C07)',
   note=TB + ' Castling field <= 4 characters, counters <= 6000; decimal parsing and whitespace splitting are std (outside); the position log is empty after loading (repetition history is not part of a FEN).',
   technique='symbolic execution of rustc MIR into z3; loop cut-point induction (simulation of a reference reader); lemma composition'),
 'C08': dict(
   category='other',
   text=('Compositional: (PARSE) UCICommand::new executed from MIR on abstract token lists `position ...` of <= 12 tokens: kind, the six FEN tokens and the move tokens are exactly the grammar slices, anything else is Err, no panic; '
         '(LOAD) Uci::load_position executed from MIR with boards/moves as uninterpreted terms: all moves accepted => position == start.m1...mk independent of the previous session position, any refusal => Err and the previous position is kept; ucinewgame resets; '
         '(FIND) Board::find_move returns the first legal move whose notation equals the word, Err if none; (NOTATION) Ply::to_notation executed from MIR with a byte-level model of format!/Display: exactly the coordinate string with q/r/b/n suffix, injective.'),
   design_ref='5 (C08)',
   note=TB + ' <= 12 tokens, <= 4 (quick) / 8 (thorough) moves, 4 candidate legal moves. The legal move set is C01, make_move is C03, FEN reading is C07; stdin framing and the bestmove observation through a running search are outside.',
   technique='symbolic execution of rustc MIR into z3 over abstract tokens / uninterpreted board terms; byte-level format! model; lemma composition'),
 'C09': dict(
   category='other',
   text=('Compositional: (WIRE) Uci::go passes max_depth == limits.depth and spawns exactly one search; (LIM) the real limits_exceeded on arbitrary state and limits fires only for a node/time reason '
         '(never because of the depth limit, always when the node budget or movetime is reached); (ROOT) the real alpha_beta_start with nested searches answering by contract or being cut short records only '
         'the previous or a legal root move as best move, without panic; (ITER) the real search/iter_deep with that iteration contract, all limits and cut points symbolic: no panic, exactly one bestmove line, '
         'the move named is a legal root move. Small-limit go commands are additionally run on the real binary.'),
   design_ref='5 (C09)',
   note=TB + ' Root nodes with <= 2/3 moves, <= 3 iterations; wall-clock promptness and thread behaviour are outside.',
   technique='symbolic execution of rustc MIR into z3; contracts for nested searches and iterations; symbolic limits, clock and cut points; replay on the real binary'),
 'C14': dict(
   category='other',
   text=('The real search / iter_deep / log_uci_info are executed from MIR with alpha_beta_start replaced by the iteration contract of C09 (justified by the limits_exceeded lemma, re-decided here): '
         'the k-th info line carries depth k, no gaps or repeats, and with only a depth limit N every depth 1..N is reported before bestmove, for all limits and cut points. '
         'The real get_pv is executed on an abstract game with an arbitrary transposition table (symbolic presence and legality, all stored-move cases): the returned line is exactly the chain of stored moves '
         'from the searched position while present and legal, the position is restored, no panic. log_uci_info runs without panic for every score and pv length.'),
   design_ref='5 (C14)',
   note=TB + ' Byte-level syntax of the info line is outside (format template only). Depth-reporting counterexamples are replayed on the real binary (`go depth 3`).',
   technique='symbolic execution of rustc MIR into z3; iteration contract; arbitrary finite-map model of the transposition table; replay on the real binary'),
 'C16': dict(
   category='other',
   text=('(a) The clock is the only environment input of a search; the real limits_exceeded, executed from MIR on an arbitrary search state with arbitrary depth/node limits and no time-based limit '
         '(bench / fixed-depth configuration), is shown by z3 not to depend on it (result and side effects; two-run query), and log_uci_info is read-only. '
         '(b) bench::bench executed from MIR with from_fen/search summarised: all 62 positions get a fresh Search::new(&board, None), a fixed depth, an empty cache, and the cache is cleared after each. '
         '(c) a syntactic scan of the MIR call graph reachable from Search::search and bench finds no hash-container iteration, RandomState, rand, thread, env, system time or pointer formatting, '
         'and clock reads only in limits_exceeded, iter_deep, bench. (c) is not a solver verdict and is labelled so.'),
   design_ref='5 (C16)',
   note=TB + ' Separate processes and machine load are outside; a whole-search two-run query with the cache active gave no verdict and is not part of the claim.',
   technique='symbolic execution of rustc MIR into z3 (two-run clock-independence query, bench loop structure) + syntactic call-graph scan of the MIR'),
}
NA = {
 'C10': 'quantifies over OS-thread interleavings (relaxed AtomicBool + JoinHandle::is_finished); MIR has no thread semantics and Kani does not model concurrency - outside solver-based checking of the real code (DESIGN.md 6)',
}
checks = []
for pid, c in CHECKS.items():
    checks.append({
        'property_id': pid,
        'quick_cmd': './check %s --tier quick' % pid,
        'thorough_cmd': './check %s --tier thorough' % pid,
        'evidence_file': '/verif/evidence/%s.json' % pid,
        'replay_cmd_template': './check %s --replay {path}' % pid,
        'engine': 'mirsym',
        'level_claimed': {'category': c['category'], 'text': c['text'], 'design_ref': c['design_ref']},
        'level_note': c['note'],
        'technique': c['technique'],
    })
na = []
for p in props:
    if p['id'] in CHECKS:
        continue
    na.append({'property_id': p['id'], 'reason': NA.get(p['id'], 'check not built yet (framework under construction; see DESIGN.md 9 for the build order)')})
m = {
 'version': 1,
 'setup_cmd': './setup.sh',
 'hooks': {'guard': 'rce_verif',
           'enable': 'checks copy /repo\'s working tree to a scratch directory under /verif/.cache, append `#[cfg(rce_verif)]` helper modules there and build with RUSTFLAGS=--cfg rce_verif (plus --cfg rce_verif_search2 for the optional search-replay module and --cfg rce_verif_cachehook for one `#[cfg(rce_verif_cachehook)]` call inserted - in the scratch copy only - at the entry of Search::alpha_beta, which empties the cache while the C11 replay runs; when that part does not build on a changed tree the helper is built without it); nothing is changed in /repo',
           'baseline_off_cmd': 'cd /repo && cargo test --workspace --no-fail-fast --offline',
           'source_commits': [], 'add_only': True},
 'engines': [{'name': 'mirsym', 'path': '/verif/mirsym', 'serves_properties': sorted(CHECKS),
              'kind_free_text': 'symbolic executor for rustc MIR text (python) producing z3 terms; z3 decides, cvc5 re-decides in the thorough tier; models replayed on a natively built helper'}],
 'checks': checks,
 'notes': 'See DESIGN.md. Exit codes: 0 held, 1 VIOLATION (a concrete replay on the real code where one exists; for C11-C13 a solver model over the abstract game that says whether the native battery reproduced it), 2 inconclusive (no verdict; never reported as held).',
 'not_applicable': na,
}
json.dump(m, open(os.path.join(HERE, 'MANIFEST.json'), 'w'), indent=1)
print('MANIFEST.json:', len(checks), 'checks,', len(na), 'not applicable')
