#!/usr/bin/env python3
"""Regenerates /verif/MANIFEST.json from the table below (keeps it schema-valid)."""
import json, os
HERE = os.path.dirname(os.path.dirname(os.path.abspath(__file__)))
props = [json.loads(l) for l in open(os.path.join(HERE, 'properties.jsonl'))]

TB = ('Trusted: rustc MIR dump == compiled program; the mirsym parser/executor and its std models '
      '(cross-checked on every run by concrete execution against the natively built crate); the reference rules in props/chessref.py; z3.')

CHECKS = {
 'C06': dict(
   category='proof',
   text=('For each of the 64 squares the real magic lookup (mask, multiply, shift, table read, bounds checks) of rook and bishop, and the '
         'queen union, is executed symbolically from MIR over a free 64-bit occupancy and shown equal to a ray-walk reference by z3 '
         '(unsat of the negation) - all 2^64 occupancies per square, no sampling. Knight/king/pawn sets are checked through Kind::get_attacks '
         'for a symbolic (rank,file). Panic obligations (index, overflow) are discharged separately. Counterexamples are replayed on the native build.'),
   design_ref='5 (C06), 3',
   note=TB + ' Table contents come from a native run of the real initialisers (not executed symbolically); the check is of the resulting lookup.',
   technique='symbolic execution of rustc MIR into z3 bit-vector terms; per-square unsat queries (simplify/bit-blast/sat), native replay of models'),
}
NA = {
 'C10': 'quantifies over OS-thread interleavings (relaxed AtomicBool + JoinHandle::is_finished); MIR has no thread semantics and Kani does not model concurrency - outside solver-based checking of the real code (DESIGN.md 6)',
}
checks = []
for pid, c in CHECKS.items():
    checks.append({
        'property_id': pid,
        'quick_cmd': './check %s --tier quick' % pid,
        'thorough_cmd': './check %s --tier thorough' % pid,
        'evidence_file': '/verif/evidence/%s.json' % pid,
        'replay_cmd_template': './check %s --replay {path}' % pid,
        'engine': 'mirsym',
        'level_claimed': {'category': c['category'], 'text': c['text'], 'design_ref': c['design_ref']},
        'level_note': c['note'],
        'technique': c['technique'],
    })
na = []
for p in props:
    if p['id'] in CHECKS:
        continue
    na.append({'property_id': p['id'], 'reason': NA.get(p['id'], 'check not built yet (framework under construction; see DESIGN.md 9 for the build order)')})
m = {
 'version': 1,
 'setup_cmd': './setup.sh',
 'hooks': {'guard': 'rce_verif',
           'enable': 'checks copy /repo\'s working tree to a scratch directory under /verif/.cache, append `#[cfg(rce_verif)]` helper modules there and build with RUSTFLAGS=--cfg rce_verif; nothing is changed in /repo',
           'baseline_off_cmd': 'cd /repo && cargo test --workspace --no-fail-fast --offline',
           'source_commits': [], 'add_only': True},
 'engines': [{'name': 'mirsym', 'path': '/verif/mirsym', 'serves_properties': sorted(CHECKS),
              'kind_free_text': 'symbolic executor for rustc MIR text (python) producing z3 terms; z3 decides, cvc5 re-decides in the thorough tier; models replayed on a natively built helper'}],
 'checks': checks,
 'notes': 'See DESIGN.md. Exit codes: 0 held, 1 VIOLATION (reproduced natively), 2 inconclusive (no verdict; never reported as held).',
 'not_applicable': na,
}
json.dump(m, open(os.path.join(HERE, 'MANIFEST.json'), 'w'), indent=1)
print('MANIFEST.json:', len(checks), 'checks,', len(na), 'not applicable')
