#!/bin/bash
# re-run every stored seed against the check of its property (and of the properties it also breaks if that one holds);
# for the pairs of round 9 also the benign version against every related check (must never be reported).
# Prints one line per seed.  Mutates /repo while it runs (each patch is applied and reverted); evidence is preserved.
# usage: tools/regress_seeds.sh [seed id ...]
cd /verif
ids="$@"; [ -z "$ids" ] && ids=$(ls seeded | grep -v REGRESSION)
for id in $ids; do
  d=seeded/$id
  [ -f $d/meta.json ] || continue
  props=$(python3 -c "
import json,re
m=json.load(open('$d/meta.json'))
ps=[m['property']]+[x.split()[0] for x in m.get('also_breaks',[]) if re.match(r'^C\d\d',x)]
print(' '.join(dict.fromkeys(ps)))")
  res="MISSED"
  for p in $props; do
    out=$(tools/try_seed.sh /verif/$d/patch.diff $p 2>&1)
    code=$(echo "$out" | grep -m1 "^exit=" | cut -d= -f2)
    if [ "$code" = "1" ]; then res="caught by $p"; break; fi
    res="$res ($p exit=$code)"
  done
  echo "$id: $res"
  if [ -f $d/benign.diff ]; then
    bc=$(python3 -c "
import json
print(' '.join(json.load(open('$d/meta.json')).get('benign_checks',[])))")
    bres=""
    for p in $bc; do
      out=$(tools/try_seed.sh /verif/$d/benign.diff $p 2>&1)
      code=$(echo "$out" | grep -m1 "^exit=" | cut -d= -f2)
      case "$code" in 0) bres="$bres $p:held";; 1) bres="$bres $p:FALSE-ALARM";; *) bres="$bres $p:inconclusive($code)";; esac
    done
    echo "$id benign:$bres"
  fi
done
