#!/bin/bash
# re-run every stored seed against the check of its property (and of the properties it also breaks if that one holds);
# prints one line per seed.  Mutates /repo while it runs (each patch is applied and reverted); evidence is preserved.
cd /verif
for d in seeded/*/; do
  id=$(basename $d)
  [ -f $d/meta.json ] || continue
  props=$(python3 -c "
import json,re
m=json.load(open('$d/meta.json'))
ps=[m['property']]+[x.split()[0] for x in m.get('also_breaks',[]) if re.match(r'^C\d\d',x)]
print(' '.join(dict.fromkeys(ps)))")
  res="MISSED"
  for p in $props; do
    out=$(tools/try_seed.sh /verif/$d/patch.diff $p 2>&1)
    code=$(echo "$out" | grep -m1 "^exit=" | cut -d= -f2)
    if [ "$code" = "1" ]; then res="caught by $p"; break; fi
    res="$res ($p exit=$code)"
  done
  echo "$id: $res"
done
