#!/usr/bin/env python3
"""Translator validation of the std models: /verif/modeltest is compiled natively and dumped as MIR; each test function is
run natively and through mirsym (concrete inputs) on random arguments; results must agree.  python3-vt tools/modeltest.py [N]"""
import os, random, subprocess, sys
sys.path.insert(0, '/verif')
from mirsym.executor import Program, Executor, State
from mirsym.values import CI, Unsupported
from mirsym import native

CR = '/verif/modeltest'
TD = '/verif/.cache/target-modeltest'
env = dict(os.environ, CARGO_NET_OFFLINE='true')
subprocess.run(['cargo', '+nightly', 'build', '--offline', '--manifest-path', CR + '/Cargo.toml', '--target-dir', TD], check=True, capture_output=True, env=env)
os.utime(CR + '/src/main.rs')
p = subprocess.run(['cargo', '+nightly', 'rustc', '--offline', '--manifest-path', CR + '/Cargo.toml', '--target-dir', TD + '-mir', '--bin', 'modeltest', '--',
                    '-Zunpretty=mir', '-Ztrim-diagnostic-paths=no', '-C', 'debug-assertions=off', '-C', 'overflow-checks=on'], capture_output=True, text=True, env=env)
assert 'fn ' in p.stdout, p.stderr[-2000:]
prog = Program(p.stdout, {}, {})
prog.src_root = CR
N = int(sys.argv[1]) if len(sys.argv) > 1 else 12
only = sys.argv[2].split(',') if len(sys.argv) > 2 else None
rnd = random.Random(int(os.environ.get('VERIF_SEED', '0')))
names = sorted(n for n in prog.items if n.startswith('t') and n[1:].isdigit())
bad = unsup = okc = 0
for n in names:
    if only and n not in only:
        continue
    tid = int(n[1:])
    for k in range(N):
        a = rnd.getrandbits(rnd.choice([3, 8, 20, 64]))
        b = rnd.getrandbits(rnd.choice([3, 8, 20, 64]))
        nat = subprocess.run([TD + '/debug/modeltest', str(tid), str(a), str(b)], capture_output=True, text=True).stdout.strip()
        try:
            ex = Executor(prog)
            from props import fmtmodel
            fmtmodel.install(ex)
            r = ex.call(n, [CI(a, 64), CI(b, 64)], ['u64', 'u64'], 'u64', State(), 'modeltest')
            if r is None:
                got = 'PANIC'
            else:
                v = r[0]
                import z3
                if not isinstance(v, CI):
                    v2 = z3.simplify(v) if hasattr(v, 'sort') else v
                    got = 'OK %d' % v2.as_long() if hasattr(v2, 'as_long') else 'SYMBOLIC %s' % str(v2)[:80]
                else:
                    got = 'OK %d' % v.v
                # a concrete run that records a reachable panic obligation is a panic
                if any(ob.kind == 'panic' and ob.guard is True for ob in ex.obligations) and nat == 'PANIC':
                    got = 'PANIC'
        except Unsupported as e:
            unsup += 1
            print('%s(%d,%d): unsupported: %s' % (n, a, b, str(e)[:400]))
            break
        except Exception as e:
            bad += 1
            import traceback; traceback.print_exc(); print("%s(%d,%d): internal error %r" % (n, a, b, e))
            break
        if got != nat:
            bad += 1
            print('%s(%d,%d): MISMATCH mirsym=%s native=%s' % (n, a, b, got, nat))
            break
        okc += 1
# ---- symbolic mode: one symbolic execution per function (a, b free 64-bit vectors; paths merged), then the result term
# and the panic obligations are evaluated under random assignments and compared with the native run
sym_ok = sym_bad = sym_unsup = 0
if os.environ.get('MODELTEST_SYMBOLIC', '1') == '1':
    import z3
    import signal

    class _TO(Exception):
        pass

    def _alarm(*_):
        raise _TO()
    A, Bv = z3.BitVec('a', 64), z3.BitVec('b', 64)
    for n in names:
        if only and n not in only:
            continue
        tid = int(n[1:])
        try:
            signal.signal(signal.SIGALRM, _alarm)
            signal.alarm(60)
            ex = Executor(prog)
            from props import fmtmodel
            fmtmodel.install(ex)
            ex.loop_bound = 40
            r = ex.call(n, [A, Bv], ['u64', 'u64'], 'u64', State(), 'modeltest')
            signal.alarm(0)
        except _TO:
            sym_unsup += 1
            print('%s: symbolic execution did not finish in 60 s' % n)
            continue
        except Unsupported as e:
            signal.alarm(0)
            sym_unsup += 1
            print('%s: symbolic: unsupported: %s' % (n, str(e)[:200]))
            continue
        except Exception as e:
            signal.alarm(0)
            sym_bad += 1
            import traceback; traceback.print_exc(); print('%s: symbolic: internal error %r' % (n, e))
            continue
        if r is None:
            sym_unsup += 1
            print('%s: symbolic: diverges on every path' % n)
            continue
        val, st2 = r
        from mirsym.values import bv, zb
        term = bv(val)
        panics = [zb(ob.guard) for ob in ex.obligations if ob.kind in ('panic', 'unwind')]
        for k in range(N):
            a = rnd.getrandbits(rnd.choice([3, 8, 20, 64]))
            b = rnd.getrandbits(rnd.choice([3, 8, 20, 64]))
            nat = subprocess.run([TD + '/debug/modeltest', str(tid), str(a), str(b)], capture_output=True, text=True).stdout.strip()
            sub = [(A, z3.BitVecVal(a, 64)), (Bv, z3.BitVecVal(b, 64))]
            pan = any(z3.is_true(z3.simplify(z3.substitute(p_, *sub))) for p_ in panics)
            if pan:
                got = 'PANIC'
            else:
                v = z3.simplify(z3.substitute(term, *sub))
                g = z3.simplify(z3.substitute(zb(st2.guard), *sub))
                got = 'OK %d' % v.as_long() if z3.is_bv_value(v) and z3.is_true(g) else 'UNDETERMINED %s / guard %s' % (str(v)[:60], str(g)[:40])
            if got != nat:
                sym_bad += 1
                print('%s(%d,%d): SYMBOLIC MISMATCH mirsym=%s native=%s' % (n, a, b, got, nat))
                break
            sym_ok += 1
    print('modeltest symbolic: %d agreeing evaluations, %d mismatching functions, %d not executed symbolically' % (sym_ok, sym_bad, sym_unsup))
    bad += sym_bad
print('modeltest: %d agreeing runs, %d mismatching functions, %d unsupported' % (okc, bad, unsup))
sys.exit(1 if bad else 0)
