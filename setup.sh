#!/bin/bash
# Verifies the offline tool-chain the checks need; builds nothing that depends on /repo.
set -e
command -v python3-vt >/dev/null
python3-vt -c "import z3; print('z3', z3.get_version_string())"
cargo +nightly --version
command -v cvc5 >/dev/null && cvc5 --version | head -1
mkdir -p /verif/evidence /verif/.cache
echo setup ok
