
#[cfg(rce_verif)]
pub fn rce_verif_tables() -> (Vec<u64>, Vec<u64>, Vec<u64>, u64) {
    let t = TABLE.get_or_init(ZTable::init);
    let mut p = Vec::new();
    for c in 0..2 { for k in 0..6 { for s in 0..64 { p.push(t.pieces[c][k][s]); } } }
    (p, t.castling.to_vec(), t.en_passant.to_vec(), t.white_turn)
}

#[cfg(rce_verif)]
impl ZKey {
    pub const fn rce_from_raw(v: u64) -> Self {
        Self(v)
    }
    pub const fn rce_raw(self) -> u64 {
        self.0
    }
}
