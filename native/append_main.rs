
#[cfg(rce_verif)]
mod rce_verif_native;

fn main() {
    #[cfg(rce_verif)]
    {
        let a: Vec<String> = std::env::args().collect();
        if a.len() > 1 && a[1] == "rce-verif" {
            rce_verif_native::main(&a[2..]);
            return;
        }
    }
    rce_orig_main();
}
