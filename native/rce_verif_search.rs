// search-module helper (private access to Search / MoveOrderer)
#![allow(clippy::all, clippy::pedantic, clippy::nursery, dead_code, unused_imports)]
use super::*;

pub fn mvv_lva() -> Vec<Vec<u64>> {
    move_orderer::rce_verif_tables()
}

/// switched on by the `cmp` command: the hook placed at the entry of the inner search then empties the cache
/// ("result caching neutralised" in the sense of property C11)
pub static CACHE_OFF: AtomicBool = AtomicBool::new(false);

pub fn cache_off_hook() {
    if CACHE_OFF.load(Ordering::Relaxed) {
        // a fresh (small) table instead of clear(): clearing is linear in the capacity of the pre-sized table
        let mut t = TRANSPOSITION_TABLE.write().expect("table");
        if !t.is_empty() {
            *t = crate::board::transposition_table::TranspositionTable::default();
        }
    }
}

#[cfg(rce_verif_search2)]
mod replay {
    use super::super::*;
    use super::CACHE_OFF;
    use crate::evaluate::simple_evaluator::SimpleEvaluator;
    use crate::evaluate::Evaluator;
    use crate::board::piece::Kind;
    use crate::board::zkey::ZKey;

    fn neg(s: Score) -> Score {
        s.saturating_neg()
    }

    // The reference is a textbook fail-soft alpha-beta in i32 (natural move order, no null windows, no cache, no killers):
    // its root value equals plain minimax; plain minimax itself is unaffordable in the capture-only quiescence.

    /// capture-only quiescence with stand-pat
    fn ref_q(board: &mut Board, mut alpha: i32, beta: i32) -> i32 {
        let mut best = i32::from(SimpleEvaluator.evaluate(board));
        if best >= beta {
            return best;
        }
        alpha = alpha.max(best);
        let mut caps: Vec<Ply> = board.get_legal_moves().into_iter().filter(Ply::is_capture).collect();
        // most valuable victim first: ordering only (it cannot change a fail-soft alpha-beta's value), keeps the tree affordable
        caps.sort_by_key(|m| match m.captured_piece {
            Some(Kind::Queen(_)) => 0,
            Some(Kind::Rook(_)) => 1,
            Some(Kind::Bishop(_) | Kind::Knight(_)) => 2,
            _ => 3,
        });
        for mv in caps {
            board.make_move(mv);
            let s = -ref_q(board, -beta, -alpha);
            board.unmake_move();
            if s > best {
                best = s;
                if s >= beta {
                    break;
                }
                alpha = alpha.max(s);
            }
        }
        best
    }

    /// the engine's own look-ahead game (the reference of property C11)
    fn ref_ab(board: &mut Board, depth: u32, ply: i32, mut alpha: i32, beta: i32) -> i32 {
        if board.get_halfmove_clock() >= 100 {
            return 0;
        }
        if board.position_reached(board.zkey) {
            return 0;
        }
        let in_check = board.is_in_check(board.current_turn);
        let d = depth + u32::from(in_check);
        if d == 0 {
            return ref_q(board, alpha, beta);
        }
        let moves = board.get_legal_moves();
        if moves.is_empty() {
            return if in_check { i32::from(Score::MIN) + ply } else { 0 };
        }
        let mut best = -1_000_000;
        for mv in moves {
            board.make_move(mv);
            let s = -ref_ab(board, d - 1, ply + 1, -beta, -alpha);
            board.unmake_move();
            if s > best {
                best = s;
                if s >= beta {
                    break;
                }
                alpha = alpha.max(s);
            }
        }
        best
    }

    fn setup(args: &[String]) -> Option<Board> {
        // <6 fen fields> [moves m1 m2 ...]
        if args.len() < 6 {
            return None;
        }
        let fen = args[..6].join(" ");
        let mut board = Board::from_fen(&fen);
        if args.len() > 7 {
            for w in &args[7..] {
                let mv = board.find_move(w).ok()?;
                board.make_move(mv);
            }
        }
        Some(board)
    }

    /// cmp <depth> <fen..> [moves ..]: real fixed-depth search with the cache neutralised vs the reference
    pub fn cmp(args: &[String]) {
        let depth: u8 = args[0].parse().expect("depth");
        let Some(mut board) = setup(&args[1..]) else {
            println!("BAD position");
            return;
        };
        let legal = board.get_legal_moves();
        if legal.is_empty() {
            println!("OK nomoves");
            return;
        }
        // reference: value of every root move
        // reference root value: max over the root moves (the window narrows from move to move, values below it are bounds)
        let mut ref_root = -1_000_000;
        for mv in &legal {
            board.make_move(*mv);
            let s = -ref_ab(&mut board, u32::from(depth) - 1, 1, -1_000_000, -ref_root);
            board.unmake_move();
            ref_root = ref_root.max(s);
        }
        TRANSPOSITION_TABLE.write().expect("table").clear();
        CACHE_OFF.store(true, Ordering::Relaxed);
        let mut search = Search::new(&board, None);
        search.search(&SimpleEvaluator, Some(depth));
        CACHE_OFF.store(false, Ordering::Relaxed);
        let entry = TRANSPOSITION_TABLE.read().expect("table").get(&board.zkey).copied();
        let (score, mv) = match (search.info.best_score, search.info.best_move) {
            (Some(s), Some(m)) => (s, m.to_notation()),
            _ => {
                println!("OK noresult");
                return;
            }
        };
        // the exact value of the move the engine picked (full window), if it is a legal move
        let mv_val = legal.iter().find(|m| m.to_notation() == mv).map(|m| {
            board.make_move(*m);
            let s = -ref_ab(&mut board, u32::from(depth) - 1, 1, -1_000_000, 1_000_000);
            board.unmake_move();
            s
        });
        let (escore, emv) = entry.map_or((None, None), |e| (Some(e.score), Some(e.best_ply.to_notation())));
        println!(
            "OK cmp real_score {} real_move {} ref_root {} ref_value_of_real_move {} entry_score {} entry_move {} nodes {}",
            score,
            mv,
            ref_root,
            mv_val.map_or("illegal".to_string(), |v| v.to_string()),
            escore.map_or("none".to_string(), |v| v.to_string()),
            emv.unwrap_or_else(|| "none".to_string()),
            search.info.nodes
        );
    }

    // ---- interrupted searches (property C13): is everything left in the cache from completely searched subtrees?

    /// value of a node whose remaining depth `d` already includes the check extension (what a cache entry of depth d claims)
    fn ref_node(board: &mut Board, d: u32, ply: i32) -> i32 {
        let moves = board.get_legal_moves();
        if moves.is_empty() {
            return if board.is_in_check(board.current_turn) { i32::from(Score::MIN) + ply } else { 0 };
        }
        let mut best = -1_000_000;
        for mv in moves {
            board.make_move(mv);
            let s = -ref_ab(board, d - 1, ply + 1, -1_000_000, -best);
            board.unmake_move();
            best = best.max(s);
        }
        best
    }

    fn collect(board: &mut Board, depth: u32, ply: i32, out: &mut std::collections::HashMap<ZKey, (Board, i32)>) {
        out.entry(board.zkey).or_insert_with(|| (board.clone(), ply));
        if board.get_halfmove_clock() >= 100 || (ply > 0 && board.position_reached(board.zkey)) {
            return;
        }
        let d = depth + u32::from(ply > 0 && board.is_in_check(board.current_turn));
        if d == 0 || ply > 12 {
            return;
        }
        for mv in board.get_legal_moves() {
            board.make_move(mv);
            collect(board, d - 1, ply + 1, out);
            board.unmake_move();
        }
    }

    /// cut <depth> <node budget, 0 = none> <fen..> [moves ..]: a search with that node budget from an empty cache; every
    /// entry left in the cache is compared with the exact value of its position at its depth (Exact: equal, Lower: value >=
    /// score, Upper: value <= score).  Entries of positions outside the enumerated tree are counted as unknown.
    pub fn cut(args: &[String]) {
        let depth: u8 = args[0].parse().expect("depth");
        let budget: u64 = args[1].parse().expect("nodes");
        let Some(mut board) = setup(&args[2..]) else {
            println!("BAD position");
            return;
        };
        let mut tree = std::collections::HashMap::new();
        collect(&mut board, u32::from(depth), 0, &mut tree);
        TRANSPOSITION_TABLE.write().expect("table").clear();
        let limits = SearchLimits::new().nodes(if budget == 0 { None } else { Some(budget) });
        let mut search = Search::new(&board, Some(limits));
        search.search(&SimpleEvaluator, Some(depth));
        let entries: Vec<(ZKey, TTEntry)> = TRANSPOSITION_TABLE.read().expect("table").iter().map(|(k, e)| (*k, *e)).collect();
        let (mut unsound, mut unknown) = (0, 0);
        let mut first = String::new();
        for (k, e) in &entries {
            let Some((b, ply)) = tree.get(k) else {
                unknown += 1;
                continue;
            };
            let mut b = b.clone();
            let v = if e.depth == 0 {
                // only a changed tree stores horizon nodes: what such an entry claims is the quiescence value
                ref_q(&mut b, -1_000_000, 1_000_000)
            } else if *ply == 0 {
                // the root entry is written by alpha_beta_start: full width over the root moves, no extension
                ref_node(&mut b, u32::from(e.depth), 0)
            } else {
                ref_node(&mut b, u32::from(e.depth), *ply)
            };
            let sc = i32::from(e.score);
            let ok = match e.bound {
                Bounds::Exact => v == sc,
                Bounds::Lower => v >= sc,
                Bounds::Upper => v <= sc,
            };
            if !ok {
                unsound += 1;
                if first.is_empty() {
                    first = format!("ply {} depth {} bound {:?} score {} exact_value {}", ply, e.depth, e.bound, sc, v);
                }
            }
        }
        println!(
            "OK cut nodes {} entries {} unsound {} unknown {} first [{}]",
            search.info.nodes,
            entries.len(),
            unsound,
            unknown,
            first
        );
    }

    // ---- determinism (property C16)

    fn one_search(board: &Board, depth: u8) -> String {
        TRANSPOSITION_TABLE.write().expect("table").clear();
        let mut search = Search::new(board, None);
        search.search(&SimpleEvaluator, Some(depth));
        format!(
            "{}/{}/{}",
            search.info.best_move.map_or("none".to_string(), |m| m.to_notation()),
            search.info.best_score.map_or("none".to_string(), |s| s.to_string()),
            search.info.nodes
        )
    }

    /// det <depth> <fen..> [moves ..]: the same fixed-depth search from an emptied cache three times in one process - first
    /// thing in the process, again, and again after an unrelated search; prints the three (move/score/nodes) results
    pub fn det(args: &[String]) {
        let depth: u8 = args[0].parse().expect("depth");
        let Some(board) = setup(&args[1..]) else {
            println!("BAD position");
            return;
        };
        let a = one_search(&board, depth);
        let b = one_search(&board, depth);
        let other = Board::from_fen("r3k2r/p1ppqpb1/bn2pnp1/3PN3/1p2P3/2N2Q1p/PPPBBPPP/R3K2R w KQkq - 0 1");
        let _ = one_search(&other, 2);
        let c = one_search(&board, depth);
        println!("OK det {a} {b} {c}");
    }

    // ---- mate oracle (property C12): exhaustive, rules only

    fn is_mate(board: &mut Board) -> bool {
        board.get_legal_moves().is_empty() && board.is_in_check(board.current_turn)
    }

    fn mates_in_one(board: &mut Board) -> Vec<Ply> {
        let mut out = vec![];
        for mv in board.get_legal_moves() {
            board.make_move(mv);
            if is_mate(board) {
                out.push(mv);
            }
            board.unmake_move();
        }
        out
    }

    /// side to move can force mate within two of its own moves
    fn forced_mate_in_two(board: &mut Board) -> bool {
        if !mates_in_one(board).is_empty() {
            return true;
        }
        for mv in board.get_legal_moves() {
            board.make_move(mv);
            let ok = keeps_forced_mate(board);
            board.unmake_move();
            if ok {
                return true;
            }
        }
        false
    }

    /// opponent to move: every reply allows a mate in one (and there is a reply; mate itself also counts)
    fn keeps_forced_mate(board: &mut Board) -> bool {
        if is_mate(board) {
            return true;
        }
        let replies = board.get_legal_moves();
        if replies.is_empty() {
            return false; // stalemate
        }
        for r in replies {
            board.make_move(r);
            let m = !mates_in_one(board).is_empty();
            board.unmake_move();
            if !m {
                return false;
            }
        }
        true
    }

    /// after this move the opponent has a mate in one
    fn allows_mate_in_one(board: &mut Board, mv: Ply) -> bool {
        board.make_move(mv);
        let m = !mates_in_one(board).is_empty();
        board.unmake_move();
        m
    }

    /// mates <d1,d2,..> <fen..>: searches of the same position at the given depths in this order, cache kept between them;
    /// after each: is the chosen move acceptable to the mate oracle?
    pub fn mates(args: &[String]) {
        let depths: Vec<u8> = args[0].split(',').map(|d| d.parse().expect("depth")).collect();
        let Some(mut board) = setup(&args[1..]) else {
            println!("BAD position");
            return;
        };
        let legal = board.get_legal_moves();
        if legal.is_empty() {
            println!("OK nomoves");
            return;
        }
        let m1 = mates_in_one(&mut board);
        let m2 = m1.is_empty() && forced_mate_in_two(&mut board);
        let bad: Vec<Ply> = legal.iter().copied().filter(|m| allows_mate_in_one(&mut board, *m)).collect();
        let avoidable = !bad.is_empty() && bad.len() < legal.len();
        let class = if !m1.is_empty() {
            "mate1"
        } else if m2 {
            "mate2"
        } else if avoidable {
            "avoid"
        } else {
            "none"
        };
        if class == "none" {
            println!("OK class none");
            return;
        }
        TRANSPOSITION_TABLE.write().expect("table").clear();
        let mut verdicts = vec![];
        for d in depths {
            let mut search = Search::new(&board, None);
            search.search(&SimpleEvaluator, Some(d));
            let Some(mv) = search.info.best_move else {
                verdicts.push(format!("{d}:nomove:BAD"));
                continue;
            };
            let good = match class {
                "mate1" => m1.contains(&mv),
                "mate2" => {
                    board.make_move(mv);
                    let k = keeps_forced_mate(&mut board);
                    board.unmake_move();
                    k
                }
                _ => !bad.contains(&mv),
            };
            verdicts.push(format!("{}:{}:{}", d, mv.to_notation(), if good || d < 3 { "ok" } else { "BAD" }));
        }
        println!("OK class {} {}", class, verdicts.join(" "));
    }

    /// playout <seed> <plies> <fen..>: a pseudo-random legal game from the position; prints the FEN-less move list so that
    /// the caller can address every position on the way as `<fen> moves ...`
    pub fn playout(args: &[String]) {
        let mut x: u64 = args[0].parse().expect("seed");
        let n: usize = args[1].parse().expect("plies");
        let Some(mut board) = setup(&args[2..]) else {
            println!("BAD position");
            return;
        };
        let mut out = vec![];
        for _ in 0..n {
            let legal = board.get_legal_moves();
            if legal.is_empty() {
                break;
            }
            x = x.wrapping_mul(6364136223846793005).wrapping_add(1442695040888963407);
            let mv = legal[((x >> 33) as usize) % legal.len()];
            out.push(mv.to_notation());
            board.make_move(mv);
        }
        println!("OK playout {}", out.join(" "));
    }
}

pub fn main(args: &[String]) {
    let cmd = args.first().map(String::as_str).unwrap_or("");
    #[cfg(rce_verif_search2)]
    {
        match cmd {
            "cmp" => return replay::cmp(&args[1..]),
            "mates" => return replay::mates(&args[1..]),
            "cut" => return replay::cut(&args[1..]),
            "det" => return replay::det(&args[1..]),
            "playout" => return replay::playout(&args[1..]),
            _ => {}
        }
    }
    if cmd == "have" {
        println!("OK {} {}", cfg!(rce_verif_search2), cfg!(rce_verif_cachehook));
        return;
    }
    eprintln!("search helper: no command {cmd}");
    std::process::exit(3);
}
