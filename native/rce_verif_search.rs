// search-module helper (private access to Search / MoveOrderer)
#![allow(clippy::all, clippy::pedantic, clippy::nursery, dead_code, unused_imports)]
use super::*;

pub fn mvv_lva() -> Vec<Vec<u64>> {
    move_orderer::rce_verif_tables()
}

pub fn main(_args: &[String]) {
    eprintln!("search helper: no command");
    std::process::exit(3);
}
