
#[cfg(rce_verif)]
pub fn rce_verif_tables() -> (Vec<u64>, Vec<Vec<u64>>, Vec<u64>, Vec<u8>) {
    let m = MASKS.get_or_init(<Rook as Magic>::init_masks);
    let a = ATTACKS.get_or_init(Rook::init_attacks);
    (
        m.iter().map(|b| u64::from(*b)).collect(),
        a.iter().map(|v| v.iter().map(|b| u64::from(*b)).collect()).collect(),
        Rook::MAGICS.to_vec(),
        Rook::INDEX_BITS.to_vec(),
    )
}
