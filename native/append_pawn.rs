
#[cfg(rce_verif)]
pub fn rce_verif_tables() -> Vec<Vec<u64>> {
    ATTACKS.get_or_init(<Pawn as PrecomputedColor>::init_attacks).iter().map(|r| r.iter().map(|b| u64::from(*b)).collect()).collect()
}
