
#[cfg(rce_verif)]
pub mod rce_verif_uci;
