
#[cfg(rce_verif)]
pub fn rce_verif_tables() -> Vec<Vec<u64>> {
    // element type agnostic (u16/u32/u64 ...): values are widened for the dump
    MVV_LVA_TABLE
        .get_or_init(init_mvv_lva)
        .iter()
        .map(|r| r.iter().map(|&x| u64::try_from(x).unwrap_or(u64::MAX)).collect())
        .collect()
}
