
#[cfg(rce_verif)]
pub fn rce_verif_tables() -> Vec<Vec<u64>> {
    MVV_LVA_TABLE.get_or_init(init_mvv_lva).iter().map(|r| r.to_vec()).collect()
}
