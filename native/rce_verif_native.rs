// Native helper appended to a scratch copy of the crate (cfg rce_verif). Never part of /repo.
#![allow(clippy::all, clippy::pedantic, clippy::nursery, dead_code)]

fn jv(v: &[u64]) -> String {
    let s: Vec<String> = v.iter().map(|x| x.to_string()).collect();
    format!("[{}]", s.join(","))
}
fn jvv(v: &[Vec<u64>]) -> String {
    let s: Vec<String> = v.iter().map(|x| jv(x)).collect();
    format!("[{}]", s.join(","))
}

fn tables() {
    use crate::board::piece::{bishop, king, knight, pawn, rook};
    let (rm, ra, rmag, rbits) = rook::rce_verif_tables();
    let (bm, ba, bmag, bbits) = bishop::rce_verif_tables();
    let rays = crate::board::square::rays::RAYS
        .get_or_init(crate::board::square::rays::Rays::new)
        .rays;
    let rays_v: Vec<Vec<u64>> = rays.iter().map(|r| r.iter().map(|b| u64::from(*b)).collect()).collect();
    let (zp, zc, ze, zw) = crate::board::zkey::rce_verif_tables();
    let mvv = crate::search::rce_verif_search::mvv_lva();
    println!("{{");
    println!("\"rook_masks\": {},", jv(&rm));
    println!("\"rook_attacks\": {},", jvv(&ra));
    println!("\"rook_magics\": {},", jv(&rmag));
    println!("\"rook_index_bits\": {},", jv(&rbits.iter().map(|x| u64::from(*x)).collect::<Vec<_>>()));
    println!("\"bishop_masks\": {},", jv(&bm));
    println!("\"bishop_attacks\": {},", jvv(&ba));
    println!("\"bishop_magics\": {},", jv(&bmag));
    println!("\"bishop_index_bits\": {},", jv(&bbits.iter().map(|x| u64::from(*x)).collect::<Vec<_>>()));
    println!("\"knight_attacks\": {},", jv(&knight::rce_verif_tables()));
    println!("\"king_attacks\": {},", jv(&king::rce_verif_tables()));
    println!("\"pawn_attacks\": {},", jvv(&pawn::rce_verif_tables()));
    println!("\"rays\": {},", jvv(&rays_v));
    println!("\"mvv_lva\": {},", jvv(&mvv));
    println!("\"z_pieces\": {},", jv(&zp));
    println!("\"z_castling\": {},", jv(&zc));
    println!("\"z_en_passant\": {},", jv(&ze));
    println!("\"z_white_turn\": {}", zw);
    println!("}}");
}

pub fn main(args: &[String]) {
    let cmd = args.first().map(String::as_str).unwrap_or("");
    match cmd {
        "tables" => tables(),
        "board" => crate::board::rce_verif_board::main(&args[1..]),
        "search" => crate::search::rce_verif_search::main(&args[1..]),
        "uci" => crate::uci::rce_verif_uci::main(&args[1..]),
        _ => {
            eprintln!("unknown rce-verif command {cmd}");
            std::process::exit(3);
        }
    }
}
