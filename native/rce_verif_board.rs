// board-module helper (private access to Board fields). Appended to a scratch copy only (cfg rce_verif).
#![allow(clippy::all, clippy::pedantic, clippy::nursery, dead_code, unused_imports)]
use super::piece::bishop::Bishop;
use super::piece::queen::Queen;
use super::piece::rook::Rook;
use super::ply::castling::CastlingRights;
use super::*;
use std::collections::HashSet;

/// The record of earlier positions has been a HashSet and a Vec in different versions of the crate.
pub trait RcePh {
    fn rce_new() -> Self;
    fn rce_add(&mut self, k: ZKey);
    fn rce_keys(&self) -> Vec<u64>;
}
impl RcePh for HashSet<ZKey> {
    fn rce_new() -> Self {
        HashSet::new()
    }
    fn rce_add(&mut self, k: ZKey) {
        self.insert(k);
    }
    fn rce_keys(&self) -> Vec<u64> {
        let mut v: Vec<u64> = self.iter().map(|k| zkey_val(*k)).collect();
        v.sort_unstable();
        v
    }
}
impl RcePh for Vec<ZKey> {
    fn rce_new() -> Self {
        Vec::new()
    }
    fn rce_add(&mut self, k: ZKey) {
        self.push(k);
    }
    fn rce_keys(&self) -> Vec<u64> {
        self.iter().map(|k| zkey_val(*k)).collect()
    }
}
fn ph_new<T: RcePh>() -> T {
    T::rce_new()
}

pub struct Tok<'a> {
    it: std::slice::Iter<'a, String>,
}
impl<'a> Tok<'a> {
    pub fn new(v: &'a [String]) -> Self {
        Self { it: v.iter() }
    }
    pub fn s(&mut self) -> &'a str {
        self.it.next().expect("token missing").as_str()
    }
    pub fn i(&mut self) -> i64 {
        self.s().parse().expect("int token")
    }
    pub fn u(&mut self) -> u64 {
        self.s().parse().expect("u64 token")
    }
    pub fn rest(&mut self) -> Vec<&'a str> {
        let mut v = Vec::new();
        for x in self.it.by_ref() {
            v.push(x.as_str());
        }
        v
    }
}

pub fn color(i: i64) -> Color {
    if i == 0 {
        Color::White
    } else {
        Color::Black
    }
}
pub fn kind(k: i64, c: i64) -> Kind {
    let c = color(c);
    match k {
        0 => Kind::Pawn(c),
        1 => Kind::King(c),
        2 => Kind::Queen(c),
        3 => Kind::Rook(c),
        4 => Kind::Bishop(c),
        _ => Kind::Knight(c),
    }
}
pub fn opt_kind(t: &mut Tok) -> Option<Kind> {
    let k = t.i();
    if k < 0 {
        None
    } else {
        let c = t.i();
        Some(kind(k, c))
    }
}
pub fn status(i: i64) -> CastlingStatus {
    if i == 0 {
        CastlingStatus::Available
    } else {
        CastlingStatus::Unavailable
    }
}
pub fn read_ply(t: &mut Tok) -> Ply {
    let start = Square { rank: t.i() as u8, file: t.i() as u8 };
    let dest = Square { rank: t.i() as u8, file: t.i() as u8 };
    let pk = t.i();
    let pc = t.i();
    let piece = kind(pk, pc);
    let captured_piece = opt_kind(t);
    let promoted_to = opt_kind(t);
    let is_castles = t.i() != 0;
    let en_passant = t.i() != 0;
    let is_double_pawn_push = t.i() != 0;
    let halfmove_clock = t.i() as u16;
    let castling_rights = CastlingRights {
        white_kingside: status(t.i()),
        white_queenside: status(t.i()),
        black_kingside: status(t.i()),
        black_queenside: status(t.i()),
    };
    Ply {
        start,
        dest,
        piece,
        captured_piece,
        promoted_to,
        is_castles,
        en_passant,
        is_double_pawn_push,
        halfmove_clock,
        castling_rights,
    }
}
pub fn read_board(t: &mut Tok) -> Board {
    let current_turn = color(t.i());
    let fullmove_counter = t.i() as u16;
    let ep = t.i();
    let en_passant_file = if ep < 0 { None } else { Some(ep as u8) };
    let nh = t.i();
    let mut history = Vec::new();
    for _ in 0..nh {
        history.push(read_ply(t));
    }
    let np = t.i();
    let mut position_history = ph_new();
    for _ in 0..np {
        RcePh::rce_add(&mut position_history, zkey_of(t.u()));
    }
    let mut b = [0u64; 15];
    for x in b.iter_mut() {
        *x = t.u();
    }
    let bitboards = piece_bitboards::PieceBitboards {
        white_pawns: Bitboard::new(b[0]),
        white_king: Bitboard::new(b[1]),
        white_queens: Bitboard::new(b[2]),
        white_rooks: Bitboard::new(b[3]),
        white_knights: Bitboard::new(b[4]),
        white_bishops: Bitboard::new(b[5]),
        black_pawns: Bitboard::new(b[6]),
        black_king: Bitboard::new(b[7]),
        black_queens: Bitboard::new(b[8]),
        black_rooks: Bitboard::new(b[9]),
        black_knights: Bitboard::new(b[10]),
        black_bishops: Bitboard::new(b[11]),
        white_pieces: Bitboard::new(b[12]),
        black_pieces: Bitboard::new(b[13]),
        all_pieces: Bitboard::new(b[14]),
    };
    let zkey = zkey_of(t.u());
    Board { current_turn, fullmove_counter, en_passant_file, history, position_history, bitboards, zkey }
}
pub fn zkey_of(v: u64) -> ZKey {
    ZKey::rce_from_raw(v)
}
pub fn zkey_val(k: ZKey) -> u64 {
    k.rce_raw()
}
pub fn kind_str(k: Kind) -> String {
    let ki = usize::from(k);
    let ci = usize::from(k.get_color());
    format!("{ki} {ci}")
}
pub fn opt_kind_str(k: Option<Kind>) -> String {
    match k {
        None => "-1".to_string(),
        Some(k) => kind_str(k),
    }
}
pub fn st(s: CastlingStatus) -> u8 {
    if s == CastlingStatus::Available {
        0
    } else {
        1
    }
}
pub fn ply_str(p: &Ply) -> String {
    format!(
        "{} {} {} {} {} {} {} {} {} {} {} {} {} {} {}",
        p.start.rank,
        p.start.file,
        p.dest.rank,
        p.dest.file,
        kind_str(p.piece),
        opt_kind_str(p.captured_piece),
        opt_kind_str(p.promoted_to),
        u8::from(p.is_castles),
        u8::from(p.en_passant),
        u8::from(p.is_double_pawn_push),
        p.halfmove_clock,
        st(p.castling_rights.white_kingside),
        st(p.castling_rights.white_queenside),
        st(p.castling_rights.black_kingside),
        st(p.castling_rights.black_queenside)
    )
}
pub fn board_str(b: &Board) -> String {
    let mut s = String::new();
    s += &format!("{} {} ", usize::from(b.current_turn), b.fullmove_counter);
    s += &format!("{} ", b.en_passant_file.map_or(-1i64, i64::from));
    s += &format!("{} ", b.history.len());
    for p in &b.history {
        s += &ply_str(p);
        s += " ";
    }
    let keys: Vec<u64> = RcePh::rce_keys(&b.position_history);
    s += &format!("{} ", keys.len());
    for k in keys {
        s += &format!("{k} ");
    }
    let bb = &b.bitboards;
    for x in [
        bb.white_pawns,
        bb.white_king,
        bb.white_queens,
        bb.white_rooks,
        bb.white_knights,
        bb.white_bishops,
        bb.black_pawns,
        bb.black_king,
        bb.black_queens,
        bb.black_rooks,
        bb.black_knights,
        bb.black_bishops,
        bb.white_pieces,
        bb.black_pieces,
        bb.all_pieces,
    ] {
        s += &format!("{} ", u64::from(x));
    }
    s += &format!("{}", zkey_val(b.zkey));
    s
}

fn guarded<F: FnOnce() + std::panic::UnwindSafe>(f: F) {
    std::panic::set_hook(Box::new(|_| {}));
    if let Err(e) = std::panic::catch_unwind(f) {
        let msg = if let Some(s) = e.downcast_ref::<&str>() {
            (*s).to_string()
        } else if let Some(s) = e.downcast_ref::<String>() {
            s.clone()
        } else {
            "?".to_string()
        };
        println!("PANIC {}", msg.replace('\n', " "));
    }
}

pub fn main(args: &[String]) {
    let mut t = Tok::new(args);
    let cmd = t.s();
    match cmd {
        "slider" => {
            let which = t.s();
            let sq = Square::from(t.i() as u8);
            let occ = Bitboard::new(t.u());
            guarded(move || {
                let r = match which {
                    "rook" => Rook::get_attacks_wrapper(sq, occ),
                    "bishop" => Bishop::get_attacks_wrapper(sq, occ),
                    _ => Queen::get_attacks(sq, occ),
                };
                println!("OK {}", u64::from(r));
            });
        }
        "attacks" => {
            // Kind::get_attacks(kind, sq, board) on a board whose all_pieces is `occ`
            let k = kind(t.i(), t.i());
            let sq = Square { rank: t.i() as u8, file: t.i() as u8 };
            let occ = t.u();
            guarded(move || {
                let mut b = BoardBuilder::construct_empty_board().build();
                b.bitboards.all_pieces = Bitboard::new(occ);
                println!("OK {}", u64::from(k.get_attacks(sq, &b)));
            });
        }
        "echo" => {
            let b = read_board(&mut t);
            println!("OK {}", board_str(&b));
        }
        "zkey_from" => {
            let b = read_board(&mut t);
            guarded(move || println!("OK {}", zkey_val(ZKey::from(&b))));
        }
        "make" | "makeunmake" | "legal" => {
            let mut b = read_board(&mut t);
            let p = read_ply(&mut t);
            let c = cmd.to_string();
            guarded(move || {
                match c.as_str() {
                    "make" => {
                        b.make_move(p);
                        println!("OK {}", board_str(&b));
                    }
                    "makeunmake" => {
                        b.make_move(p);
                        b.unmake_move();
                        println!("OK {}", board_str(&b));
                    }
                    _ => {
                        let r = b.is_legal_move(p).is_ok();
                        println!("OK {} {}", u8::from(r), board_str(&b));
                    }
                }
            });
        }
        "incheck" => {
            let b = read_board(&mut t);
            let c = color(t.i());
            guarded(move || println!("OK {}", u8::from(b.is_in_check(c))));
        }
        "attacked" => {
            let b = read_board(&mut t);
            let c = color(t.i());
            guarded(move || println!("OK {}", u64::from(b.get_attacked_squares(c))));
        }
        "castling_ability" => {
            let b = read_board(&mut t);
            let k = match t.i() {
                0 => CastlingKind::WhiteKingside,
                1 => CastlingKind::WhiteQueenside,
                2 => CastlingKind::BlackKingside,
                _ => CastlingKind::BlackQueenside,
            };
            guarded(move || match b.castling_ability(k) {
                Ok(s) => println!("OK 0 {}", st(s)),
                Err(_) => println!("OK 1 0"),
            });
        }
        "allmoves" | "legalmoves" => {
            let mut b = read_board(&mut t);
            let c = cmd.to_string();
            guarded(move || {
                let mv = if c == "allmoves" { b.get_all_moves() } else { b.get_legal_moves() };
                let v: Vec<String> = mv.iter().map(ply_str).collect();
                println!("OK {} {}", v.len(), v.join(" "));
            });
        }
        "moveset" => {
            let b = read_board(&mut t);
            let k = kind(t.i(), t.i());
            let sq = Square { rank: t.i() as u8, file: t.i() as u8 };
            guarded(move || {
                let mv = k.get_moveset(sq, &b);
                let v: Vec<String> = mv.iter().map(ply_str).collect();
                println!("OK {} {}", v.len(), v.join(" "));
            });
        }
        "fen" => {
            let f = t.rest().join(" ");
            guarded(move || {
                let b = Board::from_fen(&f);
                println!("OK {}", board_str(&b));
            });
        }
        "startpos" => {
            let b = BoardBuilder::construct_starting_board().build();
            println!("OK {}", board_str(&b));
        }
        "eval" => {
            let mut b = read_board(&mut t);
            guarded(move || {
                use crate::evaluate::Evaluator;
                let e = crate::evaluate::simple_evaluator::SimpleEvaluator;
                println!("OK {}", e.evaluate(&mut b));
            });
        }
        "notation" => {
            let p = read_ply(&mut t);
            guarded(move || println!("OK {}", p.to_notation()));
        }
        _ => {
            eprintln!("board helper: unknown command {cmd}");
            std::process::exit(3);
        }
    }
}
