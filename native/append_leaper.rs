
#[cfg(rce_verif)]
pub fn rce_verif_tables() -> Vec<u64> {
    ATTACKS.get_or_init(<PIECE as Precomputed>::init_attacks).iter().map(|b| u64::from(*b)).collect()
}
