// uci-module helper (private access to Uci / UCICommand). Appended to a scratch copy only (cfg rce_verif).
#![allow(clippy::all, clippy::pedantic, clippy::nursery, dead_code, unused_imports)]
use super::uci_command::{PositionKind, UCICommand};
use super::*;

fn guarded<F: FnOnce() + std::panic::UnwindSafe>(f: F) {
    std::panic::set_hook(Box::new(|_| {}));
    if let Err(e) = std::panic::catch_unwind(f) {
        let msg = if let Some(s) = e.downcast_ref::<&str>() {
            (*s).to_string()
        } else if let Some(s) = e.downcast_ref::<String>() {
            s.clone()
        } else {
            "?".to_string()
        };
        println!("PANIC {}", msg.replace('\n', " "));
    }
}

pub fn main(args: &[String]) {
    let cmd = args.first().map(String::as_str).unwrap_or("");
    match cmd {
        "parse" => {
            let toks: Vec<String> = args[1..].to_vec();
            guarded(move || {
                let fields: Vec<&str> = toks.iter().map(String::as_str).collect();
                match UCICommand::new(&fields) {
                    Ok(c) => println!("OK ok {c:?}"),
                    Err(e) => println!("OK err {e}"),
                }
            });
        }
        "exec" => {
            // one command line executed on a fresh Uci; prints the resulting position's key or the error
            let toks: Vec<String> = args[1..].to_vec();
            guarded(move || {
                let fields: Vec<&str> = toks.iter().map(String::as_str).collect();
                let mut uci = Uci::new();
                match UCICommand::new(&fields) {
                    Ok(c) => match uci.execute_command(c) {
                        Ok(()) => println!("OK ok {}", crate::board::rce_verif_board::board_str(&uci.board)),
                        Err(e) => println!("OK execerr {e}"),
                    },
                    Err(e) => println!("OK parseerr {e}"),
                }
            });
        }
        "session" => {
            // several command lines (separated by the token ";;") executed in order on one fresh Uci; one result line each
            let toks: Vec<String> = args[1..].to_vec();
            guarded(move || {
                let mut uci = Uci::new();
                for line in toks.split(|t| t == ";;") {
                    let fields: Vec<&str> = line.iter().map(String::as_str).collect();
                    match UCICommand::new(&fields) {
                        Ok(c) => match uci.execute_command(c) {
                            Ok(()) => println!("OK ok {}", crate::board::rce_verif_board::board_str(&uci.board)),
                            Err(e) => println!("OK execerr {}", crate::board::rce_verif_board::board_str(&uci.board)),
                        },
                        Err(e) => println!("OK parseerr {}", crate::board::rce_verif_board::board_str(&uci.board)),
                    }
                }
            });
        }
        _ => {
            eprintln!("uci helper: unknown command {cmd}");
            std::process::exit(3);
        }
    }
}
