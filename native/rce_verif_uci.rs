// uci-module helper
#![allow(clippy::all, clippy::pedantic, clippy::nursery, dead_code, unused_imports)]
use super::*;

pub fn main(_args: &[String]) {
    eprintln!("uci helper: no command");
    std::process::exit(3);
}
