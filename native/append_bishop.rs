
#[cfg(rce_verif)]
pub fn rce_verif_tables() -> (Vec<u64>, Vec<Vec<u64>>, Vec<u64>, Vec<u8>) {
    let m = MASKS.get_or_init(<Bishop as Magic>::init_masks);
    let a = ATTACKS.get_or_init(Bishop::init_attacks);
    (
        m.iter().map(|b| u64::from(*b)).collect(),
        a.iter().map(|v| v.iter().map(|b| u64::from(*b)).collect()).collect(),
        Bishop::MAGICS.to_vec(),
        Bishop::INDEX_BITS.to_vec(),
    )
}
