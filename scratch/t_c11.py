import sys, time, traceback
sys.path.insert(0,'/verif')
from mirsym.harness import Run
from props import c11, boardsym as B
run = Run('C11'); run.build(); B.check_layout(run.prog)
sub=run.sub()
t=time.time()
try:
    c11.worker(sub, eval(sys.argv[1]))
except Exception:
    traceback.print_exc()
print(sys.argv[1], round(time.time()-t,1), len(sub.queries), sub.inconclusive[:3], [v['what'][:200] for v in sub.violations][:3])
