import sys, time
sys.path.insert(0,'/verif')
from mirsym.harness import Run
from props import c11, boardsym as B
run = Run('C11'); run.build(); B.check_layout(run.prog)
sub=run.sub()
job=eval(sys.argv[1])
t=time.time()
c11.worker(sub, job)
print(round(time.time()-t,1), [(q['id'],q['verdict'],q['seconds']) for q in sub.queries][:12], sub.inconclusive[:3], [v['what'][:300] for v in sub.violations][:3], sub.exec_stats)
