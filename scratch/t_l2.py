import sys, time
sys.path.insert(0,'/verif')
import z3
from mirsym.harness import Run, bb
from mirsym.executor import State
from mirsym.values import *
from props import boardsym as B, chessref as R
run = Run('T'); run.build(); B.check_layout(run.prog)
S = B.SymBoard('S', B.WHITE)
ex = run.executor()
def slider(dirs):
    def f(ctx, sq, blockers):
        assert isinstance(sq[0], CI) and isinstance(sq[1], CI)
        return (R.slider_ref(sq[0].v*8+sq[1].v, bv(blockers[0]), dirs),)
    return f
ex.override('<board::piece::rook::Rook as board::piece::Magic>::get_attacks', slider(R.ROOK_DIRS))
ex.override('<board::piece::bishop::Bishop as board::piece::Magic>::get_attacks', slider(R.BISHOP_DIRS))
st = State(); bp = ex.alloc(st, S.value())
t=time.time()
r = ex.call('board::Board::get_attacked_squares', [bp, B.color_v(B.WHITE)], ['&board::Board','board::piece::Color'], 'board::bitboard::Bitboard', st, 'h')
print('exec', time.time()-t, ex.stats, len(ex.obligations))
val, st2 = r
att = bv(val[0])
# reference: squares attacked by BLACK (attackers of white's squares)
def ref_attacked(S, by):
    res = z3.BitVecVal(0,64)
    occ = S.all
    P = lambda k: S.bbset(k, by)
    for t in range(64):
        r0,f0 = divmod(t,8)
        conds=[]
        for dr,df in R.KNIGHT_DELTAS:
            r,f=r0+dr,f0+df
            if 0<=r<8 and 0<=f<8: conds.append(R.bit(P(B.KNIGHT), r*8+f))
        for dr,df in R.KING_DELTAS:
            r,f=r0+dr,f0+df
            if 0<=r<8 and 0<=f<8: conds.append(R.bit(P(B.KING), r*8+f))
        # pawns of colour `by` attack t from one rank behind (relative to their direction)
        pr = r0-1 if by==B.WHITE else r0+1
        for df in (-1,1):
            f=f0+df
            if 0<=pr<8 and 0<=f<8: conds.append(R.bit(P(B.PAWN), pr*8+f))
        for dirs, kinds in ((R.ROOK_DIRS,(B.ROOK,B.QUEEN)),(R.BISHOP_DIRS,(B.BISHOP,B.QUEEN))):
            for dr,df in dirs:
                r,f=r0+dr,f0+df
                clear = z3.BoolVal(True)
                while 0<=r<8 and 0<=f<8:
                    s=r*8+f
                    conds.append(z3.And(clear, z3.Or(*[R.bit(P(k), s) for k in kinds])))
                    clear = z3.And(clear, z3.Not(R.bit(occ, s)))
                    r+=dr; f+=df
        res = res | z3.If(z3.Or(*conds), R.sqbit(t), z3.BitVecVal(0,64))
    return res
ref = ref_attacked(S, B.BLACK)
pre = S.inv()
t=time.time()
q = run.decide('l2', pre+[zb(st2.guard), att != ref], timeout=300)
print(q.verdict, q.seconds)
q = run.decide('l2-nog', pre+[att != ref], timeout=300)
print(q.verdict, q.seconds)
