import sys, time
sys.path.insert(0,'/verif')
from mirsym.harness import Run
from mirsym import executor as X
from props import uci_loop, uci_tokens as U
run = Run('C15'); run.build()
orig = X.Executor.run_item
def ri(self, item, args, st):
    try:
        return orig(self, item, args, st)
    except Exception as e:
        print('in', item.name[:120]); raise
X.Executor.run_item = ri
n=int(sys.argv[1])
toks=[U.TokV.fresh('l%d'%i) for i in range(n)]
t=time.time()
ex, env, r, up = uci_loop.run_iteration(run, toks, False, sys.argv[2] if len(sys.argv)>2 else 'none')
print(time.time()-t, len(ex.obligations), [(e[0]) for e in env.events][:20])
