import sys, time
sys.path.insert(0,'/verif')
import z3
from mirsym.harness import Run
from mirsym.values import *
from props import c04, boardsym as B, boardstep as BS
run = Run('C04'); run.build(); B.check_layout(run.prog)
sh = [s for s in B.move_shapes() if B.shape_name(s)=='w-knight-xrook'][0]
stp = BS.Step(run, sh, zobrist='uf')
S,m,ex,pre=stp.S,stp.m,stp.ex,stp.pre
t=time.time(); F0=stp.zkey_from(); print('F0',time.time()-t)
t=time.time(); b1=stp.make(); F1=stp.zkey_from(); print('F1',time.time()-t)
g=stp.guard()
print('guard size', len(g.sexpr()), 'pre', sum(len(zb(p).sexpr()) for p in pre))
T0,T1=xor_summands(F0),xor_summands(F1)
sq0,_,_,_,_=c04.classify(T0,run.uf); sq1,_,_,_,_=c04.classify(T1,run.uf)
i=12
goal=(sq1[i][0]^sq0[i][0])!=z3.BitVecVal(0,64)
print('goal size', len(goal.sexpr()))
for tac in (['simplify','propagate-values','solve-eqs','bit-blast','sat'],):
    s=z3.Then(*tac).solver(); 
    t=time.time(); s.add(*[zb(p) for p in pre]); s.add(g); s.add(goal); r=s.check(); print(tac, r, time.time()-t)
s=z3.Then('simplify','propagate-values','solve-eqs','bit-blast','sat').solver()
t=time.time(); s.add(g); s.add(goal); r=s.check(); print('no pre', r, time.time()-t)
s=z3.Then('simplify','propagate-values','solve-eqs','bit-blast','sat').solver()
t=time.time(); s.add(*[zb(p) for p in pre]); s.add(goal); r=s.check(); print('no guard', r, time.time()-t)
print('conj', len(stp.st.conj))
for c in stp.st.conj[:30]:
    t = c.sexpr() if hasattr(c,'sexpr') else str(c)
    print(len(t), t[:200].replace('\n',' '))
