import sys, time, json
sys.path.insert(0,'/verif')
from mirsym.harness import Run
from props import c11, boardsym as B
run = Run('C11'); run.build(); B.check_layout(run.prog)
sub=run.sub()
c11.worker(sub, eval(sys.argv[1]))
for v in sub.violations:
    print(v['what'])
    d=json.load(open(v['replay']))
    f=d.get('facts') or d.get('model')
    if isinstance(f, dict):
        for k in sorted(f):
            if not k.startswith(('g0_eval','elapsed')): print('   ',k,'=',f[k])
    else: print(f)
