import sys, time
sys.path.insert(0,'/verif')
from mirsym.harness import Run
from mirsym import native
from props import searchreplay as SR
import os
os.environ['VERIF_DEBUG']='1'
run = Run('C13'); run.build()
print(SR.have(run))
for f in SR.CUT_FENS[:3]:
    for d in (2,3):
        t=time.time(); rc,o,e=native.run_helper(run.helper,['search','cut',str(d),'0']+f.split(),timeout=600); print(d, f[:30], SR._last(o), round(time.time()-t,2))
t=time.time(); print('cut battery:', SR.cut_battery(run), round(time.time()-t,1))
