import z3, time
def run(W, ne=3, kind='smt'):
    fv = lambda n: z3.BitVec('cmp_' + n, W)
    def xor_all(ts):
        r = z3.BitVecVal(0, W)
        for t in ts: r = r ^ t
        return r
    w0 = [fv('w0_%d' % i) for i in range(64)]; w1 = [fv('w1_%d' % i) for i in range(64)]; dd = [fv('d_%d' % i) for i in range(64)]
    rr0, rr1, dr, k0, k1 = fv('r0'), fv('r1'), fv('dr'), fv('k0'), fv('k1')
    se = [fv('s_%d' % e) for e in range(ne)]
    de = [[fv('de_%d_%d' % (e, i)) for i in range(64)] for e in range(ne)]
    facts = [w1[i] ^ w0[i] == dd[i] for i in range(64)] + [rr1 ^ rr0 == dr, k0 == (xor_all(w0) ^ rr0)]
    facts += [se[e] == xor_all(de[e]) for e in range(ne)]
    facts += [dd[i] == xor_all([de[e][i] for e in range(ne)]) for i in range(64)]
    facts += [k1 ^ k0 == (xor_all(se) ^ dr)]
    goal = k1 != (xor_all(w1) ^ rr1)
    s = z3.Solver() if kind=='smt' else z3.Then('simplify','solve-eqs','simplify','bit-blast','sat').solver()
    s.set('timeout', 30000)
    s.add(*facts); s.add(goal)
    t=time.time(); r=s.check(); print(W, kind, r, round(time.time()-t,2))
run(1); run(1,kind='t'); run(64,kind='t')
