import sys, time
sys.path.insert(0,'/verif')
from mirsym.harness import Run
from props import c01, boardsym as B
run = Run('C01'); run.build(); B.check_layout(run.prog)
kind=sys.argv[1]
item=eval(sys.argv[2])
sub=run.sub()
t=time.time()
c01.worker(sub,(kind,item))
print(kind,item,round(time.time()-t,1), len(sub.queries), [q['verdict'] for q in sub.queries][:8], sub.inconclusive[:2], [v['what'][:200] for v in sub.violations][:2])
