import sys, traceback
sys.path.insert(0,'/verif')
from mirsym.harness import Run
from props import c14, boardsym as B
run = Run('C14'); run.build()
sub=run.sub()
try:
    c14.worker(sub, ('PV', (0,0,1)))
except Exception:
    traceback.print_exc()
print([(q['id'],q['verdict']) for q in sub.queries][:6], sub.inconclusive[:3], [v['what'][:200] for v in sub.violations][:3])
