import sys, time
sys.path.insert(0,'/verif')
from mirsym.harness import Run
from props import searchreplay as SR
run = Run('C11'); run.build()
print(SR.have(run))
ps=SR.positions(run); print(len(ps),'positions')
t=time.time(); print('cmp:', SR.cmp_battery(run), round(time.time()-t,1))
t=time.time(); print('mates:', SR.mates_battery(run), round(time.time()-t,1))
