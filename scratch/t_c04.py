import sys, time
sys.path.insert(0,'/verif')
from mirsym.harness import Run
from props import c04, boardsym as B
run = Run('C04'); run.build(); B.check_layout(run.prog)
run.executor(zobrist='uf')
sh = [s for s in B.move_shapes() if B.shape_name(s)==sys.argv[1]][0]
t0=time.time()
sub = run.sub()
c04.worker(sub, sh)
print(time.time()-t0, len(sub.queries), [q for q in sub.queries if q['verdict']!='unsat'][:5], sub.inconclusive, sub.violations)
import collections
print(sorted(((q['seconds'],q['id']) for q in sub.queries))[-5:])
