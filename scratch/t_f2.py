import sys, time
sys.path.insert(0,'/verif')
import z3
from mirsym.harness import Run
from mirsym.executor import State
from mirsym.values import *
from props import boardsym as B
run = Run('T'); run.build()
S = B.SymBoard('S', B.WHITE)
ex = run.executor(zobrist='uf')
st = State(); bp = ex.alloc(st, S.value())
v0, st = ex.call('<board::zkey::ZKey as std::convert::From<&board::Board>>::from', [bp], ['&board::Board'], 'board::zkey::ZKey', st, 'h')
f0=v0[0]
sm = xor_summands(f0)
print(len(sm))
for x in sm[:2]+sm[-7:]: print(str(x)[:300].replace('\n',' '))
