import sys, time
sys.path.insert(0,'/verif')
import z3
from mirsym.harness import Run
from mirsym.values import *
from props import searchfull as SF, absgame as A, boardsym as B
run = Run('C09'); run.build(); B.check_layout(run.prog)
A.INT_MODE[0]=True
G = A.Game(2, 1, ext_plies=(1,), qplies=1)
for n in G.nodes: n['repeated']=False; n['fifty']=False
env={'cache':False}
t=time.time()
lim = SF.limits_value({'depth': CI(1,8)})
ex, r, sp = SF.run(run, G, env, CI(1,8), lim)
print('exec', round(time.time()-t,1), ex.stats, 'obligations', len(ex.obligations))
print('events', [(e[0], str(getattr(e[2],'what',e[2]))[:30]) for e in env['events']], 'info', [(str(i['depth'])) for i in env['info_lines']])
root_has_legal = z3.Or(*[m['legal'] for m in G.nodes[0]['moves']])
bad = run.check_obligations(ex, 'x', pre=ex.pre+[root_has_legal], kinds=('panic',))
for ob,q in bad: print('PANIC', ob.where[-60:], ob.msg[:80])
print([ (q['id'],q['verdict'],q['seconds']) for q in run.queries][:12])
