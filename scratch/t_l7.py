import sys, time, traceback
sys.path.insert(0,'/verif')
from mirsym.harness import Run
from props import c01, boardsym as B
run = Run('C01'); run.build(); B.check_layout(run.prog)
sub=run.sub()
try:
    c01.lemma_L7(sub)
except Exception:
    traceback.print_exc()
print([(q['id'],q['verdict'],q['seconds']) for q in sub.queries], sub.inconclusive[:3], [v['what'][:900] for v in sub.violations][:3])
