import sys, time
sys.path.insert(0,'/verif')
from mirsym.harness import Run
from props import legalreplay as LR
run = Run('C01'); run.build()
g=LR.generated(); print(len(g), g[:3])
t=time.time(); print(LR.battery(run), round(time.time()-t,1))
