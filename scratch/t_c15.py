import sys, traceback
sys.path.insert(0,'/verif')
from mirsym.harness import Run
from props import c15
run = Run('C15'); run.build()
sub=run.sub()
try:
    c15.part_a(sub, 8)
except Exception:
    traceback.print_exc()
print(sub.inconclusive[:3], [v['what'][:200] for v in sub.violations][:3])
