import sys, time
sys.path.insert(0,'/verif')
from mirsym.harness import Run
from props import c15
run = Run('C15'); run.build()
n=int(sys.argv[1])
sub=run.sub()
t=time.time()
import cProfile, pstats
if len(sys.argv)>2:
    cProfile.run('c15.part_a(sub,n)','/tmp/prof.out'); pstats.Stats('/tmp/prof.out').sort_stats('cumtime').print_stats(25)
else:
    c15.part_a(sub, n)
print(n, time.time()-t, len(sub.queries), sub.exec_stats, sub.inconclusive[:3])
