import sys, time
sys.path.insert(0,'/verif')
from mirsym.harness import Run
from props import searchreplay as SR
run = Run('C12'); run.build()
print(SR.have(run))
t=time.time(); print('mates:', SR.mates_battery(run), round(time.time()-t,1))
t=time.time(); print('det:', SR.det_battery(run), round(time.time()-t,1))
