import sys, time, threading, os, cProfile, pstats
sys.path.insert(0,'/verif')
from mirsym.harness import Run
from props import c01, boardsym as B
run = Run('C01'); run.build(); B.check_layout(run.prog)
sub=run.sub()
pr=cProfile.Profile()
def killer():
    time.sleep(int(sys.argv[3])); pr.disable(); pstats.Stats(pr).sort_stats('tottime').sort_stats("cumtime").print_stats("verif", 30); os._exit(0)
threading.Thread(target=killer,daemon=True).start()
pr.enable()
c01.worker(sub,(sys.argv[1],eval(sys.argv[2])))
pr.disable(); pstats.Stats(pr).sort_stats('tottime').sort_stats("cumtime").print_stats("verif", 30)
