import sys, time, traceback
sys.path.insert(0,'/verif')
from mirsym.harness import Run
from props import c09, boardsym as B
run = Run('C09'); run.build(); B.check_layout(run.prog)
sub=run.sub()
try:
    c09.lemma_limits(sub)
except Exception:
    traceback.print_exc()
print([(q['id'],q['verdict'],q['seconds']) for q in sub.queries], sub.inconclusive[:3], [v['what'][:300] for v in sub.violations][:3])
