import sys, time; sys.path.insert(0,'/verif')
from mirsym import native
h,t=native.build_helper()
print(h,t)
S='rnbqkbnr/pppppppp/8/8/8/8/PPPPPPPP/RNBQKBNR w KQkq - 0 1'.split()
print(native.run_helper(h,['search','have'])[1])
for d in (1,2,3):
    t0=time.time(); o=native.run_helper(h,['search','cmp',str(d)]+S)[1]; print(o.strip().splitlines()[-1], round(time.time()-t0,2))
print(native.run_helper(h,['search','mates','3,4','6k1/5ppp/8/8/8/8/8/R3K3','w','-','-','0','1'])[1].strip().splitlines()[-1])
print(native.run_helper(h,['search','playout','7','40']+S)[1].strip().splitlines()[-1])
