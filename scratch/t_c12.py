import sys, time, traceback
sys.path.insert(0,'/verif')
from mirsym.harness import Run
from props import c12, boardsym as B
run = Run('C12'); run.build(); B.check_layout(run.prog)
sub=run.sub()
t=time.time()
try:
    c12.worker(sub, eval(sys.argv[1]))
except Exception:
    traceback.print_exc()
print(round(time.time()-t,1), [(q['id'],q['verdict'],q['seconds']) for q in sub.queries][:14], sub.inconclusive[:3], [v['what'][:400] for v in sub.violations][:3])
for q in sub.queries:
    if q['verdict']=='sat': print(q.get('model','')[:1500] if isinstance(q.get('model'),str) else '')
