import sys, time, threading, os
sys.path.insert(0,'/verif')
import cProfile, pstats
from mirsym.harness import Run
from props import c15
run = Run('C15'); run.build()
sub=run.sub()
pr=cProfile.Profile()
def killer():
    time.sleep(45); pr.disable(); pstats.Stats(pr).sort_stats('tottime').print_stats(18); os._exit(0)
threading.Thread(target=killer,daemon=True).start()
pr.enable()
c15.part_a(sub, 3)
pr.disable(); pstats.Stats(pr).sort_stats('tottime').print_stats(18)
