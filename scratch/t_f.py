import sys, time
sys.path.insert(0,'/verif')
import z3
from mirsym.harness import Run
from mirsym.executor import State
from mirsym.values import *
from props import boardsym as B

run = Run('T'); run.build()
sh = dict(color=B.WHITE, piece=B.KNIGHT, captured=B.ROOK, name='knight')
if len(sys.argv)>1 and sys.argv[1]=='ep':
    sh = dict(color=B.BLACK, piece=B.PAWN, captured=B.PAWN, en_passant=True, name='pawn-ep')
if len(sys.argv)>1 and sys.argv[1]=='castle':
    sh = dict(color=B.BLACK, piece=B.KING, captured=None, castles=True, name='king-castles')
S = B.SymBoard('S', sh['color'])
m = B.shape_ply(sh)
ex = run.executor(zobrist=('concrete' if 'conc' in sys.argv else 'uf'))
pre = S.inv() + B.cons(S, m)
for c in pre: ex.assume(c)
st = State()
bp = ex.alloc(st, S.value())
t0=time.time()
def F(st):
    r = ex.call('<board::zkey::ZKey as std::convert::From<&board::Board>>::from', [bp], ['&board::Board'], 'board::zkey::ZKey', st, 'h')
    return r
v0, st = F(st)
print('F(S)', time.time()-t0, ex.stats)
f0 = v0[0]
r = ex.call('board::Board::make_move', [bp, m.value()], ['&mut board::Board','board::ply::Ply'], '()', st, 'h')
_, st1 = r
b1 = ex.load(st1, bp.root, ())
v1, st1 = F(st1)
print('F(S1)', time.time()-t0, ex.stats)
f1 = v1[0]
k1 = B.board_parts(b1)['zkey']
t0=time.time()
q = run.decide('c04', pre+[zb(st1.guard), S.zkey == f0, k1 != f1], kind=('bv' if 'conc' in sys.argv else 'smt'), timeout=300)
print('c04', q.verdict, round(q.seconds,2))
