import sys, time, json
sys.path.insert(0,'/verif')
from mirsym.harness import Run
from props import c13, boardsym as B
run = Run('C13'); run.build(); B.check_layout(run.prog)
sub=run.sub()
t=time.time()
c13.step(sub, eval(sys.argv[1]))
print(round(time.time()-t,1), [(q['id'],q['verdict'],q['seconds']) for q in sub.queries][:12], sub.inconclusive[:3], sub.exec_stats)
for v in sub.violations[:2]: print(v['what'][:600])
