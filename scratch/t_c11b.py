import sys, time
sys.path.insert(0,'/verif')
import z3
from mirsym.harness import Run
from mirsym.values import *
from props import c11, absgame as A, boardsym as B
run = Run('C11'); run.build(); B.check_layout(run.prog)
shp=eval(sys.argv[1])
G = A.Game(shp['B'], shp['d'], shp['ext'], shp['q'])
for n in G.nodes:
    if '--nodraw' in sys.argv: n['repeated']=False; n['fifty']=False
env={'cache':False}
t=time.time()
ex, r, sp = c11.run_search(run, G, env, shp['d'])
print('exec', round(time.time()-t,1), ex.stats)
_, st = r
S = ex.load(st, sp.root, ())
info=S[4]; bs=info[1]
def dagsize(t):
    if not hasattr(t,'get_id'): return 0
    seen=set(); stk=[t]
    while stk:
        x=stk.pop()
        if x.get_id() in seen: continue
        seen.add(x.get_id())
        for k in range(x.num_args()): stk.append(x.arg(k))
    return len(seen)
val=bs.pay[1][0]; print('best_score dag', dagsize(val), 'guard dag', dagsize(zb(st.guard)))
ref, vals = A.ref_root(G, shp['d'])
print('ref dag', dagsize(ref))
root_has_legal = z3.Or(*[m['legal'] for m in G.nodes[0]['moves']])
for kind in ('smt',):
    t=time.time()
    from mirsym import solve
    q=solve.Query('x', ex.pre+[root_has_legal, zb(st.guard), val != ref], kind)
    solve.decide(q, 120)
    print(kind, q.verdict, round(time.time()-t,1))
    if q.verdict!='unknown': break
