import sys, time, threading, os, cProfile, pstats
sys.path.insert(0,'/verif')
from mirsym.harness import Run
from props import c11, boardsym as B
run = Run('C11'); run.build(); B.check_layout(run.prog)
sub=run.sub()
pr=cProfile.Profile()
def killer():
    time.sleep(int(sys.argv[2])); pr.disable(); pstats.Stats(pr).sort_stats('cumtime').print_stats('verif|z3core.py:3493|solver', 28); os._exit(0)
threading.Thread(target=killer,daemon=True).start()
pr.enable()
c11.worker(sub, eval(sys.argv[1]))
pr.disable(); pstats.Stats(pr).sort_stats('cumtime').print_stats('verif', 28)
