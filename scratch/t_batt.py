import sys, time
sys.path.insert(0,'/verif')
from mirsym.harness import Run
from props import c08
run = Run('C08'); run.build()
t=time.time()
b,_=c08.session_battery(run)
print(len(b), 'sessions')
r=c08.replay_session(run,'TEST')
print(r, round(time.time()-t,1), [v['what'][:400] for v in run.violations])
