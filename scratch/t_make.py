import sys, time
sys.path.insert(0,'/verif')
import z3
from mirsym.harness import Run
from mirsym.executor import State
from mirsym.values import *
from props import boardsym as B

run = Run('T'); run.build()
assert B.check_layout(run.prog)
sh = dict(color=B.WHITE, piece=B.KNIGHT, captured=B.ROOK, name='knight')
S = B.SymBoard('S', sh['color'])
m = B.shape_ply(sh)
ex = run.executor(zobrist='uf')
pre = S.inv() + B.cons(S, m)
for c in pre: ex.assume(c)
st = State()
bp = ex.alloc(st, S.value())
t0=time.time()
ex.trace = '-v' in sys.argv
r = ex.call('board::Board::make_move', [bp, m.value()], ['&mut board::Board','board::ply::Ply'], '()', st, 'h')
print('make', time.time()-t0, ex.stats, len(ex.obligations))
_, st1 = r
b1 = ex.load(st1, bp.root, ())
r = ex.call('board::Board::unmake_move', [bp], ['&mut board::Board'], '()', st1, 'h')
print('unmake', time.time()-t0, ex.stats, len(ex.obligations))
_, st2 = r
b2 = ex.load(st2, bp.root, ())
P0 = B.board_parts(S.value()); P2 = B.board_parts(b2)
for k in B.BB_FIELDS+['turn','fullmove','ep_some','zkey']:
    q = run.decide(k, pre+[zb(st2.guard), P0[k] != P2[k]])
    print(k, q.verdict, round(q.seconds,2))
q = run.decide('ph', pre+[zb(st2.guard), P0['ph'] != P2['ph']], kind='smt')
print('ph', q.verdict, round(q.seconds,2))
if q.verdict=='sat':
    print('zk in ph:', q.model.eval(z3.Select(S.ph, S.zkey)))
q = run.decide('ph-excl', pre+[zb(st2.guard), z3.Not(z3.Select(S.ph,S.zkey)), P0['ph'] != P2['ph']], kind='smt')
print('ph excl', q.verdict, round(q.seconds,2))
print(P2['history'])
bad = run.check_obligations(ex,'ob')
print('obligations', len(ex.obligations), 'bad', bad)
