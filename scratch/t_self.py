import sys
sys.path.insert(0,'/verif')
from mirsym.harness import Run
from props import concrete as C, boardstep as BS
run = Run('T'); run.build()
C.selftest_make_unmake(run, 2, 2)
print(run.selftest)
