import sys, time, threading, os
sys.path.insert(0,'/verif')
import z3
from mirsym.harness import Run
from mirsym import executor as X
from props import c15
run = Run('C15'); run.build()
sub=run.sub()
def dagsize(t):
    seen=set(); st=[t]
    while st:
        x=st.pop()
        if x.get_id() in seen: continue
        seen.add(x.get_id())
        for k in range(x.num_args()): st.append(x.arg(k))
    return len(seen)
orig = z3.simplify
cnt=[0]
def mysimp(t,*a,**k):
    cnt[0]+=1
    t0=time.time(); r=orig(t,*a,**k); dt=time.time()-t0
    if dt>0.02: print('simplify', cnt[0], round(dt,3), 'in', dagsize(t), 'out', dagsize(r), str(t.decl())[:20]); sys.stdout.flush()
    return r
z3.simplify=mysimp
def killer():
    time.sleep(40); os._exit(0)
threading.Thread(target=killer,daemon=True).start()
c15.part_a(sub, 3)
