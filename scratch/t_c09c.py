import sys, time, traceback
sys.path.insert(0,'/verif')
from mirsym.harness import Run
from props import c09, boardsym as B
run = Run('C09'); run.build(); B.check_layout(run.prog)
sub=run.sub()
t=time.time()
try:
    c09.worker(sub, eval(sys.argv[1]))
except Exception:
    traceback.print_exc()
print(round(time.time()-t,1), [(q['id'],q['verdict'],q['seconds']) for q in sub.queries][:14], sub.inconclusive[:3], sub.known, [v['what'][:300] for v in sub.violations][:3])
