import sys, time, threading, os
sys.path.insert(0,'/verif')
import z3
from mirsym.harness import Run
from mirsym import executor as X
from props import c15
run = Run('C15'); run.build()
sub=run.sub()
def killer():
    time.sleep(25); os._exit(0)
threading.Thread(target=killer,daemon=True).start()
orig_call = X.Executor.call
t0=time.time()
def call(self, callee, *a, **k):
    r = orig_call(self, callee, *a, **k)
    if not callee.startswith(('core','std','<')):
        print(round(time.time()-t0,2), '  '*self.call_depth, callee[:100]); sys.stdout.flush()
    return r
X.Executor.call = call
orig_rb = X.Executor.run_body
c15.part_a(sub, int(sys.argv[1]))
print('done', time.time()-t0)
