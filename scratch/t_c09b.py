import sys, time, threading, os, cProfile, pstats
sys.path.insert(0,'/verif')
from mirsym.harness import Run
from props import c09, boardsym as B
run = Run('C09'); run.build(); B.check_layout(run.prog)
sub=run.sub()
cfg=sys.argv[1]
pr=cProfile.Profile()
def killer():
    time.sleep(int(sys.argv[2])); pr.disable(); pstats.Stats(pr).sort_stats('cumtime').print_stats('verif|z3core.py:3493|z3core.py:4456|solver', 22); os._exit(0)
threading.Thread(target=killer,daemon=True).start()
pr.enable()
t=time.time()
c09.worker(sub, cfg)
pr.disable()
print('DONE', round(time.time()-t,1), [(q['id'],q['verdict'],q['seconds']) for q in sub.queries][:10], sub.inconclusive[:2], sub.known, [v['what'][:200] for v in sub.violations][:3])
