"""Symbolic executor for the MIR subset (see mirparse.py) producing z3 terms.

Control flow: guarded execution with merging at immediate post-dominators; loops
unroll through the recursion on the loop header's branch and are bounded by
`loop_bound` (an exceeded bound becomes an `unwind` obligation, never a silent cut).
Panics (assert terminators, diverging calls, model-reported failures) become
`panic` obligations: (path guard) must be unsatisfiable under the harness assumptions.
"""
import re
import itertools
import z3

from .values import *
from . import mirparse

INT_TYPES = {
    'u8': (8, False), 'u16': (16, False), 'u32': (32, False), 'u64': (64, False), 'u128': (128, False),
    'usize': (64, False), 'i8': (8, True), 'i16': (16, True), 'i32': (32, True), 'i64': (64, True),
    'i128': (128, True), 'isize': (64, True), 'char': (32, False),
}

EXIT = -1


def norm_type(t):
    if t is None:
        return None
    t = re.sub(r"for<[^>]*> ", '', t)
    t = re.sub(r"'\w+ ", '', t)
    t = re.sub(r"::<'\w+>", '', t)
    t = re.sub(r"<'\w+>", '', t)
    t = re.sub(r"'\w+, ", '', t)
    return t.strip()


def deref_type(t):
    t = norm_type(t)
    for p in ('&mut ', '&', '*const ', '*mut '):
        if t.startswith(p):
            return t[len(p):].strip()
    m = re.match(r'^std::boxed::Box<(.*)>$', t)
    if m:
        return mirparse.split_top(m.group(1))[0]
    raise Unsupported('deref of type %r' % t)


def elem_type(t):
    t = norm_type(t)
    if t.startswith('['):
        inner = t[1:-1]
        k = mirparse.find_top(inner, '; ')
        return inner[:k] if k >= 0 else inner
    m = re.match(r'^std::vec::Vec<(.*)>$', t)
    if m:
        return mirparse.split_top(m.group(1))[0]
    raise Unsupported('elem of type %r' % t)


def base_path(t):
    """type or value path without generic arguments: std::option::Option<u8> -> std::option::Option"""
    t = norm_type(t)
    out, depth = [], 0
    i = 0
    while i < len(t):
        c = t[i]
        if c == '<' and not (i > 0 and t[i - 1] == '-'):
            depth += 1
        elif c == '>' and not (i > 0 and t[i - 1] == '-'):
            depth -= 1
        elif depth == 0:
            out.append(c)
        i += 1
    s = ''.join(out)
    s = re.sub(r'::(?=::)', '', s)
    s = s.replace('::::', '::')
    return s.rstrip(':')


def generic_args(t):
    t = norm_type(t)
    k = t.find('<')
    if k < 0 or not t.endswith('>'):
        return []
    return mirparse.split_top(t[k + 1:-1])


def _collect_reads(node, out):
    """locals read by a parsed statement / terminator (any ('copy'|'move', place) operand)"""
    if isinstance(node, tuple):
        if len(node) == 2 and node[0] in ('copy', 'move') and isinstance(node[1], tuple) and node[1] and node[1][0] == 'place':
            out.add(node[1][1])
            for pr in node[1][2]:
                if pr[0] == 'index':
                    out.add(pr[1])
            return
        for x in node:
            _collect_reads(x, out)
    elif isinstance(node, list):
        for x in node:
            _collect_reads(x, out)


def simp2(t):
    """z3's simplifier is not idempotent on nested if-then-else terms: run it until it stops changing (max 3x)"""
    r = z3.simplify(t)
    for _ in range(2):
        if z3.is_true(r) or z3.is_false(r):
            break
        r2 = z3.simplify(r)
        if r2.eq(r):
            break
        r = r2
    return lift(r)


class Obligation:
    """`guard` is built lazily from the state's conjunct tuple (+ an extra condition): most obligations are never
    looked at individually, and building the conjunction eagerly dominated the run time of long loops"""
    __slots__ = ('kind', '_guard', 'conj', 'extra', 'where', 'msg')

    def __init__(self, kind, guard, where, msg, conj=None, extra=True):
        self.kind, self._guard, self.where, self.msg = kind, guard, where, msg
        self.conj, self.extra = conj, extra

    @property
    def guard(self):
        if self._guard is None:
            self._guard = b_and(*([_gc_cond(x) for x in self.conj] + [self.extra]))
        return self._guard

    def __repr__(self):
        return 'Obligation(%s @%s: %s)' % (self.kind, self.where, self.msg[:80])


class GC:
    """a path-condition conjunct that came from a multi-way branch: arm `arm` of `n` of branch `uid`"""
    __slots__ = ('c', 'uid', 'arm', 'n')

    def __init__(self, c, uid, arm, n):
        self.c, self.uid, self.arm, self.n = c, uid, arm, n


def _gc_cond(x):
    return x.c if isinstance(x, GC) else x


class State:
    """store + path condition.  The path condition is a tuple of conjuncts (some tagged with the branch arm they
    came from) so that joins can drop branch conditions again when every arm arrives."""
    __slots__ = ('store', 'conj', '_g')

    def __init__(self, store=None, guard=True, conj=None):
        self.store = store if store is not None else {}
        if conj is not None:
            self.conj = conj
        else:
            self.conj = () if guard is True else (guard,)
        self._g = None

    @property
    def guard(self):
        if self._g is None:
            self._g = b_and(*[_gc_cond(x) for x in self.conj])
        return self._g

    @guard.setter
    def guard(self, value):
        self.conj = () if value is True else (value,)
        self._g = None

    def add_guard(self, cond):
        if cond is True:
            return
        self.conj = self.conj + (cond,)
        self._g = None

    def fork(self, cond):
        if cond is True:
            return State(dict(self.store), conj=self.conj)
        return State(dict(self.store), conj=self.conj + (cond,))


def _suffix_cond(sf):
    return b_and(*[_gc_cond(x) for x in sf])


def _reduce_suffixes(sufs):
    """sufs: list of conjunct tuples (relative to a common prefix) of mutually exclusive arrivals.
    Repeatedly replace complete sets of sibling arms (same branch uid, all n arms, identical heads) by their head.
    Returns a disjunction (z3 Bool / python bool) equivalent to OR_i AND(suf_i)."""
    sufs = [tuple(s) for s in sufs]
    changed = True
    while changed:
        changed = False
        groups = {}
        for s in sufs:
            if s and isinstance(s[-1], GC):
                groups.setdefault((s[-1].uid, tuple(id(x) for x in s[:-1])), []).append(s)
        for (uid, _), members in groups.items():
            n = members[0][-1].n
            if len(members) == n and len(set(m[-1].arm for m in members)) == n:
                head = members[0][:-1]
                sufs = [s for s in sufs if not any(s is m for m in members)] + [head]
                changed = True
                break
    if any(len(s) == 0 for s in sufs):
        return True
    return b_or(*[_suffix_cond(s) for s in sufs])


CURRENT_EX = [None]      # the executor whose static defaults fill in for states that have not touched a static yet


def _static_default(key):
    """a static that one path has written and another has not touched still holds its initial value on the latter
    (locals that are missing on one side are dead there; statics are not)"""
    if key[0] == 'S' and CURRENT_EX[0] is not None:
        return CURRENT_EX[0].static_values.get(key[1])
    return None


def merge_arrivals(states):
    """merge states that reach the same unrolled node on mutually exclusive paths"""
    if len(states) == 1:
        return states[0]
    n = min(len(s.conj) for s in states)
    k = 0
    first = states[0].conj
    while k < n and all(s.conj[k] is first[k] for s in states[1:]):
        k += 1
    prefix = first[:k]
    sufs = [s.conj[k:] for s in states]
    conds = [_suffix_cond(sf) for sf in sufs]
    res = states[-1]
    store = dict(res.store)
    for c, s in zip(reversed(conds[:-1]), reversed(states[:-1])):
        for key in set(store) | set(s.store):
            a = s.store.get(key)
            b = store.get(key)
            if a is b:
                continue
            if a is None or b is None:
                d_ = _static_default(key)
                if d_ is not None:
                    a = d_ if a is None else a
                    b = d_ if b is None else b
            try:
                store[key] = ite(c, a, b)
            except Unsupported as e:
                # usually a dead temporary (iterator, closure, ...): poison it; a later use is then reported
                store[key] = Poison('merging %r: %s' % (key, e))
    disj = _reduce_suffixes(sufs)
    return State(store, conj=prefix + ((disj,) if disj is not True else ()))


def merge_states(parts, base_conj=None, exhaustive=False):
    """parts: [(cond, State)] with mutually exclusive conds (used by the closure-call helper of the models)."""
    parts = [(c, s) for c, s in parts if s is not None]
    if not parts:
        return None
    if len(parts) == 1:
        return parts[0][1]
    res = parts[-1][1]
    store = dict(res.store)
    for c, s in reversed(parts[:-1]):
        for k in set(store) | set(s.store):
            a = s.store.get(k)
            b = store.get(k)
            if a is b:
                continue
            if a is None or b is None:
                d_ = _static_default(k)
                if d_ is not None:
                    a = d_ if a is None else a
                    b = d_ if b is None else b
            try:
                store[k] = ite(c, a, b)
            except Unsupported as e:
                raise Unsupported('merging %r: %s' % (k, e))
    if base_conj is not None:
        n = len(base_conj)
        ok = all(len(s.conj) >= n and all(x is y for x, y in zip(s.conj[:n], base_conj)) for _, s in parts)
        if ok:
            sufs = [s.conj[n:] for _, s in parts]
            if exhaustive and all(len(sf) == 1 and (_gc_cond(sf[0]) is c) for sf, (c, _) in zip(sufs, parts)):
                return State(store, conj=base_conj)
            disj = b_or(*[_suffix_cond(sf) for sf in sufs])
            return State(store, conj=base_conj + ((disj,) if disj is not True else ()))
    guard = b_or(*[s.guard for _, s in parts])
    return State(store, guard)


class Frame:
    __slots__ = ('item', 'fid', 'visits')

    def __init__(self, item, fid):
        self.item, self.fid = item, fid
        self.visits = {}


class Program:
    """Parsed MIR + ADT tables + name resolution indexes."""

    def __init__(self, mir_text, enums, structs):
        from .rustsrc import STD_ENUMS
        self.items = mirparse.parse_mir(mir_text)
        self._mir_lines = mir_text.split('\n')
        self.allocs = {}
        for m in re.finditer(r'^(alloc\d+) \(static: ([^,]+),', mir_text, re.M):
            self.allocs[m.group(1)] = m.group(2)
        self.enums = dict(STD_ENUMS)
        self.enums['core::option::Option'] = STD_ENUMS['std::option::Option']
        self.enums['core::result::Result'] = STD_ENUMS['std::result::Result']
        self.enums.update(enums)
        self.structs = structs
        self.by_last = {}
        self.closures = {}
        self.promoted = {}
        for name, it in self.items.items():
            if it.kind == 'fn':
                last = self.last_segment(name)
                self.by_last.setdefault(last, []).append(it)
                m = re.search(r'\{closure#\d+\}$', name)
                if m and it.args:
                    t = norm_type(it.locals[it.args[0]])
                    mm = re.search(r'(\{closure@[^}]*\})', t)
                    if mm:
                        self.closures[mm.group(1)] = it
            elif it.kind == 'promoted':
                self.promoted[name] = it
        self._pdom = {}
        self._impl_self = {}
        self.src_root = None

    def impl_self_type(self, item_name):
        """last path segment of the Self type of the impl block an item belongs to, read from the source
        line the MIR name points at (`<impl at src/x.rs:L:C: L:C>`); None for derives / free functions"""
        m = re.search(r'<impl at ([^:>]+):(\d+):(\d+): (\d+):(\d+)>', item_name)
        if not m:
            return None
        key = (m.group(1), int(m.group(2)), int(m.group(3)))
        if key in self._impl_self:
            return self._impl_self[key]
        res = None
        try:
            import os
            root = self.src_root or '/repo'
            lines = open(os.path.join(root, m.group(1))).read().split('\n')
            l1, c1, l2, c2 = int(m.group(2)), int(m.group(3)), int(m.group(4)), int(m.group(5))
            if l1 == l2:
                text = lines[l1 - 1][c1 - 1:c2 - 1]
            else:
                text = ' '.join([lines[l1 - 1][c1 - 1:]] + lines[l1:l2 - 1] + [lines[l2 - 1][:c2 - 1]])
            mm = re.match(r'^impl(?:<[^>]*>)?\s+(?:(.+?)\s+for\s+)?(.+?)\s*$', text.strip())
            if mm:
                ty = mm.group(2).strip()
                ty = re.sub(r'<.*>$', '', ty)
                res = ty.split('::')[-1].lstrip('&').strip()
        except Exception:
            res = None
        self._impl_self[key] = res
        return res

    def debug_names(self, item):
        """{source variable name: MIR local} from the `debug x => _N;` lines of an item"""
        out = {}
        i = item.line
        # item.line is the 0- or 1-based line of the header; scan forward to the first basic block
        for j in range(max(i - 1, 0), min(i + 2000, len(self._mir_lines))):
            ln = self._mir_lines[j].strip()
            if re.match(r'^bb\d+', ln):
                break
            m = re.match(r'^debug (\w+) => _(\d+);$', ln)
            if m:
                out.setdefault(m.group(1), int(m.group(2)))
        return out

    def impl_trait_args(self, item_name):
        """generic arguments of the trait an impl block implements, as written (`impl From<u8> for Square` -> 'u8'); None if
        there are none / unknown / macro metavariables"""
        m = re.search(r'<impl at ([^:>]+):(\d+):(\d+): (\d+):(\d+)>', item_name)
        if not m:
            return None
        try:
            import os
            root = self.src_root or '/repo'
            lines = open(os.path.join(root, m.group(1))).read().split('\n')
            l1, c1, l2, c2 = int(m.group(2)), int(m.group(3)), int(m.group(4)), int(m.group(5))
            text = lines[l1 - 1][c1 - 1:c2 - 1] if l1 == l2 else ' '.join([lines[l1 - 1][c1 - 1:]] + lines[l1:l2 - 1] + [lines[l2 - 1][:c2 - 1]])
            mm = re.match(r'^impl(?:<[^>]*>)?\s+(.+?)\s+for\s+(.+?)\s*$', text.strip())
            if mm:
                tr = mm.group(1).strip()
                g = re.search(r'<(.*)>$', tr)
                if g and '$' not in g.group(1):
                    return g.group(1).replace(' ', '')
        except Exception:
            pass
        return None

    def impl_trait(self, item_name):
        """last path segment of the trait an impl block implements (`impl fmt::Display for X` -> Display; a derive's span
        is the derive name itself); None for inherent impls / unknown"""
        m = re.search(r'<impl at ([^:>]+):(\d+):(\d+): (\d+):(\d+)>', item_name)
        if not m:
            return None
        try:
            import os
            root = self.src_root or '/repo'
            lines = open(os.path.join(root, m.group(1))).read().split('\n')
            l1, c1, l2, c2 = int(m.group(2)), int(m.group(3)), int(m.group(4)), int(m.group(5))
            if l1 == l2:
                text = lines[l1 - 1][c1 - 1:c2 - 1]
            else:
                text = ' '.join([lines[l1 - 1][c1 - 1:]] + lines[l1:l2 - 1] + [lines[l2 - 1][:c2 - 1]])
            text = text.strip()
            if re.fullmatch(r'\w+', text):
                return text
            mm = re.match(r'^impl(?:<[^>]*>)?\s+(.+?)\s+for\s+(.+?)\s*$', text)
            if mm:
                tr = re.sub(r'<.*>$', '', mm.group(1).strip()).split('::')[-1]
                if re.fullmatch(r'\w+', tr):       # not a macro metavariable (`impl $trait<$type> for X`)
                    return tr
        except Exception:
            pass
        return None

    @staticmethod
    def last_segment(name):
        parts = mirparse.split_top(name, '::')
        return parts[-1]

    # ---- ADT helpers
    def enum_of_type(self, t):
        p = base_path(t)
        return self.enums.get(p), p

    def variant_index(self, enum_path, vname):
        vs = self.enums[enum_path]
        for i, v in enumerate(vs):
            if v[0] == vname:
                return i
        raise Unsupported('variant %s of %s' % (vname, enum_path))

    def split_variant_path(self, name):
        """'std::option::Option::<u8>::Some' -> (enum_path, variant) or None"""
        p = base_path(name)
        parts = p.split('::')
        if len(parts) >= 2:
            ep = '::'.join(parts[:-1])
            if ep in self.enums:
                return ep, parts[-1]
        return None

    def field_index(self, struct_path, fname):
        return self.structs[struct_path].index(fname)

    # ---- control-flow graph facts for the worklist executor
    def cfg(self, item):
        key = ('cfg', item.name)
        if key in self._pdom:
            return self._pdom[key]
        succ = {}
        for b, (sts, term) in item.blocks.items():
            k = term[0]
            if k == 'goto':
                sx = [term[1]]
            elif k == 'switch':
                sx = [t for _, t in term[2]] + ([term[3]] if term[3] is not None else [])
            elif k == 'call':
                sx = [term[4]] if term[4] is not None else []
            elif k == 'assert':
                sx = [term[4]]
            elif k == 'drop':
                sx = [term[2]] if term[2] is not None else []
            else:
                sx = []
            succ[b] = [x for x in sx if x in item.blocks]
        # iterative DFS: post-order + back edges
        post, back = [], []
        color = {}
        stack = [(0, iter(succ.get(0, [])))]
        color[0] = 1
        while stack:
            u, itr = stack[-1]
            adv = False
            for v in itr:
                if color.get(v, 0) == 0:
                    color[v] = 1
                    stack.append((v, iter(succ.get(v, []))))
                    adv = True
                    break
                elif color[v] == 1:
                    back.append((u, v))
            if not adv:
                color[u] = 2
                post.append(u)
                stack.pop()
        rpo = {b: i for i, b in enumerate(reversed(post))}
        pred = {}
        for u, vs in succ.items():
            if u not in rpo:
                continue
            for v in vs:
                pred.setdefault(v, []).append(u)
        body = {}
        for u, h in back:
            bset = body.setdefault(h, {h})
            work = [u]
            while work:
                x = work.pop()
                if x in bset:
                    continue
                bset.add(x)
                work.extend(pred.get(x, []))
        chain = {}
        for b in rpo:
            hs = [h for h in body if b in body[h]]
            hs.sort(key=lambda h: -len(body[h]))
            chain[b] = hs
        # loop-carried integer locals: read in the header block and written somewhere in the loop body
        carried = {}
        for h, bset in body.items():
            reads = set()
            sts, term = item.blocks[h]
            for st_ in sts:
                _collect_reads(st_, reads)
            _collect_reads(term, reads)
            writes = set()
            for b in bset:
                bs, bt = item.blocks[b]
                for st_ in bs:
                    if st_[0] == 'assign' and not st_[1][2]:
                        writes.add(st_[1][1])
                if bt[0] == 'call' and bt[1] is not None and not bt[1][2]:
                    writes.add(bt[1][1])
            c = sorted(l for l in reads & writes if norm_type(item.locals.get(l, '')) in INT_TYPES)
            if c:
                carried[h] = c
        res = {'rpo': rpo, 'body': body, 'chain': chain, 'succ': succ, 'carried': carried}
        self._pdom[key] = res
        return res

    # ---- post-dominators
    def ipdom(self, item):
        key = item.name
        if key in self._pdom:
            return self._pdom[key]
        succ = {}
        for b, (sts, term) in item.blocks.items():
            k = term[0]
            if k == 'goto':
                s = [term[1]]
            elif k == 'switch':
                s = [t for _, t in term[2]] + ([term[3]] if term[3] is not None else [])
            elif k == 'return':
                s = [EXIT]
            elif k == 'call':
                s = [term[4]] if term[4] is not None else []
            elif k == 'assert':
                s = [term[4]]
            elif k == 'drop':
                s = [term[2]] if term[2] is not None else []
            else:
                s = []
            succ[b] = s
        succ[EXIT] = []
        # nodes that can reach EXIT
        pred = {b: [] for b in succ}
        for b, ss in succ.items():
            for s in ss:
                pred.setdefault(s, []).append(b)
        reach = {EXIT}
        stack = [EXIT]
        while stack:
            x = stack.pop()
            for p in pred.get(x, []):
                if p not in reach:
                    reach.add(p)
                    stack.append(p)
        nodes = [b for b in succ if b in reach]
        # iterative post-dominator sets
        full = set(nodes)
        pd = {b: set(full) for b in nodes}
        pd[EXIT] = {EXIT}
        changed = True
        while changed:
            changed = False
            for b in nodes:
                if b == EXIT:
                    continue
                ss = [s for s in succ[b] if s in reach]
                new = set(full)
                for s in ss:
                    new &= pd[s]
                new = new | {b}
                if new != pd[b]:
                    pd[b] = new
                    changed = True
        ip = {}
        for b in nodes:
            if b == EXIT:
                continue
            cands = pd[b] - {b}
            # immediate: the candidate that is post-dominated by all other candidates
            best = None
            for c in cands:
                if all(o in pd[c] for o in cands):
                    best = c
                    break
            ip[b] = best
        self._pdom[key] = (ip, reach)
        return ip, reach


class Executor:
    def __init__(self, prog):
        self.prog = prog
        self.models = []      # [(compiled_regex, fn)]
        self.overrides = {}   # exact callee text -> fn
        self.obligations = []
        self.pre = []         # harness assumptions (z3 Bools)
        self.fid_counter = itertools.count(1)
        self.branch_counter = itertools.count(1)
        self.heap_counter = itertools.count(1)
        self.loop_bound = 70
        self.functions_run = {}
        self.stats = {'calls': 0, 'forks': 0, 'merges': 0, 'pruned': 0}
        self.prune_solver = None
        self.prune_mode = 'all'      # 'all': every symbolic branch arm; 'forks': only model-requested path splits
        self.int_types = set()       # MIR integer types whose values are kept as exact z3 Ints (integer mode)
        self.static_values = {}     # static name -> value (tables)
        CURRENT_EX[0] = self
        self.call_depth = 0
        self.max_call_depth = 400
        self.trace = False
        self.post_hooks = []      # [(compiled regex, fn(ctx, value) -> value | Fork)]
        self.nomerge = []         # [compiled regex]: callees executed path by path (no merging); each path returns separately
        self.exit_split = None    # fn(state) -> hashable key: states reaching a function's exit with different keys are
        #                           returned as separate paths instead of being merged
        from . import models
        models.install(self)

    # ------------------------------------------------------------ registration
    def model(self, pattern, fn):
        self.models.insert(0, (re.compile(pattern), fn))

    def override(self, callee, fn):
        self.overrides[callee] = fn

    def no_merge(self, pattern):
        self.nomerge.append(re.compile(pattern))

    def post_hook(self, pattern, fn):
        self.post_hooks.append((re.compile(pattern), fn))

    def assume(self, cond):
        if cond is True:
            return
        self.pre.append(zb(cond))
        if self.prune_solver is not None:
            self.prune_solver.add(zb(cond))

    def enable_pruning(self, timeout_ms=300):
        self.prune_solver = z3.Solver()
        self.prune_solver.set('timeout', timeout_ms)
        for p in self.pre:
            self.prune_solver.add(p)

    def feasible(self, guard):
        if guard is False:
            return False
        if guard is True or self.prune_solver is None:
            return True
        r = self.prune_solver.check(zb(guard))
        if r == z3.unsat:
            self.stats['pruned'] += 1
            return False
        return True

    def oblige(self, kind, guard, where, msg):
        if guard is False:
            return
        self.obligations.append(Obligation(kind, guard, where, msg))

    def oblige_state(self, kind, st, extra, where, msg):
        if extra is False:
            return
        self.obligations.append(Obligation(kind, None, where, msg, conj=st.conj, extra=extra))

    # ------------------------------------------------------------ heap cells
    def alloc(self, st, value):
        root = ('H', next(self.heap_counter))
        st.store[root] = value
        return Ptr(root)

    # ------------------------------------------------------------ types
    def local_type(self, fr, n):
        return fr.item.locals[n]

    def place_type(self, fr, place):
        t = self.local_type(fr, place[1])
        for pr in place[2]:
            k = pr[0]
            if k == 'deref':
                t = deref_type(t)
            elif k == 'field':
                t = pr[2]
            elif k in ('index', 'cindex'):
                t = elem_type(t)
            elif k == 'downcast':
                pass
            elif k == 'subslice':
                pass
        return norm_type(t)

    def operand_type(self, fr, op):
        if op[0] in ('copy', 'move'):
            return self.place_type(fr, op[1])
        if op[2] is None and isinstance(op[1], tuple) and op[1] and op[1][0] == 'named':
            m = re.match(r'^core::num::<impl (\w+)>::(MAX|MIN|BITS)$', op[1][1])
            if m:
                return 'u32' if m.group(2) == 'BITS' else m.group(1)
            try:
                it = self.resolve_const(op[1][1])
            except Unsupported:
                it = None
            if it is not None:
                return norm_type(it.ret)
        return norm_type(op[2]) if op[2] is not None else None

    # ------------------------------------------------------------ memory
    def resolve(self, fr, place, st):
        """place -> [(guard, root, path)] following derefs"""
        cur = [(True, ('L', fr.fid, place[1]), ())]
        t = self.local_type(fr, place[1])
        for pr in place[2]:
            k = pr[0]
            if k == 'deref':
                nxt = []
                for g, root, path in cur:
                    pv = self.load(st, root, path)
                    if isinstance(pv, Ptr):
                        nxt.append((g, pv.root, pv.path) if pv.rng is None else (g, pv.root, pv.path + (('rng',) + tuple(pv.rng),)))
                    elif isinstance(pv, PtrIte):
                        for g2, p in pv.cases:
                            nxt.append((b_and(g, g2), p.root, p.path))
                    else:
                        raise Unsupported('deref of non-pointer %r (%s in %s)' % (pv, place, fr.item.name))
                cur = nxt
                t = deref_type(t)
            elif k == 'field':
                cur = [(g, r, p + (('f', pr[1]),)) for g, r, p in cur]
                t = pr[2]
            elif k == 'downcast':
                v = pr[1]
                if not isinstance(v, int):
                    _, ep = self.prog.enum_of_type(t)
                    v = self.prog.variant_index(ep, v)
                cur = [(g, r, p + (('v', v),)) for g, r, p in cur]
            elif k in ('index', 'cindex'):
                if k == 'index':
                    idx = st.store[('L', fr.fid, pr[1])]
                else:
                    idx = CI(pr[1], 64)
                nxt = []
                for g, r, p in cur:
                    if k == 'cindex' and pr[3]:
                        # `[-k of n]`: the k-th element from the end of the (sub)slice
                        if p and p[-1][0] == 'rng':
                            nxt.append((g, r, p[:-1] + (('i', self.binop('Sub', p[-1][2], CI(pr[1], 64), 'usize')),)))
                        else:
                            v_ = self.load(st, r, p)
                            n_ = len(v_) if isinstance(v_, tuple) else (len(v_.ents) if isinstance(v_, Seq) and v_.dense() else None)
                            if n_ is None:
                                raise Unsupported('from-end constant index into a sequence of unknown length')
                            nxt.append((g, r, p + (('i', CI(n_ - pr[1], 64)),)))
                        continue
                    if p and p[-1][0] == 'rng':
                        # index into a sub-slice window: add the window start
                        nxt.append((g, r, p[:-1] + (('i', self.binop('Add', idx, p[-1][1], 'usize')),)))
                    else:
                        nxt.append((g, r, p + (('i', idx),)))
                cur = nxt
                t = elem_type(t)
            else:
                raise Unsupported('projection %r' % (pr,))
        return cur

    def load(self, st, root, path):
        if root not in st.store:
            if root[0] == 'S':
                v = self.static_value(root[1], st)
            else:
                raise Unsupported('load of unset root %r' % (root,))
        else:
            v = st.store[root]
        for step in path:
            v = self.get_step(v, step)
        if isinstance(v, Poison):
            raise Unsupported('use of an unmergeable value: %s' % v.msg)
        return v

    def store_to(self, st, root, path, val, guard=True):
        if guard is not True:
            old = self.load(st, root, path)
            val = ite(guard, val, old)
        if not path:
            st.store[root] = val
            return
        base = st.store.get(root)
        if base is None and root[0] == 'S':
            base = self.static_value(root[1], st)
        st.store[root] = self.set_path(base, path, val)

    def set_path(self, base, path, val):
        if not path:
            return val
        step = path[0]
        inner = self.get_step(base, step, for_write=True)
        newinner = self.set_path(inner, path[1:], val)
        return self.set_step(base, step, newinner)

    def get_step(self, v, step, for_write=False):
        k = step[0]
        if isinstance(v, Poison):
            raise Unsupported('use of an unmergeable value: %s' % v.msg)
        if k == 'e':
            if isinstance(v, tuple):          # entry k of an array seen through a sparse view
                return v[step[1]]
            return v.ents[step[1]][1]
        if k == 'f':
            if isinstance(v, tuple):
                return v[step[1]]
            if isinstance(v, Closure):
                return v.env[step[1]]
            if v is None and for_write:
                return None
            raise Unsupported('field %d of %r' % (step[1], v))
        if k == 'v':
            if v is None and for_write:
                return None
            if not isinstance(v, Enum):
                raise Unsupported('downcast of %r' % (v,))
            return v.pay.get(step[1])
        if k == 'i':
            idx = step[1]
            if hasattr(v, 'index_step'):
                return v.index_step(idx)
            if isinstance(v, Seq) and not v.dense() and isinstance(idx, CI) and idx.v < len(v.ents) and all(g is True for g, _ in v.ents[:idx.v + 1]):
                return v.ents[idx.v][1]        # the entries up to the index are certainly present: positions coincide
            elems = self.elems_of(v)
            if isinstance(idx, CI):
                if idx.v >= len(elems):
                    raise Unsupported('concrete index %d out of range %d' % (idx.v, len(elems)))
                return elems[idx.v]
            return mux(idx, elems)
        if k == 'rng':
            return v
        raise Unsupported('step %r' % (step,))

    def set_step(self, v, step, newv):
        k = step[0]
        if k == 'e':
            if isinstance(v, tuple):
                return v[:step[1]] + (newv,) + v[step[1] + 1:]
            ents = list(v.ents)
            ents[step[1]] = (ents[step[1]][0], newv)
            return Seq(tuple(ents))
        if k == 'f':
            if isinstance(v, Closure):
                env = list(v.env)
                env[step[1]] = newv
                return Closure(v.name, tuple(env))
            if v is None:
                # partially initialised aggregate: grow as needed
                l = [None] * (step[1] + 1)
            else:
                l = list(v)
                if len(l) <= step[1]:
                    l += [None] * (step[1] + 1 - len(l))
            l[step[1]] = newv
            return tuple(l)
        if k == 'v':
            if v is None:
                return Enum(CI(step[1], 64), {step[1]: newv})
            pay = dict(v.pay)
            pay[step[1]] = newv
            return Enum(v.d, pay)
        if k == 'i':
            idx = step[1]
            if hasattr(v, 'set_index_step'):
                return v.set_index_step(idx, newv)
            elems = list(self.elems_of(v))
            if isinstance(idx, CI):
                elems[idx.v] = newv
            else:
                for j in range(len(elems)):
                    elems[j] = ite(bv(idx) == j, newv, elems[j])
            return self.with_elems(v, elems)
        if k == 'rng':
            return newv
        raise Unsupported('set step %r' % (step,))

    @staticmethod
    def elems_of(v):
        if isinstance(v, tuple):
            return v
        if isinstance(v, Seq):
            if not v.dense():
                raise Unsupported('indexing a sparse sequence')
            return [x for _, x in v.ents]
        raise Unsupported('indexing %r' % (type(v).__name__,))

    @staticmethod
    def with_elems(v, elems):
        if isinstance(v, tuple):
            return tuple(elems)
        return Seq.of(elems)

    def read_place(self, fr, place, st):
        cases = self.resolve(fr, place, st)
        if len(cases) == 1:
            return self.load(st, cases[0][1], cases[0][2])
        out = None
        for g, r, p in reversed(cases):
            v = self.load(st, r, p)
            out = v if out is None else ite(g, v, out)
        return out

    def write_place(self, fr, place, st, val):
        cases = self.resolve(fr, place, st)
        if len(cases) == 1:
            self.store_to(st, cases[0][1], cases[0][2], val)
        else:
            for g, r, p in cases:
                self.store_to(st, r, p, val, guard=g)

    def static_value(self, name, st):
        if name in self.static_values:
            v = self.static_values[name]
            st.store[('S', name)] = v
            return v
        raise Unsupported('static %s has no value (table not loaded)' % name)

    # ------------------------------------------------------------ operands / rvalues
    def eval_operand(self, fr, op, st):
        k = op[0]
        if k == 'copy':
            return self.read_place(fr, op[1], st)
        if k == 'move':
            v = self.read_place(fr, op[1], st)
            if not op[1][2] and not isinstance(v, (CI, bool)):
                # a moved-from local is uninitialised: forget it, so that dead temporaries are not merged at joins
                st.store[('L', fr.fid, op[1][1])] = None
            return v
        v, t = op[1], op[2]
        if isinstance(v, bool):
            return v
        if isinstance(v, int):
            if t in self.int_types:
                return z3.IntVal(v)
            w, _ = INT_TYPES[t]
            return CI(v, w)
        if v == ():
            return UNIT
        if isinstance(v, str):
            # bare function item
            return FnRef(v)
        tag = v[0]
        if tag == 'str':
            from .models import StrV
            return StrV.lit(v[1])
        if tag == 'bytes':
            from .models import StrV
            return StrV.lit(v[1])
        if tag == 'char':
            return CI(ord(v[1]), 32)
        if tag == 'zst':
            if v[1].startswith('{closure'):
                return Closure(norm_type(v[1]), ())
            return FnRef(v[1])
        if tag == 'alloc':
            name = self.prog.allocs.get(v[1])
            if name is None:
                raise Unsupported('unknown alloc %s' % v[1])
            return Ptr(('S', name))
        if tag == 'named':
            return self.eval_named_const(v[1], st, fr)
        raise Unsupported('const %r' % (op,))

    def eval_named_const(self, name, st, fr=None):
        # promoted
        m = re.match(r'^(.*)::promoted\[(\d+)\]$', name)
        if m:
            if fr is not None:
                direct = '%s::promoted[%s]' % (fr.item.name, m.group(2))
                if direct in self.prog.promoted:
                    return self.eval_promoted(m.group(1), int(m.group(2)), st, self.prog.promoted[direct])
            return self.eval_promoted(m.group(1), int(m.group(2)), st)
        # integer MAX/MIN etc
        m = re.match(r'^(?:core::num::<impl (\w+)>|(u8|u16|u32|u64|u128|usize|i8|i16|i32|i64|i128|isize))::(MAX|MIN|BITS)$', name)
        if m:
            m = re.match(r'^(\w+) (\w+)$', '%s %s' % (m.group(1) or m.group(2), m.group(3)))
        if m:
            w, s = INT_TYPES[m.group(1)]
            if m.group(2) == 'BITS':
                return CI(w, 32)
            if m.group(1) in self.int_types:
                if m.group(2) == 'MAX':
                    return z3.IntVal((1 << (w - 1)) - 1 if s else (1 << w) - 1)
                return z3.IntVal(-(1 << (w - 1)) if s else 0)
            if m.group(2) == 'MAX':
                return CI((1 << (w - 1)) - 1 if s else (1 << w) - 1, w)
            return CI(1 << (w - 1) if s else 0, w)
        it = self.resolve_const(name)
        if it is None:
            # enum unit variant used as a const / fn item
            sv = self.prog.split_variant_path(name)
            if sv:
                ep, vn = sv
                i = self.prog.variant_index(ep, vn)
                return Enum(CI(self.prog.enums[ep][i][1], 64), {i: ()})
            return FnRef(name)
        key = ('C', it.name)
        if key in self.static_values:
            return self.static_values[key]
        if it.const_text is not None:
            op = mirparse.parse_operand(it.const_text)
            v = self.eval_operand(None, op, st)
        else:
            tmp = State({}, True)
            v, _ = self.run_item(it, [], tmp)
        self.static_values[key] = v
        return v

    def resolve_const(self, name):
        if name in self.prog.items and self.prog.items[name].kind in ('const', 'static'):
            return self.prog.items[name]
        last = self.prog.last_segment(name)
        cands = [it for n, it in self.prog.items.items() if it.kind in ('const', 'static') and self.prog.last_segment(n) == last]
        if not cands:
            return None
        if len(cands) == 1:
            return cands[0]
        # disambiguate by module prefix:  board::piece::rook::Rook::MAGICS  vs  board::piece::rook::<impl..>::MAGICS
        parts = mirparse.split_top(name, '::')
        best = [c for c in cands if self._module_match(parts, mirparse.split_top(c.name, '::'))]
        if len(best) == 1:
            return best[0]
        raise Unsupported('ambiguous const %s (%d candidates)' % (name, len(best)))

    @staticmethod
    def _module_match(call_parts, item_parts):
        # item:  a::b::<impl at ..>::NAME ; call: a::b::Type::NAME   -> compare the leading module path
        ip = [p for p in item_parts[:-1] if not p.startswith('<impl')]
        cp = call_parts[:-1]
        if len(ip) == len(item_parts) - 1:
            return ip == cp
        return cp[:len(ip)] == ip

    def eval_promoted(self, owner, idx, st, item=None):
        # owner uses the call-site naming; definitions use <impl at ..>: match by suffix
        key = ('P', owner, idx) if item is None else ('P', item.name)
        if key not in self.static_values:
            cands = [item] if item is not None else []
            oparts = mirparse.split_top(owner, '::')
            for n, it in (self.prog.promoted.items() if item is None else []):
                m = re.match(r'^(.*)::promoted\[(\d+)\]$', n)
                if int(m.group(2)) != idx:
                    continue
                iparts = mirparse.split_top(m.group(1), '::')
                if iparts[-1] != oparts[-1] and not (iparts[-1].startswith('{closure') and oparts[-1].startswith('{closure')):
                    continue
                if self._promoted_owner_match(oparts, iparts):
                    cands.append(it)
            if len(cands) != 1:
                raise Unsupported('promoted %s[%d]: %d candidates' % (owner, idx, len(cands)))
            tmp = State({}, True)
            fr = Frame(cands[0], next(self.fid_counter))
            res = self.exec_from(fr, 0, EXIT, tmp)
            v = res.store[('L', fr.fid, 0)]
            # keep the promoted frame alive under a static root
            for k, val in res.store.items():
                self.static_values[('PS',) + k] = val
            self.static_values[key] = (v, {k: val for k, val in res.store.items()})
        v, frame_store = self.static_values[key]
        for k, val in frame_store.items():
            st.store.setdefault(k, val)
        return v

    def _promoted_owner_match(self, oparts, iparts):
        # strip type segment of call-site path vs <impl> segment of the definition
        o = [p for p in oparts]
        i = [p for p in iparts]
        if len(o) != len(i):
            return False
        for a, b in zip(o, i):
            if b.startswith('<impl at'):
                continue
            if a != b:
                return False
        return True

    def eval_rvalue(self, fr, rv, st, dest_type):
        k = rv[0]
        if k == 'use':
            return self.eval_operand(fr, rv[1], st)
        if k == 'ref' or k == 'rawptr':
            place = rv[2] if k == 'ref' else rv[1]
            cases = self.resolve(fr, place, st)
            ptrs = []
            for g, r, p in cases:
                rng = None
                if p and p[-1][0] == 'rng':
                    rng = p[-1][1:]
                    p = p[:-1]
                ptrs.append((g, Ptr(r, p, rng)))
            if len(ptrs) == 1:
                return ptrs[0][1]
            return PtrIte(ptrs)
        if k == 'binop':
            a = self.eval_operand(fr, rv[2], st)
            b = self.eval_operand(fr, rv[3], st)
            ta = self.operand_type(fr, rv[2])
            tb = self.operand_type(fr, rv[3])
            if ta is None and rv[1] not in ('Shl', 'Shr'):
                ta = tb
            return self.binop(rv[1], a, b, ta, tb)
        if k == 'unop':
            a = self.eval_operand(fr, rv[2], st)
            return self.unop(rv[1], a, self.operand_type(fr, rv[2]), st)
        if k == 'discr':
            v = self.read_place(fr, rv[1], st)
            if not isinstance(v, Enum):
                raise Unsupported('discriminant of %r' % (v,))
            w = INT_TYPES.get(norm_type(dest_type), (64, False))[0]
            return self.int_resize(v.d, w, False)
        if k == 'cast':
            a = self.eval_operand(fr, rv[1], st)
            return self.cast(a, self.operand_type(fr, rv[1]), norm_type(rv[2]), rv[3], st)
        if k == 'agg':
            vals = [self.eval_operand(fr, o, st) for o in rv[2]]
            kind = rv[1]
            if kind[0] in ('tuple', 'array'):
                return tuple(vals)
            if kind[0] == 'closure':
                return Closure(kind[1], tuple(vals))
            name = kind[1]
            sv = self.prog.split_variant_path(name)
            if sv:
                ep, vn = sv
                i = self.prog.variant_index(ep, vn)
                return Enum(CI(self.prog.enums[ep][i][1], 64), {i: tuple(vals)})
            return tuple(vals)
        if k == 'repeat':
            v = self.eval_operand(fr, rv[1], st)
            n = self.eval_count(rv[2], st)
            return tuple([v] * n)
        if k == 'len':
            v = self.read_place(fr, rv[1], st)
            if isinstance(v, Seq):
                return seq_len(v)
            return CI(len(self.elems_of(v)), 64)
        raise Unsupported('rvalue %r' % (rv,))

    def eval_count(self, text, st):
        text = text.strip()
        if text.isdigit():
            return int(text)
        m = mirparse.INT_SUFFIX.match(text)
        if m:
            return int(m.group(1))
        if text.startswith('const '):
            text = text[6:]
        v = self.eval_named_const(text, st)
        return v.v

    # ------------------------------------------------------------ arithmetic
    @staticmethod
    def int_resize(x, w, signed_src):
        if isinstance(x, CI):
            if w >= x.w:
                return CI(x.signed() if signed_src else x.v, w)
            return CI(x.v, w)
        xw = x.size()
        if w == xw:
            return x
        if w < xw:
            return z3.Extract(w - 1, 0, x)
        return z3.SignExt(w - xw, x) if signed_src else z3.ZeroExt(w - xw, x)

    def binop(self, op, a, b, ta, tb=None):
        ta = norm_type(ta)
        if ta == 'bool' or (is_bool(a) and is_bool(b)):
            return self.bool_binop(op, a, b)
        if isinstance(a, Enum) and isinstance(b, Enum):
            # comparison of fieldless enums (derived PartialEq lowers to discriminant compares, but be safe)
            return self.binop(op, a.d, b.d, 'isize')
        if isinstance(a, Ptr) or isinstance(b, Ptr):
            raise Unsupported('pointer arithmetic %s' % op)
        if is_zint(a) or is_zint(b):
            return self.zint_binop(op, a, b, ta)
        w, signed = INT_TYPES.get(ta, (width(a), False))
        ovf = op.endswith('WithOverflow')
        if ovf:
            op = op[:-len('WithOverflow')]
        if op.endswith('Unchecked'):
            op = op[:-len('Unchecked')]
        if op in ('Shl', 'Shr'):
            bw, bs = INT_TYPES.get(norm_type(tb), (width(b), False))
            if isinstance(a, CI) and isinstance(b, CI):
                sh = b.v & (w - 1)
                if op == 'Shl':
                    return CI(a.v << sh, w)
                return CI((a.signed() >> sh) if signed else (a.v >> sh), w)
            bb = bv(self.int_resize(b, w, False)) & (w - 1)
            if op == 'Shl':
                return lift(bv(a) << bb)
            return lift(bv(a) >> bb if signed else z3.LShR(bv(a), bb))
        if isinstance(a, CI) and isinstance(b, CI):
            return self.conc_binop(op, a, b, w, signed, ovf)
        A, B = bv(a), bv(b)
        if op == 'Add':
            r = A + B
            if ovf:
                f = z3.Not(z3.BVAddNoOverflow(A, B, signed))
                if signed:
                    f = z3.Or(f, z3.Not(z3.BVAddNoUnderflow(A, B)))
                return (r, lift(z3.simplify(f)))
            return r
        if op == 'Sub':
            r = A - B
            if ovf:
                if signed:
                    f = z3.Or(z3.Not(z3.BVSubNoOverflow(A, B)), z3.Not(z3.BVSubNoUnderflow(A, B, True)))
                else:
                    f = z3.ULT(A, B)
                return (r, lift(z3.simplify(f)))
            return r
        if op == 'Mul':
            r = A * B
            if ovf:
                f = z3.Not(z3.BVMulNoOverflow(A, B, signed))
                if signed:
                    f = z3.Or(f, z3.Not(z3.BVMulNoUnderflow(A, B)))
                return (r, lift(z3.simplify(f)))
            return r
        if op == 'Div':
            return (A / B) if signed else z3.UDiv(A, B)
        if op == 'Rem':
            return z3.SRem(A, B) if signed else z3.URem(A, B)
        if op == 'BitXor':
            return A ^ B
        if op == 'BitAnd':
            return A & B
        if op == 'BitOr':
            return A | B
        if op == 'Eq':
            return lift(z3.simplify(A == B))
        if op == 'Ne':
            return lift(z3.simplify(A != B))
        if op == 'Lt':
            return lift(z3.simplify(A < B if signed else z3.ULT(A, B)))
        if op == 'Le':
            return lift(z3.simplify(A <= B if signed else z3.ULE(A, B)))
        if op == 'Gt':
            return lift(z3.simplify(A > B if signed else z3.UGT(A, B)))
        if op == 'Ge':
            return lift(z3.simplify(A >= B if signed else z3.UGE(A, B)))
        raise Unsupported('binop %s' % op)

    # ---- exact integer mode (DESIGN.md 3.1): values are z3 Ints, every wrap is an explicit `mod`
    @staticmethod
    def to_zint(x, ty):
        if is_zint(x):
            return x
        w, signed = INT_TYPES[ty]
        if isinstance(x, CI):
            return z3.IntVal(x.signed() if signed else x.v)
        return z3.BV2Int(x, signed)

    @staticmethod
    def zint_wrap(r, w, signed):
        lo = -(1 << (w - 1)) if signed else 0
        hi = lo + (1 << w) - 1
        return z3.If(z3.And(r >= lo, r <= hi), r, ((r - lo) % (1 << w)) + lo)

    def zint_binop(self, op, a, b, ta):
        w, signed = INT_TYPES[norm_type(ta)]
        A, B = self.to_zint(a, ta), self.to_zint(b, ta)
        lo = -(1 << (w - 1)) if signed else 0
        hi = lo + (1 << w) - 1
        ovf = op.endswith('WithOverflow')
        if ovf:
            op = op[:-len('WithOverflow')]
        if op in ('Add', 'Sub', 'Mul'):
            r = A + B if op == 'Add' else (A - B if op == 'Sub' else A * B)
            flag = z3.Or(r < lo, r > hi)
            if ovf:
                # the MIR asserts !flag right after; the result is only used on the non-overflowing path, where it is exact
                return (r, lift(z3.simplify(flag)))
            return self.zint_wrap(r, w, signed)
        cmp = {'Eq': lambda: A == B, 'Ne': lambda: A != B, 'Lt': lambda: A < B, 'Le': lambda: A <= B,
               'Gt': lambda: A > B, 'Ge': lambda: A >= B}
        if op in cmp:
            return lift(z3.simplify(cmp[op]()))
        if op in ('Shr', 'Shl') and isinstance(b, CI) and 0 <= b.v < w:
            # shifts by a constant in exact integer mode: >> k is floor division by 2^k (arithmetic shift for signed,
            # logical for unsigned: the value is non-negative there), << k is multiplication followed by the wrap
            k = 1 << b.v
            if op == 'Shr':
                return A / z3.IntVal(k)          # z3 integer division rounds towards minus infinity for a positive divisor
            return self.zint_wrap(A * z3.IntVal(k), w, signed)
        if op in ('Div', 'Rem') and isinstance(b, CI) and b.v != 0 and not (signed and b.signed() < 0):
            d = z3.IntVal(b.v)
            # Rust's / and % truncate towards zero
            q = z3.If(A >= 0, A / d, -((-A) / d))
            return q if op == 'Div' else A - q * d
        raise Unsupported('integer-mode binop %s' % op)

    @staticmethod
    def conc_binop(op, a, b, w, signed, ovf):
        x, y = (a.signed(), b.signed()) if signed else (a.v, b.v)
        lo, hi = (-(1 << (w - 1)), (1 << (w - 1)) - 1) if signed else (0, (1 << w) - 1)
        if op in ('Add', 'Sub', 'Mul'):
            r = x + y if op == 'Add' else (x - y if op == 'Sub' else x * y)
            if ovf:
                return (CI(r, w), not (lo <= r <= hi))
            return CI(r, w)
        if op == 'Div':
            if y == 0:
                raise Unsupported('concrete division by zero')
            q = abs(x) // abs(y)
            return CI(q if (x >= 0) == (y >= 0) else -q, w)
        if op == 'Rem':
            if y == 0:
                raise Unsupported('concrete remainder by zero')
            r = abs(x) % abs(y)
            return CI(r if x >= 0 else -r, w)
        if op == 'BitXor':
            return CI(a.v ^ b.v, w)
        if op == 'BitAnd':
            return CI(a.v & b.v, w)
        if op == 'BitOr':
            return CI(a.v | b.v, w)
        if op == 'Eq':
            return x == y
        if op == 'Ne':
            return x != y
        if op == 'Lt':
            return x < y
        if op == 'Le':
            return x <= y
        if op == 'Gt':
            return x > y
        if op == 'Ge':
            return x >= y
        raise Unsupported('binop %s' % op)

    @staticmethod
    def bool_binop(op, a, b):
        if isinstance(a, bool) and isinstance(b, bool):
            return {'Eq': a == b, 'Ne': a != b, 'BitAnd': a and b, 'BitOr': a or b, 'BitXor': a != b,
                    'Lt': (not a) and b, 'Le': (not a) or b, 'Gt': a and not b, 'Ge': a or not b}[op]
        A, B = zb(a), zb(b)
        if op == 'Eq':
            return lift(A == B)
        if op in ('Ne', 'BitXor'):
            return lift(z3.Xor(A, B))
        if op == 'BitAnd':
            return b_and(a, b)
        if op == 'BitOr':
            return b_or(a, b)
        raise Unsupported('bool binop %s' % op)

    def unop(self, op, a, ta, st):
        if op == 'Not':
            if is_bool(a):
                return b_not(a)
            if isinstance(a, CI):
                return CI(~a.v, a.w)
            return ~a
        if op == 'Neg':
            if isinstance(a, CI):
                return CI(-a.v, a.w)
            if is_zint(a):
                w, signed = INT_TYPES[norm_type(ta)]
                return self.zint_wrap(-a, w, signed)
            return -a
        if op == 'PtrMetadata':
            return self.slice_len(a, st)
        raise Unsupported('unop %s' % op)

    def slice_len(self, p, st):
        """length of the slice a (fat) pointer designates"""
        if isinstance(p, PtrIte):
            out = None
            for g, q in reversed(p.cases):
                v = self.slice_len(q, st)
                out = v if out is None else ite(g, v, out)
            return out
        if not isinstance(p, Ptr):
            raise Unsupported('PtrMetadata of %r' % (p,))
        if p.rng is not None:
            a, b = p.rng
            return self.binop('Sub', b, a, 'usize')
        v = self.load(st, p.root, p.path)
        from .models import StrV
        if isinstance(v, StrV):
            return v.length()
        if isinstance(v, Seq):
            return seq_len(v)
        if isinstance(v, tuple):
            return CI(len(v), 64)
        raise Unsupported('slice_len of %r' % (v,))

    def cast(self, a, tsrc, tdst, kind, st):
        if kind == 'IntToInt' and tdst in self.int_types and not is_zint(a):
            r = self.cast_plain(a, tsrc, tdst, kind, st)
            return self.to_zint(r, tdst)
        return self.cast_plain(a, tsrc, tdst, kind, st)

    def cast_plain(self, a, tsrc, tdst, kind, st):
        if kind == 'IntToInt':
            w, _ = INT_TYPES[tdst]
            if is_bool(a):
                if isinstance(a, bool):
                    return CI(int(a), w)
                return z3.If(a, z3.BitVecVal(1, w), z3.BitVecVal(0, w))
            if isinstance(a, Enum):
                return self.int_resize(a.d, w, True)
            if is_zint(a):
                ws, ss = INT_TYPES[tsrc]
                wd, sd = INT_TYPES[tdst]
                lo_s, lo_d = (-(1 << (ws - 1)) if ss else 0), (-(1 << (wd - 1)) if sd else 0)
                if lo_d <= lo_s and lo_s + (1 << ws) <= lo_d + (1 << wd):
                    return a
                return self.zint_wrap(a, wd, sd)
            ssrc = INT_TYPES.get(tsrc, (0, False))[1]
            return lift(self.int_resize(a, w, ssrc)) if not isinstance(a, CI) else self.int_resize(a, w, ssrc)
        if kind.startswith('PointerCoercion(Unsize'):
            return a  # &[T;N] -> &[T], &T -> &dyn Trait : our pointers already know their pointee
        if kind.startswith('PointerCoercion(ReifyFnPointer') or kind.startswith('PointerCoercion(ClosureFnPointer'):
            return a
        if kind in ('PtrToPtr', 'Transmute') and isinstance(a, (Ptr, PtrIte)):
            return a
        if kind == 'Transmute' and isinstance(a, tuple) and len(a) >= 1 and isinstance(a[0], (Ptr, PtrIte)):
            return a[0]      # NonNull<T> / Unique<T> -> raw pointer
        if kind == 'Transmute':
            ws, wd = INT_TYPES.get(tsrc), INT_TYPES.get(tdst)
            if ws and wd and ws[0] == wd[0]:
                return a
        raise Unsupported('cast %s -> %s (%s)' % (tsrc, tdst, kind))

    # ------------------------------------------------------------ control flow
    def where(self, fr, bb):
        return '%s:bb%d' % (fr.item.name, bb)

    def _init_zst_locals(self, fr, st):
        """non-capturing closures are zero-sized locals that MIR never assigns: give them their value up front"""
        for n, t in fr.item.locals.items():
            if isinstance(t, str) and t.startswith('{closure@') and ('L', fr.fid, n) not in st.store:
                st.store[('L', fr.fid, n)] = Closure(norm_type(t), ())

    def run_item_paths(self, item, args, st):
        """Run a MIR body path by path (no merging); returns [(ret_value, state)] (possibly empty)"""
        fr = Frame(item, next(self.fid_counter))
        self.functions_run[item.name] = item.text_hash
        for n, v in zip(item.args, args):
            st.store[('L', fr.fid, n)] = v
        self._init_zst_locals(fr, st)
        self.call_depth += 1
        try:
            finals = self.run_body(fr, st, nomerge=True)
        finally:
            self.call_depth -= 1
        out = []
        for res in finals:
            ret = res.store.get(('L', fr.fid, 0), UNIT)
            for k in [k for k in res.store if k[0] == 'L' and k[1] == fr.fid]:
                del res.store[k]
            out.append((ret, res))
        return out

    def run_item(self, item, args, st):
        """Run a MIR body with argument values; returns (ret_value, state) or (None, None) if every path diverges."""
        fr = Frame(item, next(self.fid_counter))
        self.functions_run[item.name] = item.text_hash
        if len(args) != len(item.args):
            raise Unsupported('arity mismatch calling %s: %d vs %d' % (item.name, len(args), len(item.args)))
        for n, v in zip(item.args, args):
            st.store[('L', fr.fid, n)] = v
        self._init_zst_locals(fr, st)
        self.call_depth += 1
        if self.call_depth > self.max_call_depth:
            raise Unsupported('call depth exceeded in %s' % item.name)
        try:
            res = self.exec_from(fr, 0, EXIT, st)
        finally:
            self.call_depth -= 1
        if res is None:
            return None, None
        if isinstance(res, list):
            out = []
            for r_ in res:
                ret = r_.store.get(('L', fr.fid, 0), UNIT)
                for k in [k for k in r_.store if k[0] == 'L' and k[1] == fr.fid]:
                    del r_.store[k]
                out.append((ret, r_))
            return PATHS, out
        ret = res.store.get(('L', fr.fid, 0), UNIT)
        # free the frame
        for k in [k for k in res.store if k[0] == 'L' and k[1] == fr.fid]:
            del res.store[k]
        return ret, res

    def exec_from(self, fr, bb, stop, st):
        """compatibility wrapper: run the whole body from its entry block"""
        assert bb == 0 and stop == EXIT
        return self.run_body(fr, st)

    def run_loop_step(self, item, header, locals_, st):
        """Cut-point execution: start at loop header block `header` of `item` with the given values for the MIR locals
        (dict local number -> value; the loop-carried state, arbitrary / symbolic), run until control either comes back
        to the header (one trip round the loop) or leaves the function.  Returns (frame, state_back_at_header or None,
        state_at_exit or None); the frame's locals are still in the returned states' stores
        (state.store[('L', frame.fid, n)])."""
        fr = Frame(item, next(self.fid_counter))
        self.functions_run[item.name] = item.text_hash
        for n, v in locals_.items():
            st.store[('L', fr.fid, n)] = v
        self._stops = []
        self.call_depth += 1
        try:
            res = self.run_body(fr, st, start=header, stop_at=header)
        finally:
            self.call_depth -= 1
        stops, self._stops = self._stops, []
        back = merge_arrivals(stops) if stops else None
        if isinstance(res, list):
            res = merge_arrivals(res) if res else None
        return fr, back, res

    def run_body(self, fr, st0, nomerge=False, start=None, stop_at=None):
        """Execute one function body.  The unrolled control-flow graph is walked in topological order
        (reverse post-order, loop iterations outermost first); all states that arrive at the same unrolled node are
        merged before the node is executed, so early returns / `?` / break / continue do not multiply paths."""
        import heapq
        item = fr.item
        cfg = self.prog.cfg(item)
        rpo, body, chain, carried = cfg['rpo'], cfg['body'], cfg['chain'], cfg['carried']
        pending = {}
        heap = []
        INF = 1 << 60

        def key_of(bb, ctx):
            if bb == EXIT:
                return ((INF, 0, ()),)
            return tuple((rpo[h], it, tag) for h, it, tag in ctx) + ((rpo[bb], 0, ()),)

        def push(bb, ctx, st):
            k = key_of(bb, ctx)
            slot = pending.get(k)
            if slot is None:
                pending[k] = (bb, ctx, [st])
                heapq.heappush(heap, k)
            else:
                slot[2].append(st)

        def goto(src, ctx, tgt, st):
            if tgt == EXIT:
                push(EXIT, (), st)
                return
            if tgt not in rpo:
                return      # cleanup / unreachable-from-entry block
            new = []
            back = False
            for h, it, tag in ctx:
                if h not in body:
                    new.append((h, it, tag))     # pseudo element of the path-by-path mode
                    continue
                if tgt in body[h]:
                    if tgt == h and src in body[h]:
                        # back edge: next iteration of this loop, inner loops are left
                        if it + 1 > self.loop_bound:
                            self.oblige('unwind', st.guard, self.where(fr, src), 'loop bound %d exceeded' % self.loop_bound)
                            return
                        # value-partition tags are recomputed at the header; path-split markers (negative) stay, so that
                        # split paths remain apart until the loop is left
                        if stop_at is not None and tgt == stop_at:
                            self._stops.append(st)
                            return
                        new.append((h, it + 1, tuple(x for x in tag if x <= -2)))
                        back = True
                        break
                    new.append((h, it, tag))
                else:
                    break
            if not back and tgt in body and not any(h == tgt for h, _, _ in new):
                new.append((tgt, 0, ()))
            push(tgt, tuple(new), st)

        if start is None:
            push(0, ((0, 0, ()),) if 0 in body else (), st0)
        else:
            if start not in body:
                raise Unsupported('run_loop_step: bb%d is not a loop header' % start)
            outer = [h for h in body if h != start and start in body[h]]
            if outer:
                raise Unsupported('run_loop_step: nested loop headers are not supported')
            push(start, ((start, 0, ()),), st0)
        final = None
        finals = []
        while heap:
            k = heapq.heappop(heap)
            bb, ctx, states = pending.pop(k)
            if not nomerge and self.exit_split is not None and len(states) > 1:
                groups = {}
                for s_ in states:
                    groups.setdefault(self.exit_split(s_), []).append(s_)
                if len(groups) > 1:
                    if bb == EXIT:
                        for members in groups.values():
                            finals.append(merge_arrivals(members))
                        final = finals
                        continue
                    # keep states with different keys apart from here on (own copy of the rest of the function)
                    for j_, members in enumerate(groups.values()):
                        base = ctx if ctx else ((0, 0, ()),)
                        nctx = base[:-1] + ((base[-1][0], base[-1][1], base[-1][2] + (-(200 + j_),)),)
                        for s_ in members:
                            push(bb, nctx, s_)
                    continue
            if nomerge and len(states) > 1:
                # path-by-path mode: give every arrival its own copy of the node (distinct partition tag)
                if bb == EXIT:
                    finals += states
                    continue
                for j_, s_ in enumerate(states):
                    base = ctx if ctx else ((0, 0, ()),)      # pseudo loop element (block 0) carrying only the path tag
                    nctx = base[:-1] + ((base[-1][0], base[-1][1], base[-1][2] + (-(100 + j_),)),)
                    push(bb, nctx, s_)
                continue
            if bb != EXIT and ctx and ctx[-1][0] in carried and not any(x <= -2 for x in ctx[-1][2]):
                # inside a loop: keep arrivals apart when the loop-carried integer locals (counters / indices) hold
                # different concrete values, so that those stay concrete instead of becoming if-then-else terms
                h_ = ctx[-1][0]
                groups = {}
                for s_ in states:
                    vals = tuple(s_.store.get(('L', fr.fid, l)) for l in carried[h_])
                    tag = tuple(v.v for v in vals) if all(isinstance(v, CI) for v in vals) else (-1,)
                    groups.setdefault(tag, []).append(s_)
                if len(groups) > 1 or (len(groups) == 1 and next(iter(groups)) != ctx[-1][2] and next(iter(groups)) != (-1,)
                                       and len(states) > 1 and False):
                    for tag, members in groups.items():
                        nctx = ctx[:-1] + ((ctx[-1][0], ctx[-1][1], tag),)
                        for s_ in members:
                            push(bb, nctx, s_)
                    continue
            st = merge_arrivals(states)
            if bb == EXIT:
                final = st
                finals.append(st)
                continue
            sts, term = item.blocks[bb]
            for s in sts:
                self.exec_stmt(fr, s, st)
            kk = term[0]
            if kk == 'goto':
                goto(bb, ctx, term[1], st)
            elif kk == 'return':
                goto(bb, ctx, EXIT, st)
            elif kk == 'call':
                st2 = self.exec_call(fr, bb, term, st)
                if isinstance(st2, list):
                    if term[4] is not None:
                        base_ = ctx if ctx else ((0, 0, ()),)      # pseudo element outside loops
                        for i_, s_i in enumerate(st2):
                            # keep the split paths apart for the rest of this loop iteration (fork marker in the tag)
                            fctx = base_[:-1] + ((base_[-1][0], base_[-1][1], base_[-1][2] + (-(i_ + 2),)),) if len(st2) > 1 else ctx
                            goto(bb, fctx, term[4], s_i)
                elif st2 and term[4] is not None:
                    goto(bb, ctx, term[4], st2)
            elif kk == 'assert':
                c = self.eval_operand(fr, term[1], st)
                good = c if term[2] else b_not(c)
                if good is False:
                    self.oblige_state('panic', st, True, self.where(fr, bb), 'assert: ' + term[3])
                    continue
                if good is not True:
                    if self.prune_solver is not None and self.prune_mode in ('all', 'asserts') and not self.feasible(b_and(st.guard, b_not(good))):
                        # the failing side is infeasible under the harness assumptions: obligation discharged here,
                        # nothing is added to the path condition
                        self.stats['asserts_discharged_by_pruning'] = self.stats.get('asserts_discharged_by_pruning', 0) + 1
                    else:
                        self.oblige_state('panic', st, b_not(good), self.where(fr, bb), 'assert: ' + term[3])
                        st.add_guard(good)
                goto(bb, ctx, term[4], st)
            elif kk == 'drop':
                if not term[1][2]:
                    st.store[('L', fr.fid, term[1][1])] = None
                if term[2] is not None:
                    goto(bb, ctx, term[2], st)
            elif kk == 'switch':
                v = self.eval_operand(fr, term[1], st)
                if isinstance(v, bool):
                    v = CI(int(v), 8)
                if isinstance(v, Enum):
                    v = v.d
                if isinstance(v, CI):
                    tgt = None
                    for val, t in term[2]:
                        if (val & ((1 << v.w) - 1)) == v.v:
                            tgt = t
                            break
                    if tgt is None:
                        tgt = term[3]
                    if tgt is not None:
                        goto(bb, ctx, tgt, st)
                    continue
                conds = []
                if isinstance(v, z3.BoolRef):
                    seen = []
                    for val, t in term[2]:
                        c = v if val else b_not(v)
                        conds.append((c, t))
                        seen.append(c)
                    if term[3] is not None:
                        conds.append((b_not(b_or(*seen)) if seen else True, term[3]))
                else:
                    w = v.size()
                    eqs = []
                    for val, t in term[2]:
                        c = simp2(v == z3.BitVecVal(val, w))
                        conds.append((c, t))
                        eqs.append(c)
                    if term[3] is not None:
                        conds.append((simp2(z3.Not(z3.Or(*[zb(e) for e in eqs]))) if eqs else True, term[3]))
                grouped, order = {}, []
                for c, t in conds:
                    if c is False:
                        continue
                    if t not in grouped:
                        grouped[t] = c
                        order.append(t)
                    else:
                        grouped[t] = b_or(grouped[t], c)
                arms = []
                for t in order:
                    blk = item.blocks.get(t)
                    if blk is not None and not blk[0] and blk[1][0] == 'unreachable':
                        # compiler-asserted impossible value: obligation, does not count as an arm of the join
                        self.oblige_state('unreachable', st, grouped[t], self.where(fr, t), 'MIR `unreachable` terminator')
                        continue
                    if self.prune_solver is not None and self.prune_mode == 'all' and not self.feasible(b_and(st.guard, grouped[t])):
                        continue
                    arms.append(t)
                if not arms:
                    continue
                if len(arms) == 1:
                    if len(order) > 1 and not (self.prune_solver is not None):
                        st.add_guard(grouped[arms[0]])
                    elif len(order) > 1:
                        # the other arms were `unreachable` blocks (obligations) or proven infeasible
                        if any(item.blocks[t][1][0] == 'unreachable' for t in order if t != arms[0]):
                            st.add_guard(grouped[arms[0]])
                    goto(bb, ctx, arms[0], st)
                    continue
                self.stats['forks'] += 1
                uid = next(self.branch_counter)
                for i, t in enumerate(arms):
                    goto(bb, ctx, t, st.fork(GC(grouped[t], uid, i, len(arms))))
            elif kk == 'unreachable':
                self.oblige_state('unreachable', st, True, self.where(fr, bb), 'MIR `unreachable` terminator')
            elif kk == 'resume':
                pass
            elif kk == 'unparsed':
                raise Unsupported('unparsed block in %s: %s' % (item.name, term[1]))
            else:
                raise Unsupported('terminator %r' % (term,))
        if nomerge:
            return finals
        return final

    def exec_stmt(self, fr, s, st):
        if s[0] == 'assign':
            dt = self.place_type(fr, s[1]) if True else None
            v = self.eval_rvalue(fr, s[2], st, dt)
            if isinstance(v, tuple) and len(v) == 2 and s[2][0] == 'binop' and s[2][1].endswith('WithOverflow'):
                pass
            self.write_place(fr, s[1], st, v)
        elif s[0] == 'setdiscr':
            old = self.read_place(fr, s[1], st)
            t = self.place_type(fr, s[1])
            _, ep = self.prog.enum_of_type(t)
            d = CI(self.prog.enums[ep][s[2]][1], 64)
            pay = dict(old.pay) if isinstance(old, Enum) else {}
            pay.setdefault(s[2], ())
            self.write_place(fr, s[1], st, Enum(d, pay))

    # ------------------------------------------------------------ calls
    def exec_call(self, fr, bb, term, st):
        _, dest, callee, argops, ret = term
        self.stats['calls'] += 1
        args = [self.eval_operand(fr, o, st) for o in argops]
        argtypes = [self.operand_type(fr, o) for o in argops]
        dtype = self.place_type(fr, dest) if dest is not None else None
        where = self.where(fr, bb)
        if self.trace:
            print('  ' * self.call_depth + 'call', callee[:150])
        mind = re.match(r'^(copy|move) (_\d+.*)$', callee) if isinstance(callee, str) else None
        if mind:
            # indirect call through a function-pointer / closure value held in a place
            fv = self.read_place(fr, mirparse.parse_place(mind.group(2)), st)
            if isinstance(fv, PtrIte) or not isinstance(fv, (FnRef, Closure, Ptr)):
                raise Unsupported('indirect call through %r' % (fv,))
            res = self.call_closure(fv, args, st, where)
        else:
            res = self.call(callee, args, argtypes, dtype, st, where)
        if res is None:
            return None
        val, st2 = res
        if val is PATHS:
            out = []
            for v, s_i in st2:
                if dest is not None and ret is not None:
                    self.write_place(fr, dest, s_i, v)
                out.append(s_i)
            return out
        if isinstance(val, Fork):
            out = []
            cases = [tuple(x) for x in val.cases if x[0] is not False]
            uid = next(self.branch_counter)
            live = [x for x in cases if self.prune_solver is None or self.feasible(b_and(st2.guard, x[0]))]
            for i, x in enumerate(live):
                c, v = x[0], x[1]
                s_i = st2.fork(GC(c, uid, i, len(cases)) if len(cases) > 1 else c)
                if len(x) > 2 and x[2] is not None:
                    x[2](s_i)          # per-case state update requested by the model
                if dest is not None and ret is not None:
                    self.write_place(fr, dest, s_i, v)
                out.append(s_i)
            return out
        if dest is not None and ret is not None:
            self.write_place(fr, dest, st2, val)
        return st2

    def call(self, callee, args, argtypes, dtype, st, where):
        """returns (value, state) or None when the call diverges on every path"""
        ncal = norm_type(callee)
        fn = self.overrides.get(ncal)
        # an override is final; otherwise the matching models are tried in priority order until one handles the call
        cands = [fn] if fn is not None else [f for rx, f in self.models if rx.search(ncal)]
        for fn in cands:
            ctx = CallCtx(self, st, ncal, argtypes, dtype, where)
            r = fn(ctx, *args)
            if r is DIVERGE:
                return None
            if r is NOT_HANDLED:
                continue
            if r is None:
                raise Unsupported('the model of %s returned no value (model defect)' % ncal)
            return r, ctx.st
        it = self.resolve_fn(ncal, argtypes, dtype)
        if it is None:
            # a tuple-variant / tuple-struct constructor used as a function (`.map(Some)`, `.map(Kind::Pawn)`)
            try:
                sv = self.prog.split_variant_path(ncal)
            except Exception:
                sv = None
            if sv:
                ep, vn = sv
                i = self.prog.variant_index(ep, vn)
                return Enum(CI(i, 64), {i: tuple(args)}), st
            raise Unsupported('no model and no MIR for callee %s (at %s)' % (ncal, where))
        if any(rx.search(ncal) for rx in self.nomerge):
            paths = self.run_item_paths(it, args, st)
            if not paths:
                return None
            if len(paths) == 1:
                return paths[0]
            return PATHS, paths
        val, st2 = self.run_item(it, args, st)
        if st2 is None:
            return None
        for rx, hook in self.post_hooks:
            if rx.search(ncal):
                ctx = CallCtx(self, st2, ncal, argtypes, dtype, where)
                val = hook(ctx, val)
                st2 = ctx.st
        return val, st2

    def resolve_fn(self, callee, argtypes, dtype):
        prog = self.prog
        if callee in prog.items and prog.items[callee].kind == 'fn':
            return prog.items[callee]
        # closure call through Fn traits is handled by models; here: paths
        name = callee
        # <T as Trait<..>>::method::<G>  -> Self type T, method
        self_ty = None
        want_trait = None
        want_targs = None
        m = re.match(r'^<(.*)>::([A-Za-z_0-9]+)(::<.*>)?$', name)
        method = None
        if m and mirparse.find_top(m.group(1), ' as ') >= 0:
            k = mirparse.find_top(m.group(1), ' as ')
            self_ty = m.group(1)[:k]
            want_trait = re.sub(r'<.*>$', '', m.group(1)[k + 4:].strip()).split('::')[-1]
            wg = re.search(r'<(.*)>$', m.group(1)[k + 4:].strip())
            want_targs = wg.group(1).replace(' ', '') if wg else None
            method = m.group(2)
        else:
            parts = mirparse.split_top(name, '::')
            # drop trailing turbofish
            while parts and parts[-1].startswith('<'):
                parts = parts[:-1]
            method = parts[-1]
        cands = prog.by_last.get(method, [])
        if not cands:
            return None
        good = []
        for it in cands:
            if len(it.args) != len(argtypes):
                continue
            score = 0
            ok = True
            for n, at in zip(it.args, argtypes):
                pt = norm_type(it.locals[n])
                if at is None:
                    continue
                if pt == at:
                    score += 2
                elif self._type_compatible(pt, at):
                    score += 1
                else:
                    ok = False
                    break
            if not ok:
                continue
            rt = norm_type(it.ret)
            if dtype is not None:
                if rt == dtype:
                    score += 2
                elif self._type_compatible(rt, dtype):
                    score += 1
                else:
                    continue
            # module / self type hints
            if self_ty is not None:
                ist = prog.impl_self_type(it.name)
                want = re.sub(r'<.*>$', '', self_ty).split('::')[-1].lstrip('&').strip()
                if ist is not None and re.fullmatch(r'\w+', want or ''):
                    if ist == want:
                        score += 4
                    elif ist != 'Self' and re.fullmatch(r'\w+', ist):
                        continue
                itr = prog.impl_trait(it.name)
                if itr is not None and want_trait:
                    if itr == want_trait:
                        score += 4
                    else:
                        continue
                    ita = prog.impl_trait_args(it.name)
                    if ita is not None and want_targs is not None:
                        strip = lambda t: re.sub(r'\b(?:\w+::)+', '', t)          # drop path prefixes: std::string::String -> String
                        if strip(ita) == strip(want_targs):
                            score += 4
                        elif re.fullmatch(r'[&\w\[\]; ]+', strip(ita)) and re.fullmatch(r'[&\w\[\]; ]+', strip(want_targs)):
                            continue
            if self_ty is None:
                parts = mirparse.split_top(name, '::')
                while parts and parts[-1].startswith('<'):
                    parts = parts[:-1]
                iparts = mirparse.split_top(it.name, '::')
                if self._module_match(parts, iparts):
                    score += 3
                else:
                    continue
                ist = prog.impl_self_type(it.name)
                if ist is not None and len(parts) >= 2 and re.fullmatch(r'\w+', ist) and ist != 'Self':
                    tyseg = re.sub(r'<.*>$', '', parts[-2])
                    if tyseg == ist:
                        score += 4
                    elif re.fullmatch(r'\w+', tyseg) and tyseg[:1].isupper():
                        continue
            good.append((score, it))
        if not good:
            return None
        good.sort(key=lambda x: -x[0])
        if len(good) > 1 and good[0][0] == good[1][0]:
            raise Unsupported('ambiguous callee %s: %s' % (callee, [g[1].name for g in good[:3]]))
        return good[0][1]

    @staticmethod
    def _type_compatible(param_t, actual_t):
        # generic parameters / impl Trait / Self in default methods
        if re.search(r'\bimpl ', param_t) or re.fullmatch(r'&?(mut )?(Self|[A-Z])', param_t):
            return True
        if re.fullmatch(r'[A-Z]\w*', param_t) and '::' not in param_t and param_t not in ('String',):
            return True
        return False

    def call_closure(self, clos, args, st, where='closure'):
        """call a closure / fn item value with a list of argument values"""
        if isinstance(clos, Ptr):
            clos_val = self.load(st, clos.root, clos.path)
            return self.call_closure(clos_val, args, st, where)
        if isinstance(clos, FnRef):
            return self.call(clos.name, args, [None] * len(args), None, st, where)
        if not isinstance(clos, Closure):
            raise Unsupported('call of non-closure %r' % (clos,))
        it = self.prog.closures.get(clos.name)
        if it is None:
            raise Unsupported('closure body %s not found' % clos.name)
        t0 = norm_type(it.locals[it.args[0]])
        if t0.startswith('&'):
            p = self.alloc(st, clos)
            a0 = p
        else:
            a0 = clos
        val, st2 = self.run_item(it, [a0] + list(args), st)
        if st2 is None:
            return None
        return val, st2


class Fork:
    """a model / post-hook result that splits the path: cases = [(cond, value)] (mutually exclusive)"""
    __slots__ = ('cases',)

    def __init__(self, cases):
        self.cases = cases


class _Marker:
    def __init__(self, n):
        self.n = n

    def __repr__(self):
        return self.n


PATHS = _Marker('PATHS')
DIVERGE = _Marker('DIVERGE')
NOT_HANDLED = _Marker('NOT_HANDLED')


class CallCtx:
    """what a model function gets: executor, mutable state handle, type info"""
    __slots__ = ('ex', 'st', 'callee', 'argtypes', 'dtype', 'where')

    def __init__(self, ex, st, callee, argtypes, dtype, where):
        self.ex, self.st, self.callee, self.argtypes, self.dtype, self.where = ex, st, callee, argtypes, dtype, where

    def panic_if(self, cond, msg):
        """record a panic obligation for `cond` and continue on the complement"""
        if cond is False:
            return True
        self.ex.oblige_state('panic', self.st, cond, self.where, msg)
        if cond is True:
            return False
        self.st.add_guard(b_not(cond))
        return True

    def deref(self, p):
        if isinstance(p, PtrIte):
            out = None
            for g, q in reversed(p.cases):
                v = self.ex.load(self.st, q.root, q.path)
                out = v if out is None else ite(g, v, out)
            return out
        return self.ex.load(self.st, p.root, p.path)

    def write(self, p, val):
        if isinstance(p, PtrIte):
            for g, q in p.cases:
                self.ex.store_to(self.st, q.root, q.path, val, guard=g)
        else:
            self.ex.store_to(self.st, p.root, p.path, val)


# ------------------------------------------------------------------ helpers on values

def mux(idx, elems):
    """select elems[idx] for a symbolic index (binary tree over the index bits)"""
    n = len(elems)
    if n == 0:
        raise Unsupported('mux over empty sequence')
    nbits = max(1, (n - 1).bit_length())
    I = bv(idx)

    def rec(bit, base):
        if base >= n:
            return None
        if bit < 0:
            return elems[base]
        lo = rec(bit - 1, base)
        hi = rec(bit - 1, base + (1 << bit))
        if hi is None:
            return lo
        if lo is hi or (isinstance(lo, CI) and isinstance(hi, CI) and lo == hi):
            return lo
        return ite(z3.Extract(bit, bit, I) == 1, hi, lo)

    return rec(nbits - 1, 0)


def seq_len(s):
    if s.dense():
        return CI(len(s.ents), 64)
    tot = z3.BitVecVal(0, 64)
    for g, _ in s.ents:
        tot = tot + z3.If(zb(g), z3.BitVecVal(1, 64), z3.BitVecVal(0, 64))
    return tot
