"""Solver front end: z3 (in process), optional cvc5 re-check of the exported SMT-LIB."""
import os
import subprocess
import tempfile
import time
import z3

from .values import zb


class Query:
    """one solver query:  assumptions /\\ goal_negation  expected unsat"""

    def __init__(self, qid, formulas, kind='bv', note=''):
        self.qid = qid
        self.formulas = [zb(f) for f in formulas if f is not True]
        self.kind = kind
        self.note = note
        self.verdict = None
        self.seconds = 0.0
        self.model = None
        self.solver = None
        self.size = None

    def to_smt2(self):
        s = z3.Solver()
        for f in self.formulas:
            s.add(f)
        return '(set-logic ALL)\n' + s.to_smt2()


def _mk_solver(kind, timeout_ms, seed):
    if kind == 'bv':
        t = z3.Then(z3.Tactic('simplify'), z3.Tactic('propagate-values'), z3.Tactic('solve-eqs'),
                    z3.Tactic('bit-blast'), z3.Tactic('sat'))
        s = t.solver()
    else:
        s = z3.Solver()
    s.set('timeout', int(timeout_ms))
    try:
        s.set('random_seed', int(seed) & 0x7fffffff)
    except z3.Z3Exception:
        pass
    return s


def decide(q, timeout_s=60, seed=0):
    """fills q.verdict in {'unsat','sat','unknown'}; model kept for 'sat'"""
    t0 = time.time()
    kinds = [q.kind] if q.kind != 'bv' else ['bv', 'smt']
    verdict = 'unknown'
    for k in kinds:
        remaining = timeout_s - (time.time() - t0)
        if remaining <= 0:
            break
        s = _mk_solver(k, remaining * 1000, seed)
        for f in q.formulas:
            s.add(f)
        try:
            r = s.check()
        except z3.Z3Exception as e:
            q.note += ' z3 exception: %s' % e
            r = z3.unknown
        q.solver = 'z3 %s (%s)' % (z3.get_version_string(), 'simplify;propagate-values;solve-eqs;bit-blast;sat' if k == 'bv' else 'default')
        if r == z3.unsat:
            verdict = 'unsat'
            break
        if r == z3.sat:
            verdict = 'sat'
            try:
                q.model = s.model()
            except z3.Z3Exception:
                q.model = None
            if q.model is None or k == 'bv':
                # tactic solvers may return partial models: re-solve with the default solver for a full one
                s2 = _mk_solver('smt', max(1.0, timeout_s - (time.time() - t0)) * 1000, seed)
                for f in q.formulas:
                    s2.add(f)
                if s2.check() == z3.sat:
                    q.model = s2.model()
            break
    q.verdict = verdict
    q.seconds = time.time() - t0
    try:
        q.size = sum(len(f.sexpr()) for f in q.formulas) if len(q.formulas) < 50 else None
    except Exception:
        q.size = None
    return verdict


def cvc5_check(q, timeout_s=120):
    """re-decide the exported query with cvc5; returns 'unsat'|'sat'|'unknown'|'error'"""
    txt = q.to_smt2()
    with tempfile.NamedTemporaryFile('w', suffix='.smt2', delete=False, dir=os.environ.get('TMPDIR', '/tmp')) as f:
        f.write(txt)
        path = f.name
    try:
        p = subprocess.run(['cvc5', '--lang', 'smt2', '--tlimit=%d' % int(timeout_s * 1000), path],
                           capture_output=True, text=True, timeout=timeout_s + 10)
        out = p.stdout.strip().split('\n')[0] if p.stdout.strip() else ''
        if '(error' in p.stdout or '(error' in p.stderr:
            return 'error'
        if out in ('unsat', 'sat', 'unknown'):
            return out
        return 'unknown'
    except subprocess.TimeoutExpired:
        return 'unknown'
    finally:
        os.unlink(path)


def model_int(model, term):
    if hasattr(term, 'v') and not hasattr(term, 'as_ast'):
        return term.v
    if isinstance(term, (int, bool)):
        return int(term)
    v = model.eval(term, model_completion=True)
    if z3.is_bv_value(v):
        return v.as_long()
    if z3.is_true(v):
        return 1
    if z3.is_false(v):
        return 0
    if z3.is_int_value(v):
        return v.as_long()
    raise ValueError('no concrete value for %s: %s' % (term, v))
