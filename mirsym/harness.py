"""Shared run-time of the checks: builds (MIR dump, native helper, tables), query bookkeeping,
evidence files, known findings, exit codes (DESIGN.md §3.6, §8)."""
import json
import os
import sys
import time
import traceback
import z3

from . import native, rustsrc, solve
from .executor import Program, Executor, State, Frame, EXIT
from .values import *

VERIF = native.VERIF
EVIDENCE_DIR = os.path.join(VERIF, 'evidence')
REPLAY_DIR = os.path.join(VERIF, 'replays')
KNOWN_FINDINGS = os.path.join(VERIF, 'known_findings.json')

TIER_TIMEOUT = {'quick': 60, 'thorough': 900}


class Inconclusive(Exception):
    pass


def bb(v):
    """Bitboard struct value from int / term"""
    return (CI(v, 64) if isinstance(v, int) else v,)


class Run:
    def __init__(self, prop_id, tier=None, seed=None, level='proof'):
        self.prop_id = prop_id
        self.tier = tier or os.environ.get('VERIF_TIER', 'quick')
        if self.tier not in ('quick', 'thorough'):
            self.tier = 'quick'
        try:
            self.seed = int(seed if seed is not None else os.environ.get('VERIF_SEED', '0'))
        except ValueError:
            self.seed = 0
        self.level = level
        self.t0 = time.time()
        self.queries = []
        self.violations = []      # dicts: what, replay path
        self.known = []           # KNOWN-FINDING lines
        self.inconclusive = []    # reasons
        self.notes = []
        self.samples = []
        self.functions = {}
        self.bounds = []
        self.outside = []
        self.stubs = set()
        self.assumptions = []
        self.vacuity = []
        self.selftest = {'cases': 0, 'mismatches': 0, 'what': []}
        self.timings = {}
        self.exec_stats = {'calls': 0, 'forks': 0, 'merges': 0, 'pruned': 0}
        self.unwinding = []
        self.cvc5 = {'checked': 0, 'agree': 0, 'unknown': 0, 'skipped': 0, 'seconds': 0.0}
        self.extra = {}
        self.prog = None
        self.tables = None
        self.helper = None
        self.solver_time = 0.0
        self.timeout = TIER_TIMEOUT[self.tier]
        z3.set_param('sat.random_seed', self.seed & 0x7fffffff)
        z3.set_param('smt.random_seed', self.seed & 0x7fffffff)

    # ------------------------------------------------------------ build
    def build(self, need_native=True):
        mir, s = native.dump_mir()
        self.timings['mir_dump_s'] = round(s, 1)
        enums, structs = rustsrc.scan(os.path.join(native.REPO, 'src'))
        self.prog = Program(mir, enums, structs)
        self.mir_lines = mir.count('\n')
        if need_native:
            self.helper, s = native.build_helper()
            self.timings['helper_build_s'] = round(s, 1)
            self.tables = native.load_tables(self.helper)

    def executor(self, zobrist='concrete'):
        ex = Executor(self.prog)
        if self.tables is not None:
            self.load_tables(ex, zobrist)
        return ex

    def load_tables(self, ex, zobrist):
        key = '_tv_' + zobrist
        if getattr(self, key, None) is None:
            sv = {}
            self._build_tables(sv, zobrist)
            setattr(self, key, sv)
        ex.static_values.update(getattr(self, key))

    def _build_tables(self, sv, zobrist):
        t = self.tables
        for pc in ('rook', 'bishop'):
            sv['board::piece::%s::MASKS' % pc] = tuple(bb(x) for x in t[pc + '_masks'])
            sv['board::piece::%s::ATTACKS' % pc] = tuple(Seq.of([bb(x) for x in row]) for row in t[pc + '_attacks'])
        sv['board::piece::knight::ATTACKS'] = tuple(bb(x) for x in t['knight_attacks'])
        sv['board::piece::king::ATTACKS'] = tuple(bb(x) for x in t['king_attacks'])
        sv['board::piece::pawn::ATTACKS'] = tuple(tuple(bb(x) for x in row) for row in t['pawn_attacks'])
        sv['board::square::rays::RAYS'] = (tuple(tuple(bb(x) for x in row) for row in t['rays']),)
        mw = 64
        it_ = self.prog.items.get('search::move_orderer::MVV_LVA_TABLE') if self.prog is not None else None
        if it_ is not None:
            import re as _re
            mm = _re.search(r'\[\[(u8|u16|u32|u64|usize|i8|i16|i32|i64|isize); \d+\]; \d+\]', str(it_.ret))
            if mm:
                from .executor import INT_TYPES
                mw = INT_TYPES[mm.group(1)][0]
        sv['search::move_orderer::MVV_LVA_TABLE'] = tuple(tuple(CI(x & ((1 << mw) - 1), mw) for x in row) for row in t['mvv_lva'])
        if zobrist == 'concrete':
            zp = t['z_pieces']
            pieces = tuple(tuple(tuple(CI(zp[c * 384 + k * 64 + s], 64) for s in range(64)) for k in range(6)) for c in range(2))
            sv['board::zkey::TABLE'] = (pieces, tuple(CI(x, 64) for x in t['z_castling']),
                                        tuple(CI(x, 64) for x in t['z_en_passant']), CI(t['z_white_turn'], 64))
        else:
            B = z3.BitVecSort(64)
            self.uf = {'Tp': z3.Function('Tp', B, B, B, B), 'Tc': z3.Function('Tc', B, B), 'Te': z3.Function('Te', B, B),
                       'Tw': z3.BitVec('Tw', 64)}
            sv['board::zkey::TABLE'] = (UFArr(self.uf['Tp'], 3, dims=(2, 6, 64)), UFArr(self.uf['Tc'], 1, dims=(4,)), UFArr(self.uf['Te'], 1, dims=(8,)), self.uf['Tw'])
            self.stubs.add('Zobrist table: uninterpreted functions Tp(colour,piece,square), Tc(i), Te(file), Tw - result holds for every table')
        self.stubs.add('OnceLock statics: contents taken from a native run of the real initialisers (helper `tables`)')

    # ------------------------------------------------------------ queries
    def decide(self, qid, formulas, kind='bv', note='', timeout=None):
        q = solve.Query(qid, formulas, kind, note)
        solve.decide(q, timeout or self.timeout, self.seed)
        self.solver_time += q.seconds
        self.queries.append({'id': q.qid, 'kind': q.kind, 'verdict': q.verdict, 'solver': q.solver, 'seconds': round(q.seconds, 3),
                             'size_chars': q.size, 'note': q.note})
        if q.verdict == 'unknown':
            self.inconclusive.append('query %s: no verdict within %ss' % (qid, timeout or self.timeout))
        if self.tier == 'thorough' and q.verdict in ('unsat', 'sat') and os.environ.get('VERIF_NO_CVC5') != '1':
            self.cvc5_recheck(q)
        return q

    def witness(self, name, formulas, kind='smt'):
        """vacuity guard: the assumptions together with the path that reaches the assertion must be satisfiable;
        recorded under vacuity_witnesses, not counted as a proof obligation.  Returns True when reachable."""
        qv = self.decide('%s/vacuity' % name, formulas, kind=kind, note='witness: assumptions and the checked path are satisfiable (must be sat)')
        self.queries.pop()
        self.vacuity.append({'harness': name, 'reachable': qv.verdict})
        if qv.verdict != 'sat':
            self.inconclusive.append('%s is vacuous (assumptions + path: %s)' % (name, qv.verdict))
            return False
        return True

    def decide_many(self, common, goals, note='', timeout=None):
        """many small queries sharing the assumptions `common`: one incremental z3 solver, push/pop per goal.
        goals: [(qid, [formulas], note)].  Returns {qid: (verdict, model|None)}."""
        timeout = timeout or self.timeout
        s = z3.Solver()
        s.set('timeout', int(timeout * 1000))
        for f in common:
            if f is not True:
                s.add(zb(f))
        out = {}
        for qid, fs, nt in goals:
            t0 = time.time()
            s.push()
            for f in fs:
                s.add(zb(f))
            r = s.check()
            verdict = 'unsat' if r == z3.unsat else ('sat' if r == z3.sat else 'unknown')
            model = s.model() if r == z3.sat else None
            s.pop()
            dt = time.time() - t0
            self.solver_time += dt
            self.queries.append({'id': qid, 'kind': 'smt-incremental', 'verdict': verdict, 'solver': 'z3 %s (incremental, push/pop)' % z3.get_version_string(),
                                 'seconds': round(dt, 3), 'size_chars': None, 'note': nt or note})
            if verdict == 'unknown':
                self.inconclusive.append('query %s: no verdict within %ss' % (qid, timeout))
            elif self.tier == 'thorough' and os.environ.get('VERIF_CVC5_ALL') == '1':
                q = solve.Query(qid, list(common) + list(fs), 'smt', nt)
                q.verdict = verdict
                self.cvc5_recheck(q)
            out[qid] = (verdict, model)
        return out

    def cvc5_recheck(self, q, timeout=30):
        """second opinion in the thorough tier, inside a time budget per worker process (VERIF_CVC5_BUDGET seconds,
        default 240): queries beyond the budget are counted as skipped, never as agreed"""
        import time
        budget = float(os.environ.get('VERIF_CVC5_BUDGET', '240'))
        spent = self.cvc5.get('seconds', 0.0)
        if spent >= budget:
            self.cvc5['skipped'] = self.cvc5.get('skipped', 0) + 1
            return
        t0 = time.time()
        r = solve.cvc5_check(q, min(timeout, max(1.0, budget - spent)))
        self.cvc5['seconds'] = spent + (time.time() - t0)
        self.cvc5['checked'] += 1
        if r == q.verdict:
            self.cvc5['agree'] += 1
        elif r in ('unknown', 'error'):
            self.cvc5['unknown'] += 1
        else:
            self.inconclusive.append('solver disagreement on %s: z3=%s cvc5=%s' % (q.qid, q.verdict, r))

    # ------------------------------------------------------------ parallel case split
    def sub(self):
        r = Run.__new__(Run)
        r.__dict__.update(self.__dict__)
        for k in ('queries', 'violations', 'known', 'inconclusive', 'notes', 'samples', 'vacuity', 'unwinding'):
            setattr(r, k, [])
        r.functions = {}
        r.stubs = set()
        r.selftest = {'cases': 0, 'mismatches': 0, 'what': []}
        r.exec_stats = {'calls': 0, 'forks': 0, 'merges': 0, 'pruned': 0}
        r.cvc5 = {'checked': 0, 'agree': 0, 'unknown': 0, 'skipped': 0, 'seconds': 0.0}
        r.solver_time = 0.0
        r.extra = {}
        r.is_sub = True
        return r

    def export(self):
        return {'queries': self.queries, 'violations': self.violations, 'known': self.known, 'inconclusive': self.inconclusive,
                'samples': self.samples, 'vacuity': self.vacuity, 'unwinding': self.unwinding, 'functions': self.functions,
                'stubs': sorted(self.stubs), 'selftest': self.selftest, 'exec_stats': self.exec_stats, 'cvc5': self.cvc5,
                'solver_time': self.solver_time, 'extra': self.extra}

    def merge(self, e):
        self.queries += e['queries']
        for v in e['violations']:
            self.violations.append(v)
        for k in e['known']:
            self.known_finding(k)
        self.inconclusive += e['inconclusive']
        self.samples += e['samples']
        self.vacuity += e['vacuity']
        self.unwinding += e['unwinding']
        self.functions.update(e['functions'])
        self.stubs |= set(e['stubs'])
        self.selftest['cases'] += e['selftest']['cases']
        self.selftest['mismatches'] += e['selftest']['mismatches']
        self.selftest['what'] += e['selftest']['what']
        for k in self.exec_stats:
            self.exec_stats[k] += e['exec_stats'].get(k, 0)
        for k in self.cvc5:
            self.cvc5[k] += e['cvc5'].get(k, 0)
        self.solver_time += e['solver_time']
        for k, v in e['extra'].items():
            if isinstance(v, (int, float)) and isinstance(self.extra.get(k, 0), (int, float)):
                self.extra[k] = self.extra.get(k, 0) + v
            else:
                self.extra.setdefault(k, v)

    def parallel(self, fn, items, procs=None):
        """run fn(sub_run, item) for every item in forked workers; merge the results.  Falls back to in-process
        execution when VERIF_PROCS=1."""
        import multiprocessing as mp
        procs = int(os.environ.get('VERIF_PROCS', procs or min(16, os.cpu_count() or 1)))
        global _PAR
        _PAR = (self, fn)
        if procs <= 1 or len(items) <= 1:
            res = [_par_worker(it) for it in items]
        else:
            ctx = mp.get_context('fork')
            with ctx.Pool(procs) as pool:
                res = pool.map(_par_worker, items, chunksize=1)
        for e in res:
            self.merge(e)

    def absorb(self, ex):
        """collect executor statistics / function list"""
        self.functions.update(ex.functions_run)
        for k in self.exec_stats:
            self.exec_stats[k] += ex.stats.get(k, 0)

    def check_obligations(self, ex, label, pre=None, kinds=('panic', 'unwind', 'unreachable')):
        """every recorded panic / unwinding / unreachable obligation must be unsat under the assumptions.
        Returns list of (obligation, query) that are sat."""
        bad = []
        pre = list(pre if pre is not None else ex.pre)
        groups = {}
        for ob in ex.obligations:
            if ob.kind in kinds:
                groups.setdefault((ob.kind, ob.where, ob.msg), []).append(ob)
        for n, ((kind, where, msg), obs) in enumerate(sorted(groups.items(), key=lambda kv: kv[0])):
            g = b_or(*[o.guard for o in obs])
            q = self.decide('%s/%s#%d' % (label, kind, n), pre + [g], kind='bv', note='%s at %s: %s' % (kind, where, msg))
            if kind == 'unwind':
                self.unwinding.append({'where': where, 'bound': ex.loop_bound, 'checked': q.verdict == 'unsat'})
            if q.verdict == 'sat':
                bad.append((obs[0], q))
        return bad

    # ------------------------------------------------------------ findings
    def load_known(self):
        if not os.path.exists(KNOWN_FINDINGS):
            return []
        d = json.load(open(KNOWN_FINDINGS))
        return [e for e in d.get('findings', []) if e.get('property') == self.prop_id and e.get('status') == 'open']

    def violation(self, what, replay_obj):
        os.makedirs(REPLAY_DIR, exist_ok=True)
        path = os.path.join(REPLAY_DIR, '%s-%s%d.json' % (self.prop_id, getattr(self, '_viol_tag', ''), len(self.violations)))
        with open(path, 'w') as f:
            json.dump(replay_obj, f, indent=1, default=str)
        self.violations.append({'what': what, 'replay': path})

    def known_finding(self, what):
        if what not in self.known:
            self.known.append(what)

    # ------------------------------------------------------------ finish
    def finish(self):
        wall = time.time() - self.t0
        n_ob = len(self.queries)
        n_unsat = sum(1 for q in self.queries if q['verdict'] == 'unsat')
        n_sat = sum(1 for q in self.queries if q['verdict'] == 'sat')
        status = 'held'
        if self.inconclusive:
            status = 'inconclusive'
        if self.violations:
            status = 'violated'
        cov = {
            'obligations': n_ob,
            'discharged': n_unsat,
            'sat_queries': n_sat,
            'checker_cmd': './check %s --tier %s' % (self.prop_id, self.tier),
            'trusted_base': [
                'rustc -Zunpretty=mir output is the program that is compiled',
                'mirsym parser/executor and std models (validated by the concrete differential self-test against the native build)',
                'reference specifications written in the harness',
                'z3 %s%s' % (z3.get_version_string(), ' (+cvc5 re-check)' if self.cvc5['checked'] else ''),
            ],
            'explanation': self.extra.pop('explanation', 'see DESIGN.md'),
            'status': status,
            'functions_encoded': [{'name': k, 'mir_sha256_16': v} for k, v in sorted(self.functions.items())],
            'mir_lines': getattr(self, 'mir_lines', None),
            'bounds': self.bounds,
            'outside_bounds': self.outside,
            'stubs': sorted(self.stubs),
            'tables_from_native_run': self.tables is not None,
            'queries': self.queries[:300],
            'queries_total': n_ob,
            'solver_time_s': round(self.solver_time, 2),
            'unwinding': self.unwinding,
            'vacuity_witnesses': self.vacuity,
            'selftest': self.selftest,
            'executor_stats': self.exec_stats,
            'cvc5_recheck': self.cvc5,
            'timings': self.timings,
            'samples': self.samples[:12] if self.samples else [{'note': 'no sample recorded'}],
            'known_findings_reported': self.known,
            'inconclusive': self.inconclusive,
            'violations_detail': self.violations,
        }
        cov.update(self.extra)
        ev = {
            'property_id': self.prop_id,
            'tier': self.tier,
            'seed': self.seed,
            'level': self.level,
            'coverage': cov,
            'assumptions': self.assumptions,
            'wall_s': round(wall, 2),
            'violations': len(self.violations),
        }
        os.makedirs(EVIDENCE_DIR, exist_ok=True)
        with open(os.path.join(EVIDENCE_DIR, self.prop_id + '.json'), 'w') as f:
            json.dump(ev, f, indent=1, default=str)
        for k in self.known:
            print('KNOWN-FINDING: property=%s %s' % (self.prop_id, k))
        for v in self.violations:
            print('VIOLATION property=%s replay=%s' % (self.prop_id, v['replay']))
            print('  ' + v['what'])
        print('%s %s: %s  (%d queries: %d unsat, %d sat; solver %.1fs; wall %.1fs)' % (
            self.prop_id, self.tier, status.upper(), n_ob, n_unsat, n_sat, self.solver_time, wall))
        for r in self.inconclusive[:20]:
            print('  inconclusive: ' + r)
        if self.violations:
            return 1
        if self.inconclusive:
            return 2
        return 0


_PAR = None


def _par_worker(item):
    parent, fn = _PAR
    sub = parent.sub()
    # violations' replay files must not collide between workers
    sub._viol_tag = 'w%d-%d' % (os.getpid(), abs(hash(str(item))) % 100000)
    import signal

    def _alarm(signum, frame):
        raise Inconclusive('case %s exceeded the per-case time limit' % (str(item)[:80],))
    try:
        signal.signal(signal.SIGALRM, _alarm)
        signal.alarm(int(os.environ.get('VERIF_CASE_TIMEOUT', 900 if parent.tier == 'quick' else 5400)))
    except Exception:
        pass
    try:
        fn(sub, item)
    except Unsupported as e:
        sub.inconclusive.append('unsupported construct in case %s: %s' % (str(item)[:80], e))
    except Inconclusive as e:
        sub.inconclusive.append(str(e))
    except Exception as e:
        sub.inconclusive.append('internal error in case %s: %r' % (str(item)[:80], e))
        traceback.print_exc()
    finally:
        try:
            signal.alarm(0)
        except Exception:
            pass
    return sub.export()


def run_check(prop_id, fn, level='proof'):
    """entry point wrapper used by ./check"""
    import argparse
    ap = argparse.ArgumentParser()
    ap.add_argument('--tier', default=None)
    ap.add_argument('--replay', default=None)
    args, _ = ap.parse_known_args(sys.argv[2:])
    run = Run(prop_id, args.tier, None, level)
    try:
        if args.replay:
            rc = fn(run, replay=args.replay)
            return rc if isinstance(rc, int) else 0
        fn(run)
    except Unsupported as e:
        run.inconclusive.append('unsupported construct: %s' % e)
        traceback.print_exc()
    except Inconclusive as e:
        run.inconclusive.append(str(e))
    except native.BuildError as e:
        run.inconclusive.append('build failed: %s' % e)
    except Exception as e:
        run.inconclusive.append('internal error: %r' % e)
        traceback.print_exc()
    return run.finish()
