"""More std models, added after the seeded-change rounds showed that a realistic refactor mostly defeats a check through an
unmodelled std function (DESIGN.md 15, 17).  Everything here is exact on the executor's value domain or raises Unsupported."""
import re
import z3

from . import executor as X
from .values import *
from .models import (model, mk_option, NONE, some, opt_is_some, opt_val, call_under, iter_realise, IterV, StrV, as_str, ok, err,
                     slice_window, struct_eq, _ity)


def _res_is_ok(r):
    if isinstance(r.d, CI):
        return r.d.v == 0
    return lift(z3.simplify(bv(r.d) == 0))


# ------------------------------------------------------------------ Option / Result

@model(r'^std::option::Option::<.*>::and_then::<.*>$')
def _opt_and_then(ctx, o, clos):
    c = opt_is_some(o)
    if c is False:
        return NONE
    r = call_under(ctx, c, clos, [opt_val(o)])
    if r is None:
        return NONE
    pay = dict(r.pay)
    pay.setdefault(0, ())
    return Enum(ite(c, r.d, CI(0, 64)), pay)


@model(r'^std::option::Option::<.*>::unwrap_or_else::<.*>$')
def _opt_unwrap_or_else(ctx, o, clos):
    c = opt_is_some(o)
    if c is True:
        return opt_val(o)
    d = call_under(ctx, b_not(c), clos, [])
    if c is False:
        return d
    return ite(c, opt_val(o), d)


@model(r'^std::option::Option::<.*>::map_or::<.*>$')
def _opt_map_or(ctx, o, dflt, clos):
    c = opt_is_some(o)
    if c is False:
        return dflt
    r = call_under(ctx, c, clos, [opt_val(o)])
    if c is True:
        return r
    return ite(c, r, dflt)


@model(r'^std::option::Option::<.*>::take$')
def _opt_take(ctx, p):
    o = ctx.deref(p)
    ctx.write(p, NONE)
    return o


@model(r'^std::option::Option::<.*>::replace$')
def _opt_replace(ctx, p, v):
    o = ctx.deref(p)
    ctx.write(p, some(v))
    return o


@model(r'^std::option::Option::<.*>::xor$')
def _opt_xor(ctx, a, b):
    ca, cb = opt_is_some(a), opt_is_some(b)
    va, vb = opt_val(a), opt_val(b)
    only_a = b_and(ca, b_not(cb))
    only_b = b_and(cb, b_not(ca))
    if va is None:
        return mk_option(only_b, vb)
    if vb is None:
        return mk_option(only_a, va)
    return mk_option(b_or(only_a, only_b), ite(only_a, va, vb))


@model(r'^std::option::Option::<.*>::zip::<.*>$')
def _opt_zip(ctx, a, b):
    c = b_and(opt_is_some(a), opt_is_some(b))
    if c is False:
        return NONE
    return mk_option(c, (opt_val(a), opt_val(b)))


@model(r'^std::option::Option::<&(mut )?.*>::cloned$')
def _opt_cloned(ctx, o):
    c = opt_is_some(o)
    if c is False:
        return NONE
    return mk_option(c, ctx.deref(opt_val(o)))


@model(r'^std::option::Option::<.*>::as_mut$')
def _opt_as_mut(ctx, p):
    o = ctx.deref(p)
    c = opt_is_some(o)
    if c is False:
        return NONE
    return mk_option(c, Ptr(p.root, p.path + (('v', 1), ('f', 0))))


@model(r'^std::result::Result::<.*>::map::<.*>$')
def _res_map(ctx, r, clos):
    c = _res_is_ok(r)
    if c is False:
        return Enum(r.d, {1: r.pay.get(1, ())})
    v = call_under(ctx, c, clos, [r.pay[0][0]])
    pay = {0: (v,)}
    if 1 in r.pay:
        pay[1] = r.pay[1]
    return Enum(r.d, pay)


@model(r'^std::result::Result::<.*>::and_then::<.*>$')
def _res_and_then(ctx, r, clos):
    c = _res_is_ok(r)
    if c is False:
        return r
    v = call_under(ctx, c, clos, [r.pay[0][0]])
    if v is None:
        return Enum(CI(1, 64), {1: r.pay.get(1, ())})
    if c is True:
        return v
    pay = dict(v.pay)
    if 1 in r.pay and 1 in v.pay:
        pay[1] = tuple(ite(c, a, b) for a, b in zip(v.pay[1], r.pay[1]))
    elif 1 in r.pay:
        pay[1] = r.pay[1]
    return Enum(ite(c, v.d, CI(1, 64)), pay)


@model(r'^std::result::Result::<.*>::unwrap_or_else::<.*>$')
def _res_unwrap_or_else(ctx, r, clos):
    c = _res_is_ok(r)
    if c is True:
        return r.pay[0][0]
    d = call_under(ctx, b_not(c), clos, [r.pay[1][0]])
    if c is False:
        return d
    return ite(c, r.pay[0][0], d)


@model(r'^std::result::Result::<.*>::unwrap_or_default$')
def _res_unwrap_or_default(ctx, r):
    c = _res_is_ok(r)
    if c is True:
        return r.pay[0][0]
    t = re.match(r'^std::result::Result::<(.*)>::unwrap_or_default$', ctx.callee).group(1)
    from .mirparse import split_top
    t = split_top(t)[0].strip()
    rr = ctx.ex.call('<%s as std::default::Default>::default' % t, [], [], t, ctx.st, ctx.where)
    d, ctx.st = rr
    if c is False:
        return d
    return ite(c, r.pay[0][0], d)


@model(r'^std::result::Result::<.*>::err$')
def _res_err(ctx, r):
    c = _res_is_ok(r)
    if c is True or 1 not in r.pay:
        return NONE
    return mk_option(b_not(c), r.pay[1][0])


# ------------------------------------------------------------------ integers

def _w(ctx):
    t = _ity(ctx.callee)
    return t, X.INT_TYPES[t][0], X.INT_TYPES[t][1]


@model(r'^core::num::<impl \w+>::checked_(div|rem)$')
def _checked_div(ctx, a, b):
    t, w, s = _w(ctx)
    ex = ctx.ex
    zero = ex.binop('Eq', b, CI(0, w), t)
    bad = zero
    if s:
        bad = b_or(zero, b_and(ex.binop('Eq', a, CI(1 << (w - 1), w), t), ex.binop('Eq', b, CI((1 << w) - 1, w), t)))
    op = 'Div' if ctx.callee.endswith('div') else 'Rem'
    if is_zint(a) or is_zint(b):
        raise Unsupported('checked_div in integer mode')
    av, bvv = bv(a), bv(b)
    safe_b = z3.If(zb(bad), z3.BitVecVal(1, w), bvv)
    if s:
        r = (av / safe_b) if op == 'Div' else z3.SRem(av, safe_b)
    else:
        r = z3.UDiv(av, safe_b) if op == 'Div' else z3.URem(av, safe_b)
    return mk_option(b_not(bad), simp(r))


@model(r'^core::num::<impl \w+>::wrapping_neg$')
def _wrapping_neg(ctx, a):
    t, w, s = _w(ctx)
    return ctx.ex.binop('Sub', CI(0, w), a, t)


@model(r'^core::num::<impl \w+>::(abs|unsigned_abs)$')
def _abs(ctx, a):
    t, w, s = _w(ctx)
    ex = ctx.ex
    neg = ex.binop('Lt', a, CI(0, w), t)
    if ctx.callee.endswith('::abs'):
        ctx.panic_if(ex.binop('Eq', a, CI(1 << (w - 1), w), t), 'attempt to negate with overflow (abs of MIN)')
    elif z3.is_expr(a) and z3.is_int(a):
        # exact integer mode: the result is of the unsigned type, |MIN| does not wrap
        return z3.If(a < 0, -a, a)
    return ite(neg, ex.binop('Sub', CI(0, w), a, t), a)


@model(r'^core::num::<impl \w+>::signum$')
def _signum(ctx, a):
    t, w, s = _w(ctx)
    ex = ctx.ex
    return ite(ex.binop('Lt', a, CI(0, w), t), CI((1 << w) - 1, w), ite(ex.binop('Eq', a, CI(0, w), t), CI(0, w), CI(1, w)))


@model(r'^core::num::<impl \w+>::abs_diff$')
def _abs_diff(ctx, a, b):
    t, w, s = _w(ctx)
    ex = ctx.ex
    lt = ex.binop('Lt', a, b, t)
    return ite(lt, ex.binop('Sub', b, a, t), ex.binop('Sub', a, b, t))


@model(r'^core::num::<impl \w+>::is_power_of_two$')
def _is_pow2(ctx, a):
    t, w, s = _w(ctx)
    x = bv(a)
    return simp(z3.And(x != 0, (x & (x - 1)) == 0))


@model(r'^core::num::<impl \w+>::rotate_(left|right)$')
def _rotate(ctx, a, n):
    t, w, s = _w(ctx)
    x = bv(a)
    k = bv(n)
    k = z3.URem(k, z3.BitVecVal(w, k.size()))
    k = z3.ZeroExt(w - k.size(), k) if k.size() < w else z3.Extract(w - 1, 0, k)
    return simp(z3.RotateLeft(x, k) if ctx.callee.endswith('left') else z3.RotateRight(x, k))


@model(r'^core::num::<impl \w+>::(leading|trailing)_ones$')
def _ones(ctx, a):
    t, w, s = _w(ctx)
    inv = ctx.ex.unop('Not', a, t, ctx.st)
    name = 'core::num::<impl %s>::%s_zeros' % (t, 'leading' if 'leading' in ctx.callee else 'trailing')
    r = ctx.ex.call(name, [inv], [t], 'u32', ctx.st, ctx.where)
    v, ctx.st = r
    return v


@model(r'^core::num::<impl \w+>::overflowing_(add|sub|mul)$')
def _overflowing(ctx, a, b):
    op = {'add': 'Add', 'sub': 'Sub', 'mul': 'Mul'}[re.search(r'overflowing_(\w+)$', ctx.callee).group(1)]
    r, f = ctx.ex.binop(op + 'WithOverflow', a, b, _ity(ctx.callee))
    return (r, f)


@model(r'^core::num::<impl \w+>::pow$')
def _pow(ctx, a, e):
    t, w, s = _w(ctx)
    if not isinstance(e, CI) or e.v > 16:
        raise Unsupported('pow with a symbolic or large exponent')
    r = CI(1, w)
    for _ in range(e.v):
        r2, f = ctx.ex.binop('MulWithOverflow', r, a, t)
        ctx.panic_if(f, 'attempt to multiply with overflow (pow)')
        r = r2
    return r


@model(r'^<(u8|u16|u32|u64|u128|usize|i8|i16|i32|i64|i128|isize) as std::cmp::Ord>::clamp$')
def _clamp(ctx, a, lo, hi):
    t = re.match(r'^<(\w+) as', ctx.callee).group(1)
    ex = ctx.ex
    ctx.panic_if(ex.binop('Gt', lo, hi, t), 'assertion failed: min <= max')
    return ite(ex.binop('Lt', a, lo, t), lo, ite(ex.binop('Gt', a, hi, t), hi, a))


# ------------------------------------------------------------------ char / u8 classification

def _c32(c):
    return CI(c.v, 32) if isinstance(c, CI) else (bv(c) if bv(c).size() == 32 else z3.ZeroExt(32 - bv(c).size(), bv(c)))


def _between(c, lo, hi):
    if isinstance(c, CI):
        return lo <= c.v <= hi
    x = _c32(c)
    return simp(z3.And(z3.UGE(x, lo), z3.ULE(x, hi)))


@model(r'^((core|std)::char::methods::<impl char>|core::num::<impl u8>)::is_ascii_digit$')
def _is_ascii_digit(ctx, p):
    return _between(ctx.deref(p), 48, 57)


@model(r'^((core|std)::char::methods::<impl char>|core::num::<impl u8>)::is_ascii_lowercase$')
def _is_ascii_lower(ctx, p):
    return _between(ctx.deref(p), 97, 122)


@model(r'^((core|std)::char::methods::<impl char>|core::num::<impl u8>)::is_ascii_uppercase$')
def _is_ascii_upper(ctx, p):
    return _between(ctx.deref(p), 65, 90)


@model(r'^((core|std)::char::methods::<impl char>|core::num::<impl u8>)::is_ascii_alphabetic$')
def _is_ascii_alpha(ctx, p):
    c = ctx.deref(p)
    return b_or(_between(c, 97, 122), _between(c, 65, 90))


@model(r'^((core|std)::char::methods::<impl char>|core::num::<impl u8>)::is_ascii$')
def _is_ascii(ctx, p):
    return _between(ctx.deref(p), 0, 127)


@model(r'^((core|std)::char::methods::<impl char>|core::num::<impl u8>)::to_ascii_(lower|upper)case$')
def _to_ascii_case(ctx, p):
    c = ctx.deref(p)
    lower = ctx.callee.endswith('lowercase')
    w = 8 if 'impl u8' in ctx.callee else 32
    if isinstance(c, CI):
        ch = chr(c.v)
        return CI(ord(ch.lower() if lower else ch.upper()) if c.v < 128 else c.v, w)
    x = bv(c)
    if lower:
        return simp(z3.If(z3.And(z3.UGE(x, 65), z3.ULE(x, 90)), x + 32, x))
    return simp(z3.If(z3.And(z3.UGE(x, 97), z3.ULE(x, 122)), x - 32, x))


@model(r'^(core|std)::char::methods::<impl char>::to_digit$')
def _to_digit(ctx, c, radix):
    if not (isinstance(radix, CI) and radix.v == 10):
        raise Unsupported('to_digit with radix other than 10')
    if isinstance(c, CI):
        return some(CI(c.v - 48, 32)) if 48 <= c.v <= 57 else NONE
    x = bv(c)
    return mk_option(simp(z3.And(z3.UGE(x, 48), z3.ULE(x, 57))), simp(x - 48))


# ------------------------------------------------------------------ iterators

def _ents(ctx, it):
    if not isinstance(it, IterV):
        raise Unsupported('iterator adaptor on %r' % (it,))
    return iter_realise(ctx, it)


def _as_iter(ctx, b):
    """IntoIterator argument of zip / chain / extend as an IterV"""
    if isinstance(b, IterV):
        return b
    if isinstance(b, Seq):
        return IterV(b.ents)
    if isinstance(b, Enum) and set(b.pay) <= {0, 1}:
        c = opt_is_some(b)
        return IterV(()) if c is False else IterV(((c, opt_val(b)),))
    if isinstance(b, tuple) and len(b) == 1 and is_int(b[0]):
        return ('range_from', b[0])            # `(k..)`: unbounded; only meaningful zipped with something finite
    if isinstance(b, tuple):
        return IterV(tuple((True, x) for x in b))
    if isinstance(b, (Ptr, PtrIte)):
        from .models import _entries_of_slice
        return IterV(_entries_of_slice(ctx, b, True))
    raise Unsupported('IntoIterator argument %r' % (b,))


@model(r'^<.* as std::convert::AsRef<.*>>::as_ref$')
def _as_ref_identity(ctx, p):
    m = re.match(r'^<(.*) as std::convert::AsRef<(.*)>>::as_ref$', ctx.callee)
    a, b = m.group(1).strip(), m.group(2).strip()
    if a == b or (a, b) in (('std::string::String', 'str'), ('std::vec::Vec<u8>', '[u8]'), ('str', '[u8]'), ('std::string::String', '[u8]')) or a.startswith('std::vec::Vec<') and b.startswith('['):
        if b == '[u8]' and a in ('str', 'std::string::String'):
            from .models import _str_as_bytes
            return _str_as_bytes(ctx, p)
        return p
    return X.NOT_HANDLED


@model(r'^<.* as std::iter::Iterator>::take$')
def _iter_take(ctx, it, n):
    ents = _ents(ctx, it)
    if isinstance(n, CI) and all(g is True for g, _ in ents):
        return IterV(ents[:n.v])
    if not all(g is True for g, _ in ents):
        raise Unsupported('take over a sparse iterator')
    ex = ctx.ex
    return IterV(tuple((ex.binop('Lt', CI(k, 64), n, 'usize'), v) for k, (g, v) in enumerate(ents)))


@model(r'^<.* as std::iter::(Iterator|DoubleEndedIterator)>::rev$')
def _iter_rev(ctx, it):
    if isinstance(it, IterV):
        return IterV(tuple(reversed(_ents(ctx, it))))
    return X.NOT_HANDLED


@model(r'^<.* as std::iter::Iterator>::zip::<.*>$')
def _iter_zip(ctx, a, b):
    ia, ib = _as_iter(ctx, a), _as_iter(ctx, b)

    def counting(start, m):
        w = start.w if isinstance(start, CI) else bv(start).size()
        return [(True, CI(start.v + k, w) if isinstance(start, CI) else simp(bv(start) + k)) for k in range(m)]
    if isinstance(ia, tuple) and isinstance(ib, tuple):
        raise Unsupported('zip of two unbounded ranges')
    if isinstance(ia, tuple):
        eb = _ents(ctx, ib)
        ea = counting(ia[1], len(eb))
    elif isinstance(ib, tuple):
        ea = _ents(ctx, ia)
        eb = counting(ib[1], len(ea))
    else:
        ea, eb = _ents(ctx, ia), _ents(ctx, ib)
    if not (all(g is True for g, _ in ea) and all(g is True for g, _ in eb)):
        raise Unsupported('zip over sparse iterators')
    return IterV(tuple((True, (x[1], y[1])) for x, y in zip(ea, eb)))


@model(r'^<.* as std::iter::Iterator>::chain::<.*>$')
def _iter_chain(ctx, a, b):
    return IterV(tuple(_ents(ctx, a)) + tuple(_ents(ctx, _as_iter(ctx, b))))


@model(r'^<.* as std::iter::Iterator>::(copied|cloned)::<.*>$')
def _iter_copied(ctx, it):
    return IterV(tuple((g, ctx.deref(v) if isinstance(v, (Ptr, PtrIte)) else v) for g, v in _ents(ctx, it)))


@model(r'^<.* as std::iter::Iterator>::all::<.*>$')
def _iter_all(ctx, p, clos):
    it = ctx.deref(p)
    res = []
    for g, v in _ents(ctx, it):
        r = call_under(ctx, g, clos, [v])
        res.append(b_or(b_not(g), r) if r is not None else b_not(g))
    return b_and(*res) if res else True


@model(r'^<.* as std::iter::Iterator>::count$')
def _iter_count(ctx, it):
    ents = _ents(ctx, it)
    if all(g is True for g, _ in ents):
        return CI(len(ents), 64)
    tot = z3.BitVecVal(0, 64)
    for g, _ in ents:
        tot = tot + z3.If(zb(g), z3.BitVecVal(1, 64), z3.BitVecVal(0, 64))
    return simp(tot)


@model(r'^<.* as std::iter::Iterator>::last$')
def _iter_last(ctx, it):
    ents = _ents(ctx, it)
    out = NONE
    for g, v in ents:
        out = some(v) if g is True else ite(g, some(v), out)
    return out


@model(r'^<.* as std::iter::Iterator>::nth$')
def _iter_nth(ctx, p, n):
    it = ctx.deref(p)
    ents = _ents(ctx, it)
    if not all(g is True for g, _ in ents):
        raise Unsupported('nth over a sparse iterator')
    if isinstance(n, CI):
        ctx.write(p, IterV(ents[n.v + 1:]))
        return some(ents[n.v][1]) if n.v < len(ents) else NONE
    raise Unsupported('nth with a symbolic index')


@model(r'^<.* as std::iter::Iterator>::fold::<.*>$')
def _iter_fold(ctx, it, init, clos):
    acc = init
    for g, v in _ents(ctx, it):
        r = call_under(ctx, g, clos, [acc, v])
        if r is None:
            # the closure diverges (panics) whenever it is called here: unconditionally => the fold diverges; under a guard =>
            # those paths are gone (call_under has removed them from the state) and the accumulator is unchanged on the rest
            if g is True:
                return X.DIVERGE
            continue
        acc = r if g is True else ite(g, r, acc)
    return acc


@model(r'^<.* as std::iter::Iterator>::for_each::<.*>$')
def _iter_for_each(ctx, it, clos):
    for g, v in _ents(ctx, it):
        call_under(ctx, g, clos, [v])
    return UNIT


@model(r'^<.* as std::iter::Iterator>::sum::<(\w+)>$')
def _iter_sum(ctx, it):
    t = re.search(r'sum::<(\w+)>$', ctx.callee).group(1)
    w = X.INT_TYPES[t][0]
    acc = CI(0, w)
    for g, v in _ents(ctx, it):
        if isinstance(v, (Ptr, PtrIte)):
            v = ctx.deref(v)
        r, f = ctx.ex.binop('AddWithOverflow', acc, v, t)
        ctx.panic_if(b_and(g, f), 'attempt to add with overflow (sum)')
        acc = r if g is True else ite(g, r, acc)
    return acc


@model(r'^<.* as std::iter::Iterator>::(max|min)$')
def _iter_maxmin(ctx, it):
    ents = _ents(ctx, it)
    if not ents:
        return NONE
    ismax = ctx.callee.endswith('max')
    have = False
    best = None
    for g, v in ents:
        if isinstance(v, (Ptr, PtrIte)):
            raise Unsupported('max/min over references')
        if not is_int(v):
            raise Unsupported('max/min over non-integers')
        t = 'u%d' % (v.w if isinstance(v, CI) else bv(v).size())
        if best is None:
            best, have = v, g
            continue
        better = ctx.ex.binop('Ge' if ismax else 'Lt', v, best, t)      # max keeps the last of equals, min the first
        take = b_and(g, b_or(b_not(have), better))
        best = ite(take, v, best)
        have = b_or(have, g)
    return mk_option(have, best)


@model(r'^<.* as std::iter::Iterator>::filter_map::<.*>$')
def _iter_filter_map(ctx, it, clos):
    out = []
    for g, v in _ents(ctx, it):
        r = call_under(ctx, g, clos, [v])
        if r is None:
            continue
        c = opt_is_some(r)
        if c is False:
            continue
        out.append((b_and(g, c), opt_val(r)))
    return IterV(tuple(out))


@model(r'^<.* as std::iter::Iterator>::find_map::<.*>$')
def _iter_find_map(ctx, p, clos):
    it = ctx.deref(p)
    conds = []
    for g, v in _ents(ctx, it):
        r = call_under(ctx, g, clos, [v])
        if r is None:
            continue
        c = opt_is_some(r)
        if c is False:
            continue
        conds.append((b_and(g, c), opt_val(r)))
    out = NONE
    for c, v in reversed(conds):
        out = some(v) if c is True else ite(c, some(v), out)
    return out


@model(r'^<.* as std::iter::Iterator>::take_while::<.*>$')
def _iter_take_while(ctx, it, clos):
    out = []
    alive = True
    for g, v in _ents(ctx, it):
        pv = ctx.ex.alloc(ctx.st, v)
        r = call_under(ctx, b_and(g, alive), clos, [pv])
        keep = b_or(b_not(g), r) if r is not None else b_not(g)        # an absent entry does not stop the run
        alive = b_and(alive, keep)
        out.append((b_and(g, alive), v))
    return IterV(tuple(out))


@model(r'^<.* as std::iter::Iterator>::skip_while::<.*>$')
def _iter_skip_while(ctx, it, clos):
    out = []
    started = False
    for g, v in _ents(ctx, it):
        pv = ctx.ex.alloc(ctx.st, v)
        r = call_under(ctx, b_and(g, b_not(started)), clos, [pv])
        stop = b_and(g, b_not(r)) if r is not None else False
        started = b_or(started, stop)
        out.append((b_and(g, started), v))
    return IterV(tuple(out))


# ------------------------------------------------------------------ slices

@model(r'^core::slice::<impl \[.*\]>::split_at(_mut)?$')
def _split_at(ctx, p, mid):
    ex = ctx.ex
    n = ex.slice_len(p, ctx.st)
    if not ctx.panic_if(ex.binop('Gt', mid, n, 'usize'), 'mid > len'):
        return X.DIVERGE
    base = p.rng[0] if p.rng is not None else CI(0, 64)
    end = p.rng[1] if p.rng is not None else n
    m = ex.binop('Add', base, mid, 'usize')
    return (Ptr(p.root, p.path, (base, m)), Ptr(p.root, p.path, (m, end)))


@model(r'^core::slice::<impl \[.*\]>::split_(first|last)$')
def _split_first(ctx, p):
    if isinstance(p, Ptr) and p.rng is not None and not (isinstance(p.rng[0], CI) and isinstance(p.rng[1], CI)):
        # window with symbolic bounds: the element at the (symbolic) edge and the window shrunk by one
        ex = ctx.ex
        a, b = p.rng
        nonempty = ex.binop('Lt', a, b, 'usize')
        if ctx.callee.endswith('first'):
            val = (Ptr(p.root, p.path + (('i', a),)), Ptr(p.root, p.path, (ex.binop('Add', a, CI(1, 64), 'usize'), b)))
        else:
            b1 = ex.binop('Sub', b, CI(1, 64), 'usize') if nonempty is not False else b
            val = (Ptr(p.root, p.path + (('i', b1),)), Ptr(p.root, p.path, (a, b1)))
        return mk_option(nonempty, val)
    s, a, b = slice_window(ctx, p)
    if not s.dense():
        raise Unsupported('split_first on a sparse sequence')
    if b == a:
        return NONE
    if ctx.callee.endswith('first'):
        return some((Ptr(p.root, p.path + (('i', CI(a, 64)),)), Ptr(p.root, p.path, (CI(a + 1, 64), CI(b, 64)))))
    return some((Ptr(p.root, p.path + (('i', CI(b - 1, 64)),)), Ptr(p.root, p.path, (CI(a, 64), CI(b - 1, 64)))))


@model(r'^core::slice::<impl \[.*\]>::ends_with$')
def _ends_with(ctx, p, q):
    s, a, b = slice_window(ctx, p)
    t, c, d = slice_window(ctx, q)
    if not (s.dense() and t.dense()):
        raise Unsupported('ends_with on a sparse sequence')
    if d - c > b - a:
        return False
    off = (b - a) - (d - c)
    return b_and(*[struct_eq(ctx, s.ents[a + off + k][1], t.ents[c + k][1]) for k in range(d - c)])


@model(r'^core::slice::<impl \[.*\]>::get::<std::ops::Range(From|To)?<usize>>$')
def _slice_get_range(ctx, p, r):
    ex = ctx.ex
    n = ex.slice_len(p, ctx.st)
    kind = re.search(r'get::<std::ops::(Range\w*)<usize>>$', ctx.callee).group(1)
    if kind == 'Range':
        start, end = r[0], r[1]
    elif kind == 'RangeFrom':
        start, end = r[0], n
    else:
        start, end = CI(0, 64), r[0]
    okc = b_and(ex.binop('Le', start, end, 'usize'), ex.binop('Le', end, n, 'usize'))
    base = p.rng[0] if p.rng is not None else CI(0, 64)
    return mk_option(okc, Ptr(p.root, p.path, (ex.binop('Add', base, start, 'usize'), ex.binop('Add', base, end, 'usize'))))


@model(r'^core::slice::<impl \[.*\]>::fill$')
def _slice_fill(ctx, p, v):
    s, a, b = slice_window(ctx, p)
    if isinstance(ctx.deref(p), tuple):
        old = list(ctx.deref(p))
        for k in range(a, b):
            old[k] = v
        ctx.write(Ptr(p.root, p.path), tuple(old))
        return UNIT
    if not s.dense():
        raise Unsupported('fill on a sparse sequence')
    ents = list(s.ents)
    for k in range(a, b):
        ents[k] = (True, v)
    ctx.write(Ptr(p.root, p.path), Seq(tuple(ents)))
    return UNIT


# ------------------------------------------------------------------ strings (concrete StrV only; abstract strings keep their own hooks)

def _lit(ctx, s):
    s = as_str(ctx, s)
    if not isinstance(s, StrV):
        raise Unsupported('string operation on %r' % (s,))
    return s.s


@model(r'^core::str::<impl str>::len$')
def _str_len(ctx, s):
    s = as_str(ctx, s)
    if hasattr(s, 'len_model'):
        return s.len_model(ctx)
    if hasattr(s, 'ents') and all(g is True for g, _ in s.ents):
        return CI(len(s.ents), 64)
    if hasattr(s, 'chars') and isinstance(s.chars, list):
        return CI(len(s.chars), 64)
    return CI(len(_lit(ctx, s).encode()), 64)


@model(r'^std::string::String::len$')
def _string_len(ctx, p):
    return _str_len(ctx, p)


@model(r'^core::str::<impl str>::starts_with::<&str>$')
def _str_starts_with(ctx, s, pat):
    s = as_str(ctx, s)
    if hasattr(s, 'starts_with_model'):
        return s.starts_with_model(ctx, pat)
    return _lit(ctx, s).startswith(_lit(ctx, pat))


@model(r'^core::str::<impl str>::ends_with::<&str>$')
def _str_ends_with(ctx, s, pat):
    return _lit(ctx, s).endswith(_lit(ctx, pat))


@model(r'^core::str::<impl str>::contains::<&str>$')
def _str_contains(ctx, s, pat):
    return _lit(ctx, pat) in _lit(ctx, s)


@model(r'^core::str::<impl str>::trim$')
def _str_trim(ctx, s):
    s = as_str(ctx, s)
    if hasattr(s, 'trim_model'):
        return s.trim_model(ctx)
    return StrV(_lit(ctx, s).strip())


@model(r'^core::str::<impl str>::eq_ignore_ascii_case$')
def _str_eq_ic(ctx, a, b):
    return _lit(ctx, a).lower() == _lit(ctx, b).lower()


@model(r'^std::str::<impl str>::to_uppercase$')
def _str_upper(ctx, s):
    return StrV(_lit(ctx, s).upper())


@model(r'^core::num::<impl \w+>::saturating_mul$')
def _saturating_mul(ctx, a, b):
    t, w, s = _w(ctx)
    hi = (1 << (w - 1)) - 1 if s else (1 << w) - 1
    lo = -(1 << (w - 1)) if s else 0
    if is_zint(a) or is_zint(b):
        p = ctx.ex.to_zint(a, t) * ctx.ex.to_zint(b, t)
        return z3.If(p > hi, z3.IntVal(hi), z3.If(p < lo, z3.IntVal(lo), p))
    if isinstance(a, CI) and isinstance(b, CI):
        sa = a.v - (1 << w) if s and a.v >> (w - 1) else a.v
        sb = b.v - (1 << w) if s and b.v >> (w - 1) else b.v
        return CI(max(lo, min(hi, sa * sb)) & ((1 << w) - 1), w)
    ext = z3.SignExt if s else z3.ZeroExt
    p = ext(w, bv(a)) * ext(w, bv(b))
    H, L = z3.BitVecVal(hi & ((1 << (2 * w)) - 1), 2 * w), z3.BitVecVal(lo & ((1 << (2 * w)) - 1), 2 * w)
    if s:
        r = z3.If(p > H, H, z3.If(p < L, L, p))
    else:
        r = z3.If(z3.UGT(p, H), H, p)
    return simp(z3.Extract(w - 1, 0, r))


@model(r'^core::bool::<impl bool>::then_some::<.*>$')
def _bool_then_some(ctx, b, v):
    if b is True:
        return some(v)
    if b is False:
        return NONE
    return mk_option(b, v)


@model(r'^core::bool::<impl bool>::then::<.*>$')
def _bool_then(ctx, b, clos):
    if b is False:
        return NONE
    v = call_under(ctx, b, clos, [])
    if v is None:
        return NONE
    return mk_option(b, v)


# ------------------------------------------------------------------ more slice / Vec / iterator operations (dense sequences)

def _dense(ctx, p, what):
    s, a, b = slice_window(ctx, p)
    if not s.dense():
        raise Unsupported('%s on a sparse sequence' % what)
    return s, a, b


@model(r'^core::slice::<impl \[.*\]>::windows$')
def _slice_windows(ctx, p, n):
    s, a, b = _dense(ctx, p, 'windows')
    if not isinstance(n, CI) or n.v == 0:
        raise Unsupported('windows with a symbolic or zero size')
    return IterV(tuple((True, Ptr(p.root, p.path, (CI(k, 64), CI(k + n.v, 64)))) for k in range(a, b - n.v + 1)))


@model(r'^core::slice::<impl \[.*\]>::chunks(_exact)?$')
def _slice_chunks(ctx, p, n):
    s, a, b = _dense(ctx, p, 'chunks')
    if not isinstance(n, CI) or n.v == 0:
        raise Unsupported('chunks with a symbolic or zero size')
    out = []
    k = a
    exact = ctx.callee.endswith('_exact')
    while k < b:
        e = min(k + n.v, b)
        if exact and e - k < n.v:
            break
        out.append((True, Ptr(p.root, p.path, (CI(k, 64), CI(e, 64)))))
        k = e
    return IterV(tuple(out))


@model(r'^<std::slice::(Windows|Chunks|ChunksExact)<.*> as std::iter::Iterator>::next$')
def _windows_next(ctx, p):
    from .models import _iter_next
    return _iter_next(ctx, p)


@model(r'^core::slice::<impl \[.*\]>::copy_from_slice$')
def _copy_from_slice(ctx, p, q):
    s, a, b = _dense(ctx, p, 'copy_from_slice')
    t, c, d = _dense(ctx, q, 'copy_from_slice')
    if b - a != d - c:
        ctx.panic_if(True, 'source slice length does not match destination slice length')
        return X.DIVERGE
    whole = ctx.deref(Ptr(p.root, p.path))
    ents = list(s.ents)
    for k in range(b - a):
        ents[a + k] = (True, t.ents[c + k][1])
    ctx.write(Ptr(p.root, p.path), tuple(v for _, v in ents) if isinstance(whole, tuple) else Seq(tuple(ents)))
    return UNIT


@model(r'^core::slice::<impl \[.*\]>::first_mut$')
def _slice_first_mut(ctx, p):
    s, a, b = _dense(ctx, p, 'first_mut')
    if a == b:
        return NONE
    return some(Ptr(p.root, p.path + (('i', CI(a, 64)),)))


@model(r'^std::vec::Vec::<.*>::insert$')
def _vec_insert(ctx, p, idx, v):
    s = ctx.deref(p)
    if not (isinstance(s, Seq) and s.dense() and isinstance(idx, CI)):
        raise Unsupported('Vec::insert on a sparse sequence / symbolic index')
    if idx.v > len(s.ents):
        ctx.panic_if(True, 'insertion index out of bounds')
        return X.DIVERGE
    ctx.write(p, Seq(s.ents[:idx.v] + ((True, v),) + s.ents[idx.v:]))
    return UNIT


@model(r'^std::vec::Vec::<.*>::truncate$')
def _vec_truncate(ctx, p, n):
    s = ctx.deref(p)
    if not (isinstance(s, Seq) and s.dense() and isinstance(n, CI)):
        raise Unsupported('Vec::truncate on a sparse sequence / symbolic length')
    ctx.write(p, Seq(s.ents[:n.v]))
    return UNIT


@model(r'^std::vec::Vec::<.*>::clear$')
def _vec_clear(ctx, p):
    s = ctx.deref(p)
    if not isinstance(s, Seq):
        raise Unsupported('Vec::clear on %r' % (s,))
    ctx.write(p, Seq(()))
    return UNIT


@model(r'^std::vec::Vec::<.*>::extend_from_slice$')
def _vec_extend_from_slice(ctx, p, q):
    s = ctx.deref(p)
    t, c, d = slice_window(ctx, q)
    if not isinstance(s, Seq):
        raise Unsupported('extend_from_slice on %r' % (s,))
    ctx.write(p, Seq(s.ents + t.ents[c:d]))
    return UNIT


@model(r'^std::vec::Vec::<.*>::swap_remove$')
def _vec_swap_remove(ctx, p, idx):
    s = ctx.deref(p)
    if not (isinstance(s, Seq) and s.dense() and isinstance(idx, CI)):
        raise Unsupported('Vec::swap_remove on a sparse sequence / symbolic index')
    if idx.v >= len(s.ents):
        ctx.panic_if(True, 'swap_remove index out of bounds')
        return X.DIVERGE
    ents = list(s.ents)
    v = ents[idx.v][1]
    ents[idx.v] = ents[-1]
    ctx.write(p, Seq(tuple(ents[:-1])))
    return v


def _keyed_extreme(ctx, it, clos, want_max):
    """max_by_key / min_by_key over integer keys (max keeps the last of equal keys, min the first)"""
    have, best, bestk = False, None, None
    for g, v in _ents(ctx, it):
        pv = ctx.ex.alloc(ctx.st, v)
        k = call_under(ctx, g, clos, [pv])
        if k is None:
            continue
        if not is_int(k):
            raise Unsupported('max_by_key / min_by_key with a non-integer key')
        if best is None:
            best, bestk, have = v, k, g
            continue
        wk = k.w if isinstance(k, CI) else bv(k).size()
        signed = False
        t = ('i%d' if signed else 'u%d') % wk
        better = ctx.ex.binop('Ge' if want_max else 'Lt', k, bestk, t)
        take = b_and(g, b_or(b_not(have), better))
        best = ite(take, v, best)
        bestk = ite(take, k, bestk)
        have = b_or(have, g)
    if best is None:
        return NONE
    return mk_option(have, best)


@model(r'^<.* as std::iter::Iterator>::max_by_key::<.*>$')
def _iter_max_by_key(ctx, it, clos):
    t = re.search(r'max_by_key::<(\w+),', ctx.callee)
    if t and t.group(1).startswith('i'):
        raise Unsupported('max_by_key with a signed key')
    return _keyed_extreme(ctx, it, clos, True)


@model(r'^<.* as std::iter::Iterator>::min_by_key::<.*>$')
def _iter_min_by_key(ctx, it, clos):
    t = re.search(r'min_by_key::<(\w+),', ctx.callee)
    if t and t.group(1).startswith('i'):
        raise Unsupported('min_by_key with a signed key')
    return _keyed_extreme(ctx, it, clos, False)


@model(r'^core::num::<impl \w+>::(rem|div)_euclid$')
def _euclid(ctx, a, b):
    t, w, s = _w(ctx)
    if is_zint(a) or is_zint(b):
        raise Unsupported('euclidean division in integer mode')
    ex = ctx.ex
    ctx.panic_if(ex.binop('Eq', b, CI(0, w), t), 'attempt to divide by zero')
    av, bvv = bv(a), bv(b)
    safe = z3.If(bvv == 0, z3.BitVecVal(1, w), bvv)
    if not s:
        return simp(z3.URem(av, safe) if 'rem' in ctx.callee else z3.UDiv(av, safe))
    ctx.panic_if(b_and(ex.binop('Eq', a, CI(1 << (w - 1), w), t), ex.binop('Eq', b, CI((1 << w) - 1, w), t)), 'attempt to divide with overflow')
    r = z3.SRem(av, safe)
    q = av / safe
    neg = r < 0
    r2 = z3.If(neg, z3.If(safe > 0, r + safe, r - safe), r)
    q2 = z3.If(neg, z3.If(safe > 0, q - 1, q + 1), q)
    return simp(r2 if 'rem' in ctx.callee else q2)



# ------------------------------------------------------------------ operators and comparisons through references

_INTS = r'(u8|u16|u32|u64|u128|usize|i8|i16|i32|i64|i128|isize)'


def _deref_all(ctx, v):
    while isinstance(v, (Ptr, PtrIte)):
        v = ctx.deref(v)
    return v


@model(r'^<&*' + _INTS + r' as std::ops::(Add|Sub|Mul|Div|Rem|BitAnd|BitOr|BitXor|Shl|Shr)<&*' + _INTS + r'>>::\w+$')
def _ref_arith(ctx, a, b):
    m = re.match(r'^<&*(\w+) as std::ops::(\w+)<&*(\w+)>>', ctx.callee)
    t, op, t2 = m.group(1), m.group(2), m.group(3)
    a, b = _deref_all(ctx, a), _deref_all(ctx, b)
    ex = ctx.ex
    w = X.INT_TYPES[t][0]
    if op in ('Add', 'Sub', 'Mul'):
        r, f = ex.binop(op + 'WithOverflow', a, b, t)
        if not ctx.panic_if(f, 'attempt to %s with overflow' % op.lower()):
            return X.DIVERGE
        return r
    if op in ('Div', 'Rem'):
        if not ctx.panic_if(ex.binop('Eq', b, CI(0, w), t), 'attempt to divide by zero'):
            return X.DIVERGE
        return ex.binop(op, a, b, t)
    if op in ('Shl', 'Shr'):
        w2 = X.INT_TYPES[t2][0]
        if not ctx.panic_if(ex.binop('Ge', b, CI(w, w2), t2), 'attempt to shift with overflow'):
            return X.DIVERGE
        return ex.binop(op, a, b, t, t2)
    return ex.binop(op, a, b, t)


@model(r'^<&+.* as std::cmp::PartialOrd(<.*>)?>::(lt|le|gt|ge)$')
def _ref_partial_ord(ctx, a, b):
    a, b = _deref_all(ctx, a), _deref_all(ctx, b)
    if not (is_int(a) and is_int(b)):
        return X.NOT_HANDLED
    t = re.match(r'^<&+(\w+)', ctx.callee)
    t = t.group(1) if t and t.group(1) in X.INT_TYPES else None
    if t is None:
        return X.NOT_HANDLED
    op = {'lt': 'Lt', 'le': 'Le', 'gt': 'Gt', 'ge': 'Ge'}[ctx.callee.rsplit('::', 1)[1]]
    return ctx.ex.binop(op, a, b, t)


@model(r'^<\[.*; \d+\] as std::ops::Index(Mut)?<std::ops::Range(From|To|Inclusive|ToInclusive|Full)?(<usize>)?>>::index(_mut)?$')
def _array_index_range(ctx, p, r):
    return _index_range_any(ctx, p, r)


@model(r'^<(\[.*\]|std::vec::Vec<.*>) as std::ops::Index(Mut)?<std::ops::Range(To|Inclusive|ToInclusive|Full)(<usize>)?>>::index(_mut)?$')
def _slice_index_range_more(ctx, p, r):
    return _index_range_any(ctx, p, r)


@model(r'^<(\[.*\]|std::vec::Vec<.*>) as std::ops::IndexMut<std::ops::Range(From)?<usize>>>::index_mut$')
def _slice_index_mut_range(ctx, p, r):
    return _index_range_any(ctx, p, r)


def _index_range_any(ctx, p, r):
    ex = ctx.ex
    n = ex.slice_len(p, ctx.st)
    kind = re.search(r'std::ops::(Range\w*)', ctx.callee).group(1)
    one = CI(1, 64)
    if kind == 'Range':
        start, end = r[0], r[1]
    elif kind == 'RangeFrom':
        start, end = r[0], n
    elif kind == 'RangeTo':
        start, end = CI(0, 64), r[0]
    elif kind == 'RangeFull':
        start, end = CI(0, 64), n
    elif kind == 'RangeToInclusive':
        start, end = CI(0, 64), ex.binop('Add', r[0], one, 'usize')
    else:       # RangeInclusive: ('incl', start, end, exhausted)
        start, end = r[1], ex.binop('Add', r[2], one, 'usize')
    bad = b_or(ex.binop('Gt', start, end, 'usize'), ex.binop('Gt', end, n, 'usize'))
    if not ctx.panic_if(bad, 'slice range out of bounds'):
        return X.DIVERGE
    base = p.rng[0] if p.rng is not None else CI(0, 64)
    return Ptr(p.root, p.path, (ex.binop('Add', base, start, 'usize'), ex.binop('Add', base, end, 'usize')))


@model(r'^std::result::Result::<.*>::map_or::<.*>$')
def _res_map_or(ctx, r, dflt, clos):
    c = _res_is_ok(r)
    if c is False:
        return dflt
    v = call_under(ctx, c, clos, [r.pay[0][0]])
    if c is True:
        return v
    return ite(c, v, dflt)


@model(r'^std::result::Result::<.*>::map_or_else::<.*>$')
def _res_map_or_else(ctx, r, dclos, clos):
    c = _res_is_ok(r)
    v = call_under(ctx, c, clos, [r.pay[0][0]]) if c is not False else None
    d = call_under(ctx, b_not(c), dclos, [r.pay[1][0]]) if c is not True else None
    if c is True:
        return v
    if c is False:
        return d
    return ite(c, v, d)


@model(r'^std::string::String::as_bytes$')
def _string_as_bytes(ctx, p):
    from .models import _str_as_bytes
    return _str_as_bytes(ctx, p)


@model(r'^std::string::String::(bytes|chars)$')
def _string_bytes_chars(ctx, p):
    from .models import _str_bytes, _str_chars
    return _str_bytes(ctx, p) if ctx.callee.endswith('bytes') else _str_chars(ctx, p)


# ------------------------------------------------------------------ Option / array chunks as iterators, catch-all next()

@model(r'^<std::option::Option<.*> as std::iter::IntoIterator>::into_iter$')
def _opt_into_iter(ctx, o):
    c = opt_is_some(o)
    if c is False:
        return IterV(())
    return IterV(((c, opt_val(o)),))


@model(r'^std::option::Option::<.*>::(iter|iter_mut)$')
def _opt_iter(ctx, p):
    o = ctx.deref(p)
    c = opt_is_some(o)
    if c is False:
        return IterV(())
    return IterV(((c, Ptr(p.root, p.path + (('v', 1), ('f', 0)))),))


@model(r'^<.* as std::iter::Iterator>::next$')
def _any_iter_next(ctx, p):
    """any iterator type whose value in the executor is an IterV (adaptor results keep that representation)"""
    try:
        it = ctx.deref(p)
    except Exception:
        return X.NOT_HANDLED
    if not isinstance(it, IterV):
        return X.NOT_HANDLED
    from .models import _iter_next
    if it.stages:
        ctx.write(p, IterV(tuple(iter_realise(ctx, it))))
    return _iter_next(ctx, p)


@model(r'^<.* as std::iter::Iterator>::(flatten|fuse|peekable|by_ref)$')
def _iter_identityish(ctx, it):
    if ctx.callee.endswith('flatten'):
        out = []
        for g, v in _ents(ctx, it):
            if isinstance(v, Enum) and set(v.pay) <= {0, 1}:
                c = opt_is_some(v)
                if c is not False:
                    out.append((b_and(g, c), opt_val(v)))
            elif isinstance(v, Seq):
                out += [(b_and(g, g2), v2) for g2, v2 in v.ents]
            elif isinstance(v, IterV):
                out += [(b_and(g, g2), v2) for g2, v2 in iter_realise(ctx, v)]
            elif isinstance(v, tuple):
                out += [(g, x) for x in v]
            elif isinstance(v, (Ptr, PtrIte)):
                from .models import _entries_of_slice
                out += [(b_and(g, g2), v2) for g2, v2 in _entries_of_slice(ctx, v, True)]
            else:
                raise Unsupported('flatten over %r' % (v,))
        return IterV(tuple(out))
    if ctx.callee.endswith('by_ref'):
        return it
    if isinstance(it, IterV) and not ctx.callee.endswith('peekable'):
        return it
    return X.NOT_HANDLED


@model(r'^core::slice::<impl \[.*\]>::(split_first_chunk|first_chunk)::<(\d+)>$')
def _first_chunk(ctx, p):
    n = int(re.search(r'::<(\d+)>$', ctx.callee).group(1))
    ex = ctx.ex
    ln = ex.slice_len(p, ctx.st)
    okc = ex.binop('Ge', ln, CI(n, 64), 'usize')
    base = p.rng[0] if p.rng is not None else CI(0, 64)
    end = p.rng[1] if p.rng is not None else ln
    mid = ex.binop('Add', base, CI(n, 64), 'usize')
    head = Ptr(p.root, p.path, (base, mid))
    if 'split_' in ctx.callee:
        return mk_option(okc, (head, Ptr(p.root, p.path, (mid, end))))
    return mk_option(okc, head)


@model(r'^core::slice::<impl \[.*\]>::(split_last_chunk|last_chunk)::<(\d+)>$')
def _last_chunk(ctx, p):
    n = int(re.search(r'::<(\d+)>$', ctx.callee).group(1))
    ex = ctx.ex
    ln = ex.slice_len(p, ctx.st)
    okc = ex.binop('Ge', ln, CI(n, 64), 'usize')
    base = p.rng[0] if p.rng is not None else CI(0, 64)
    end = p.rng[1] if p.rng is not None else ln
    mid = ex.binop('Sub', end, CI(n, 64), 'usize')
    tail = Ptr(p.root, p.path, (mid, end))
    if 'split_' in ctx.callee:
        return mk_option(okc, (Ptr(p.root, p.path, (base, mid)), tail))
    return mk_option(okc, tail)


@model(r'^std::array::<impl \[.*; \d+\]>::map::<.*>$')
def _array_map(ctx, arr, clos):
    out = []
    for v in arr:
        r = call_under(ctx, True, clos, [v])
        if r is None:
            return X.DIVERGE
        out.append(r)
    return tuple(out)


@model(r'^std::array::<impl \[.*; \d+\]>::(as_slice|as_mut_slice|each_ref)$')
def _array_as_slice(ctx, p):
    if ctx.callee.endswith('each_ref'):
        v = ctx.deref(p)
        return tuple(Ptr(p.root, p.path + (('i', CI(k, 64)),)) for k in range(len(v)))
    return p


@model(r'^<std::option::Option<.*> as std::ops::Try>::branch$')
def _opt_branch(ctx, o):
    # ControlFlow: Continue = 0, Break = 1.   Some(v) -> Continue(v) ; None -> Break(None)
    c = opt_is_some(o)
    pay = {1: (NONE,)}
    if 1 in o.pay and o.pay[1]:
        pay[0] = o.pay[1]
    return Enum(ite(c, CI(0, 64), CI(1, 64)), pay)


@model(r'^<std::option::Option<.*> as std::ops::FromResidual<.*>>::from_residual$')
def _opt_from_residual(ctx, r):
    return NONE


@model(r'^<.* as std::iter::Iterator>::reduce::<.*>$')
def _iter_reduce(ctx, it, clos):
    ents = _ents(ctx, it)
    have, acc = False, None
    for g, v in ents:
        if acc is None:
            have, acc = g, v
            continue
        r = call_under(ctx, b_and(g, have), clos, [acc, v])
        # with an accumulator: combine; without one yet (earlier entries absent): start here
        nxt = v if have is False else (ite(have, r, v) if r is not None else v)
        acc = nxt if g is True else ite(g, nxt, acc)
        have = b_or(have, g)
    if acc is None:
        return NONE
    return mk_option(have, acc)


@model(r'^<std::ops::RangeInclusive<\w+> as std::iter::(Iterator|DoubleEndedIterator)>::rev$')
def _range_incl_rev(ctx, r):
    return ('rev_incl',) + tuple(r[1:])          # (start, end, exhausted)


@model(r'^<std::iter::Rev<std::ops::RangeInclusive<\w+>> as std::iter::Iterator>::next$')
def _rev_range_incl_next(ctx, p):
    t = re.search(r'RangeInclusive<(\w+)>', ctx.callee).group(1)
    tag, a, b, done = ctx.deref(p)
    ex = ctx.ex
    w = X.INT_TYPES[t][0]
    has = b_and(b_not(done), ex.binop('Le', a, b, t))
    last = ex.binop('Eq', a, b, t)
    at_min = isinstance(b, CI) and b.v == 0
    prev = b if at_min else ex.binop('Sub', b, CI(1, w), t)
    if not isinstance(b, CI):
        prev = ite(last, b, ex.binop('Sub', b, CI(1, w), t))
    ctx.write(p, ('rev_incl', a, ite(has, prev, b) if not isinstance(has, bool) else (prev if has else b), b_or(done, b_and(has, last), b_not(has))))
    return mk_option(has, b)


@model(r'^<(u8|u16|u32|u64|u128|usize|i8|i16|i32|i64|i128|isize) as std::string::ToString>::to_string$')
def _int_to_string(ctx, p):
    v = ctx.deref(p)
    t = re.match(r'^<(\w+) as', ctx.callee).group(1)
    if not isinstance(v, CI):
        raise Unsupported('to_string of a symbolic integer')
    return StrV(str(v.signed() if X.INT_TYPES[t][1] else v.v))


# ------------------------------------------------------------------ sorting (stable insertion network over if-then-else), extend, drain, dedup

def _sort_dense(ctx, p, key_of, what):
    s, a, b = _dense(ctx, p, what)
    vals = [v for _, v in s.ents[a:b]]
    if len(vals) > 16:
        raise Unsupported('%s of more than 16 elements' % what)
    keys = [key_of(v) for v in vals]
    ex = ctx.ex
    # stable insertion sort: element j moves left while strictly smaller than its left neighbour
    for j in range(1, len(vals)):
        k = j
        while k > 0:
            ka, kb = keys[k - 1], keys[k]
            w = ka.w if isinstance(ka, CI) else bv(ka).size()
            swap = ex.binop('Lt', kb, ka, 'u%d' % w)
            if swap is False:
                break
            vals[k - 1], vals[k] = ite(swap, vals[k], vals[k - 1]), ite(swap, vals[k - 1], vals[k])
            keys[k - 1], keys[k] = ite(swap, kb, ka), ite(swap, ka, kb)
            k -= 1
    whole = ctx.deref(Ptr(p.root, p.path))
    ents = list(s.ents)
    for k, v in enumerate(vals):
        ents[a + k] = (True, v)
    ctx.write(Ptr(p.root, p.path), tuple(v for _, v in ents) if isinstance(whole, tuple) else Seq(tuple(ents)))
    return UNIT


@model(r'^(core|std)::slice::<impl \[(u8|u16|u32|u64|usize)\]>::(sort|sort_unstable)$')
def _slice_sort(ctx, p):
    return _sort_dense(ctx, p, lambda v: v, 'sort')


@model(r'^(core|std)::slice::<impl \[.*\]>::(sort_by_key|sort_unstable_by_key|sort_by_cached_key)::<(u8|u16|u32|u64|usize), .*>$')
def _slice_sort_by_key(ctx, p, clos):
    def key_of(v):
        pv = ctx.ex.alloc(ctx.st, v)
        k = call_under(ctx, True, clos, [pv])
        if not is_int(k):
            raise Unsupported('sort key that is not an unsigned integer')
        return k
    return _sort_dense(ctx, p, key_of, 'sort_by_key')


@model(r'^<std::vec::Vec<.*> as std::iter::Extend<.*>>::extend::<.*>$')
def _vec_extend(ctx, p, src):
    s = ctx.deref(p)
    if not isinstance(s, Seq):
        raise Unsupported('extend on %r' % (s,))
    it = _as_iter(ctx, src)
    if isinstance(it, tuple):
        raise Unsupported('extend from an unbounded range')
    add = tuple((g, ctx.deref(v) if ('&' in ctx.callee.split('Extend<')[1][:2] and isinstance(v, (Ptr, PtrIte))) else v) for g, v in _ents(ctx, it))
    ctx.write(p, Seq(s.ents + add))
    return UNIT


@model(r'^std::vec::Vec::<.*>::dedup$')
def _vec_dedup(ctx, p):
    s = ctx.deref(p)
    if not (isinstance(s, Seq) and s.dense()):
        raise Unsupported('dedup on a sparse sequence')
    out = []
    prev = None
    for g, v in s.ents:
        if prev is None:
            out.append((True, v))
        else:
            same = struct_eq(ctx, prev, v)
            if same is True:
                continue
            out.append((b_not(same), v))
        prev = v
    # prev must be "the last kept element": with symbolic equality the kept predecessor is ambiguous beyond adjacent pairs
    if any(g is not True for g, _ in out):
        raise Unsupported('dedup with symbolic equality')
    ctx.write(p, Seq(tuple(out)))
    return UNIT


@model(r'^core::str::<impl str>::strip_prefix::<&str>$')
def _str_strip_prefix(ctx, s, pat):
    a, b = _lit(ctx, s), _lit(ctx, pat)
    return some(StrV(a[len(b):])) if a.startswith(b) else NONE


@model(r'^core::str::<impl str>::split_once::<(&str|char)>$')
def _str_split_once(ctx, s, pat):
    a = _lit(ctx, s)
    b = chr(pat.v) if isinstance(pat, CI) else _lit(ctx, pat)
    i = a.find(b)
    return some((StrV(a[:i]), StrV(a[i + len(b):]))) if i >= 0 else NONE


@model(r'^core::str::<impl str>::(starts_with|ends_with|contains)::<char>$')
def _str_char_pattern(ctx, s, c):
    if not isinstance(c, CI):
        raise Unsupported('string pattern with a symbolic char')
    a, ch = _lit(ctx, s), chr(c.v)
    kind = ctx.callee.split('::')[-2] if ctx.callee.endswith('<char>') else ''
    if 'starts_with' in ctx.callee:
        return a.startswith(ch)
    if 'ends_with' in ctx.callee:
        return a.endswith(ch)
    return ch in a


# ------------------------------------------------------------------ std::mem

@model(r'^std::mem::replace::<.*>$')
def _mem_replace(ctx, p, v):
    old = ctx.deref(p)
    ctx.write(p, v)
    return old


@model(r'^std::mem::take::<(.*)>$')
def _mem_take(ctx, p):
    old = ctx.deref(p)
    t = re.match(r'^std::mem::take::<(.*)>$', ctx.callee).group(1)
    if t.startswith('std::option::Option<'):
        d = NONE
    elif t.startswith('std::vec::Vec<'):
        d = Seq(())
    elif t == 'std::string::String':
        d = StrV('')
    elif t in X.INT_TYPES:
        d = CI(0, X.INT_TYPES[t][0])
    elif t == 'bool':
        d = False
    else:
        r = ctx.ex.call('<%s as std::default::Default>::default' % t, [], [], t, ctx.st, ctx.where)
        d, ctx.st = r
    ctx.write(p, d)
    return old


@model(r'^std::mem::swap::<.*>$')
def _mem_swap(ctx, p, q):
    a, b = ctx.deref(p), ctx.deref(q)
    ctx.write(p, b)
    ctx.write(q, a)
    return UNIT


# ------------------------------------------------------------------ std::cmp::Ordering

_M64 = (1 << 64) - 1
_ORD_PAY = {_M64: (), 0: (), 1: ()}


def _ordering(lt, eq):
    """Ordering value: Less = -1, Equal = 0, Greater = 1 (discriminant as a 64-bit value)"""
    if lt is True:
        return Enum(CI(_M64, 64), dict(_ORD_PAY))
    if eq is True:
        return Enum(CI(0, 64), dict(_ORD_PAY))
    if lt is False and eq is False:
        return Enum(CI(1, 64), dict(_ORD_PAY))
    d = z3.If(zb(lt), z3.BitVecVal(_M64, 64), z3.If(zb(eq), z3.BitVecVal(0, 64), z3.BitVecVal(1, 64)))
    return Enum(simp(d), dict(_ORD_PAY))


def _ord_d(o):
    return o.d if isinstance(o.d, CI) else bv(o.d)


def _is(o, val):
    if isinstance(o.d, CI):
        return (o.d.v & _M64) == (val & _M64)
    return simp(bv(o.d) == z3.BitVecVal(val & _M64, 64))


@model(r'^<' + _INTS + r' as std::cmp::Ord>::cmp$')
def _int_cmp(ctx, pa, pb):
    t = re.match(r'^<(\w+) as', ctx.callee).group(1)
    a, b = _deref_all(ctx, pa), _deref_all(ctx, pb)
    return _ordering(ctx.ex.binop('Lt', a, b, t), ctx.ex.binop('Eq', a, b, t))


@model(r'^<' + _INTS + r' as std::cmp::PartialOrd>::partial_cmp$')
def _int_partial_cmp(ctx, pa, pb):
    t = re.match(r'^<(\w+) as', ctx.callee).group(1)
    a, b = _deref_all(ctx, pa), _deref_all(ctx, pb)
    return some(_ordering(ctx.ex.binop('Lt', a, b, t), ctx.ex.binop('Eq', a, b, t)))


@model(r'^std::cmp::(max|min)::<' + _INTS + r'>$')
def _cmp_maxmin(ctx, a, b):
    t = re.search(r'::<(\w+)>$', ctx.callee).group(1)
    ge = ctx.ex.binop('Ge', b, a, t)
    if '::max::' in ctx.callee:
        return ite(ge, b, a)          # max returns the second argument when equal
    return ite(ctx.ex.binop('Le', a, b, t), a, b)


@model(r'^std::cmp::Ordering::reverse$')
def _ord_reverse(ctx, o):
    return _ordering(_is(o, 1), _is(o, 0))


@model(r'^std::cmp::Ordering::(is_lt|is_le|is_gt|is_ge|is_eq|is_ne)$')
def _ord_pred(ctx, o):
    lt, eq, gt = _is(o, -1), _is(o, 0), _is(o, 1)
    return {'is_lt': lt, 'is_le': b_or(lt, eq), 'is_gt': gt, 'is_ge': b_or(gt, eq), 'is_eq': eq, 'is_ne': b_not(eq)}[ctx.callee.rsplit('::', 1)[1]]


@model(r'^std::cmp::Ordering::then$')
def _ord_then(ctx, o, other):
    eq = _is(o, 0)
    return Enum(ite(eq, other.d, o.d), dict(_ORD_PAY))


@model(r'^<std::cmp::Ordering as std::cmp::PartialEq>::(eq|ne)$')
def _ord_eq(ctx, pa, pb):
    a, b = _deref_all(ctx, pa), _deref_all(ctx, pb)
    e = ctx.ex.binop('Eq', a.d, b.d, 'u64')
    return e if ctx.callee.endswith('::eq') else b_not(e)


def _by_ordering(ctx, it, clos, want_max):
    """max_by / min_by with a comparison closure (max keeps the last of equals, min the first)"""
    have, best = False, None
    for g, v in _ents(ctx, it):
        if best is None:
            best, have = v, g
            continue
        pa, pb = ctx.ex.alloc(ctx.st, best), ctx.ex.alloc(ctx.st, v)
        o = call_under(ctx, b_and(g, have), clos, [pa, pb])      # compare(best, v)
        if o is None:
            continue
        better = b_not(_is(o, 1)) if want_max else _is(o, 1)     # max: v >= best ; min: v < best  (best > v)
        take = b_and(g, b_or(b_not(have), better))
        best = ite(take, v, best)
        have = b_or(have, g)
    if best is None:
        return NONE
    return mk_option(have, best)


@model(r'^<.* as std::iter::Iterator>::max_by::<.*>$')
def _iter_max_by(ctx, it, clos):
    return _by_ordering(ctx, it, clos, True)


@model(r'^<.* as std::iter::Iterator>::min_by::<.*>$')
def _iter_min_by(ctx, it, clos):
    return _by_ordering(ctx, it, clos, False)


@model(r'^(core|std)::slice::<impl \[.*\]>::(sort_by|sort_unstable_by)::<.*>$')
def _slice_sort_by(ctx, p, clos):
    s, a, b = _dense(ctx, p, 'sort_by')
    vals = [v for _, v in s.ents[a:b]]
    if len(vals) > 12:
        raise Unsupported('sort_by of more than 12 elements')
    for j in range(1, len(vals)):
        k = j
        while k > 0:
            pa, pb = ctx.ex.alloc(ctx.st, vals[k - 1]), ctx.ex.alloc(ctx.st, vals[k])
            o = call_under(ctx, True, clos, [pa, pb])
            swap = _is(o, 1)                   # left > right: move the right element left (stable)
            if swap is False:
                break
            vals[k - 1], vals[k] = ite(swap, vals[k], vals[k - 1]), ite(swap, vals[k - 1], vals[k])
            k -= 1
    whole = ctx.deref(Ptr(p.root, p.path))
    ents = list(s.ents)
    for k, v in enumerate(vals):
        ents[a + k] = (True, v)
    ctx.write(Ptr(p.root, p.path), tuple(v for _, v in ents) if isinstance(whole, tuple) else Seq(tuple(ents)))
    return UNIT


@model(r'^<.* as std::iter::Iterator>::try_fold::<.*>$')
def _iter_try_fold(ctx, p, init, clos):
    """try_fold with a closure returning Result / Option / ControlFlow: stops at the first Err / None / Break"""
    it = ctx.deref(p) if isinstance(p, (Ptr, PtrIte)) else p
    ents = _ents(ctx, _as_iter(ctx, it))
    m = re.search(r'try_fold::<(.*)>$', ctx.callee)
    rty = mirparse_split(m.group(1))[-1].strip() if m else ''
    kind = 'result' if rty.startswith('std::result::Result<') else ('option' if rty.startswith('std::option::Option<') else None)
    if kind is None:
        raise Unsupported('try_fold with residual type %s' % rty[:60])
    alive = True
    acc = init
    broke = None          # residual value once stopped
    for g, v in ents:
        r = call_under(ctx, b_and(g, alive), clos, [acc, v])
        if r is None:
            continue
        if kind == 'result':
            cont = lift(z3.simplify(bv(r.d) == 0)) if not isinstance(r.d, CI) else (r.d.v == 0)
            nxt = r.pay[0][0] if 0 in r.pay else acc
            res = r.pay[1] if 1 in r.pay else None
        else:
            cont = opt_is_some(r)
            nxt = opt_val(r) if opt_val(r) is not None else acc
            res = ()
        step = b_and(g, alive)
        stop_here = b_and(step, b_not(cont))
        if res is not None and stop_here is not False:
            broke = res if broke is None else tuple(ite(stop_here, a, b) for a, b in zip(res, broke)) if res else ()
        acc = ite(b_and(step, cont), nxt, acc)
        alive = b_and(alive, b_or(b_not(g), cont))
    if kind == 'result':
        pay = {0: (acc,)}
        if broke is not None:
            pay[1] = broke
        return Enum(ite(alive, CI(0, 64), CI(1, 64)), pay)
    return mk_option(alive, acc)


def mirparse_split(s):
    from .mirparse import split_top
    return split_top(s)


def unzb(x):
    x = z3.simplify(x) if z3.is_expr(x) else x
    if x is True or x is False:
        return x
    return True if z3.is_true(x) else (False if z3.is_false(x) else x)


@model(r'^core::slice::<impl \[.*\]>::chunk_by::<.*>$')
def _slice_chunk_by(ctx, p, clos):
    """maximal runs of consecutive elements related by the predicate, as an iterator over sub-slices.  The sequence may be
    sparse (elements present under guards): adjacency is between consecutive *present* elements.  Bounded: <= 8 entries."""
    from .models import _entries_of_slice
    ents = list(_entries_of_slice(ctx, p, False))
    n = len(ents)
    if n > 8:
        raise Unsupported('chunk_by over more than 8 entries')
    g = [zb(e[0]) for e in ents]
    ptrs = [ctx.ex.alloc(ctx.st, e[1]) for e in ents]
    adj, rel = {}, {}
    for i in range(n):
        for j in range(i + 1, n):
            a = z3.And(g[i], g[j], *[z3.Not(g[k]) for k in range(i + 1, j)])
            a = z3.simplify(a)
            if z3.is_false(a):
                continue
            adj[(i, j)] = a
            r = call_under(ctx, a, clos, [ptrs[i], ptrs[j]])
            rel[(i, j)] = zb(r)
    out = []
    for i in range(n):
        linked_from_before = [z3.And(adj[(q, i)], rel[(q, i)]) for q in range(i) if (q, i) in adj]
        start = z3.And(g[i], z3.Not(z3.Or(*linked_from_before))) if linked_from_before else g[i]
        inch = {i: z3.BoolVal(True)}
        chunk = [(True, ents[i][1])]
        for k in range(i + 1, n):
            via = [z3.And(adj[(q, k)], rel[(q, k)], inch[q]) for q in range(i, k) if (q, k) in adj and q in inch]
            inch[k] = z3.simplify(z3.Or(*via)) if via else z3.BoolVal(False)
            if not z3.is_false(inch[k]):
                chunk.append((unzb(inch[k]), ents[k][1]))
        start = z3.simplify(start)
        if z3.is_false(start):
            continue
        out.append((unzb(start), ctx.ex.alloc(ctx.st, Seq(tuple(chunk)))))
    return IterV(tuple(out))


@model(r'^<(u8|u16|u32|u64|u128|usize|i8|i16|i32|i64|i128|isize|bool|char) as std::cmp::PartialEq>::(eq|ne)$')
def _prim_eq(ctx, a, b):
    x, y = ctx.deref(a), ctx.deref(b)
    m = re.match(r'^<(\w+) as', ctx.callee)
    r = ctx.ex.binop('Eq', x, y, m.group(1))
    return b_not(r) if ctx.callee.endswith('ne') else r


_INTS = r'(u8|u16|u32|u64|u128|usize|i8|i16|i32|i64|i128|isize)'


@model(r'^<' + _INTS + r' as std::ops::(Add|Sub|Mul|BitAnd|BitOr|BitXor|Shr|Shl)Assign<&' + _INTS + r'>>::\w+$')
def _prim_ops_assign_ref(ctx, p, q):
    """`a op= &b` on primitive integers (overflow of +,-,* panics as in the dev profile, through binop's checks where it has them)"""
    m = re.match(r'^<(\w+) as std::ops::(\w+)Assign<&(\w+)>>', ctx.callee)
    a, b = ctx.deref(p), ctx.deref(q)
    op = m.group(2)
    if op in ('Add', 'Sub', 'Mul'):
        r = ctx.ex.checked_arith(ctx, op, a, b, m.group(1)) if hasattr(ctx.ex, 'checked_arith') else None
        if r is None:
            raise Unsupported('%sAssign<&%s> (overflow-checked compound assignment through a reference)' % (op, m.group(3)))
    else:
        r = ctx.ex.binop(op, a, b, m.group(1), m.group(3))
    ctx.write(p, r)
    return UNIT


@model(r'^(core::str::<impl str>|std::string::String)::is_empty$')
def _str_is_empty_generic(ctx, s):
    """emptiness through the length model of whatever string abstraction is in use; abstract strings that only know their
    emptiness keep their own model (registered earlier, tried later)"""
    v = as_str(ctx, s)
    if not (hasattr(v, 'len_model') or hasattr(v, 'ents') or (hasattr(v, 'chars') and isinstance(v.chars, list)) or isinstance(v, StrV)):
        return X.NOT_HANDLED
    n = _str_len(ctx, s)
    return ctx.ex.binop('Eq', n, CI(0, 64), 'usize')


@model(r'^core::str::<impl str>::is_ascii$')
def _str_is_ascii(ctx, s):
    v = as_str(ctx, s)
    if isinstance(v, StrV):
        return all(ord(c) < 128 for c in v.s)
    if hasattr(v, 'ents'):       # byte string with guarded entries
        return b_and(*[b_or(b_not(g), ctx.ex.binop('Lt', b, CI(128, 8), 'u8')) for g, b in v.ents])
    return X.NOT_HANDLED


@model(r'^core::num::<impl u8>::(to_ascii_lowercase|to_ascii_uppercase)$')
def _u8_ascii_case(ctx, p):
    c = ctx.deref(p) if isinstance(p, (Ptr, PtrIte)) else p
    lower = ctx.callee.endswith('lowercase')
    if isinstance(c, CI):
        ch = c.v
        if lower and 65 <= ch <= 90:
            ch += 32
        if not lower and 97 <= ch <= 122:
            ch -= 32
        return CI(ch, 8)
    x = bv(c)
    if lower:
        return z3.If(z3.And(z3.UGE(x, 65), z3.ULE(x, 90)), x + 32, x)
    return z3.If(z3.And(z3.UGE(x, 97), z3.ULE(x, 122)), x - 32, x)


@model(r'^<std::string::String as std::iter::Extend<char>>::extend::<.*>$')
def _string_extend_chars(ctx, p, it):
    cur = ctx.deref(p)
    if not isinstance(cur, StrV):
        return X.NOT_HANDLED
    out = cur.s
    for g, c in _ents(ctx, _as_iter(ctx, it)):
        if g is not True or not isinstance(c, CI):
            raise Unsupported('String::extend with symbolic characters')
        out += chr(c.v)
    ctx.write(p, StrV(out))
    return UNIT


@model(r'^std::string::String::with_capacity$')
def _string_with_capacity(ctx, n):
    return StrV('')


@model(r'^std::string::String::push_str$')
def _string_push_str(ctx, p, s2):
    cur = ctx.deref(p)
    add = as_str(ctx, s2)
    if hasattr(cur, 'push_str_model'):
        ctx.write(p, cur.push_str_model(ctx, add))
        return UNIT
    if isinstance(cur, StrV) and isinstance(add, StrV):
        ctx.write(p, StrV(cur.s + add.s))
        return UNIT
    return X.NOT_HANDLED


@model(r'^std::vec::Vec::<.*>::splice::<std::ops::Range(From|To|Inclusive)?<usize>, .*>$')
def _vec_splice(ctx, p, r, it):
    """v.splice(a..b, iter): the range is replaced by the iterator's items (applied at once: the returned Splice borrows the
    vector until it is dropped, nothing can observe the intermediate state); the removed items are not yielded by the model"""
    s = ctx.deref(p)
    kind = re.search(r'splice::<std::ops::Range(From|To|Inclusive)?<usize>', ctx.callee).group(1)
    if isinstance(s, Seq) and not s.dense() and kind is None and isinstance(r[0], CI) and isinstance(r[1], CI) and r[0].v == 0 and r[1].v == 0:
        # insertion at the front: positions of the existing (possibly absent) entries do not matter
        ctx.write(p, Seq(tuple(_ents(ctx, _as_iter(ctx, it))) + s.ents))
        return Opaque('Splice')
    if not isinstance(s, Seq) or not s.dense():
        raise Unsupported('splice on a sparse sequence')
    n = len(s.ents)
    if kind is None:
        a, b = r[0], r[1]
    elif kind == 'From':
        a, b = r[0], CI(n, 64)
    elif kind == 'To':
        a, b = CI(0, 64), r[0]
    else:
        raise Unsupported('splice with an inclusive range')
    if not (isinstance(a, CI) and isinstance(b, CI)):
        raise Unsupported('splice with a symbolic range')
    if a.v > b.v or b.v > n:
        ctx.panic_if(True, 'splice range out of bounds')
        return X.DIVERGE
    new = tuple(_ents(ctx, _as_iter(ctx, it)))
    ctx.write(p, Seq(s.ents[:a.v] + new + s.ents[b.v:]))
    return Opaque('Splice')
