"""Environment models: the std / external functions the crate calls (DESIGN.md §3.3).

Each model is  fn(ctx, *args) -> value  (ctx.st may be updated in place), or returns
DIVERGE when the call never returns, NOT_HANDLED to fall through to MIR resolution.
"""
import re
import z3

from .values import *
from . import executor as X


# ------------------------------------------------------------------ strings

class StrV:
    """Concrete string (python str).  Abstract token strings are added by the UCI harness (uci_tokens.py)."""
    __slots__ = ('s',)

    def __init__(self, s):
        self.s = s

    @staticmethod
    def lit(s):
        return StrV(s)

    def length(self):
        return CI(len(self.s.encode()), 64)

    def __repr__(self):
        return 'StrV(%r)' % self.s

    def ite_with(self, g, other):
        if self.s == other.s:
            return self
        return StrChoice(ite(g, len(self.s) == 0, len(other.s) == 0), [(g, self), (b_not(g), other)])


class StrChoice:
    """one of several concrete strings, selected by path conditions (error messages mostly); emptiness is tracked"""
    __slots__ = ('empty', 'cases')

    def __init__(self, empty, cases):
        self.empty, self.cases = empty, cases

    def ite_with(self, g, o):
        return StrChoice(ite(g, self.empty, o.empty), [(b_and(g, c), v) for c, v in self.cases] + [(b_and(b_not(g), c), v) for c, v in o.cases])

    def ite_mixed(self, g, other, self_is_then):
        if isinstance(other, StrV):
            o = StrChoice(len(other.s) == 0, [(True, other)])
            return self.ite_with(g, o) if self_is_then else o.ite_with(g, self)
        if hasattr(other, 'ite_mixed'):
            return other.ite_mixed(g, self, not self_is_then)
        raise Unsupported('ite of string choice with %r' % (other,))

    def is_empty_model(self, ctx):
        return self.empty

    def eq_model(self, ctx, other):
        other = as_str(ctx, other)
        if isinstance(other, StrV):
            return b_or(*[b_and(c, v.s == other.s) for c, v in self.cases])
        raise Unsupported('comparison of a string choice with %r' % (other,))


class IterV:
    """iterator model: remaining entries [(guard, value)], plus lazy adaptor stages"""
    __slots__ = ('ents', 'stages', 'count')

    def __init__(self, ents, stages=(), count=0):
        self.ents = tuple(ents)
        self.stages = tuple(stages)
        self.count = count

    def ite_with(self, g, other):
        if self.stages is not other.stages and self.stages != other.stages:
            raise Unsupported('ite of iterators with different adaptors')
        if len(self.ents) == len(other.ents):
            return IterV(tuple((ite(g, a[0], b[0]) if a[0] is not b[0] else a[0], ite(g, a[1], b[1]))
                               for a, b in zip(self.ents, other.ents)), self.stages, self.count)
        ng = b_not(g)
        return IterV(tuple((b_and(g, x), v) for x, v in self.ents) + tuple((b_and(ng, x), v) for x, v in other.ents),
                     self.stages, self.count)


def mk_option(cond, val):
    if cond is True:
        return Enum(CI(1, 64), {1: (val,), 0: ()})
    if cond is False:
        return Enum(CI(0, 64), {0: ()})
    return Enum(z3.If(cond, z3.BitVecVal(1, 64), z3.BitVecVal(0, 64)), {1: (val,), 0: ()})


NONE = Enum(CI(0, 64), {0: ()})


def some(v):
    return Enum(CI(1, 64), {1: (v,), 0: ()})


def opt_is_some(o):
    if isinstance(o.d, CI):
        return o.d.v == 1
    return lift(z3.simplify(o.d == 1))


def opt_val(o):
    p = o.pay.get(1)
    if p is None:
        return None
    return p[0]


def ok(v):
    return Enum(CI(0, 64), {0: (v,)})


def err(v):
    return Enum(CI(1, 64), {1: (v,)})


def res_is_ok(r):
    if isinstance(r.d, CI):
        return r.d.v == 0
    return lift(z3.simplify(r.d == 0))


# ------------------------------------------------------------------ registry

_REG = []


def model(pattern):
    def deco(fn):
        _REG.append((pattern, fn))
        return fn
    return deco


def install(ex):
    from . import models_extra       # noqa: registers the additional models (later registrations take precedence)
    for pat, fn in _REG:
        ex.model(pat, fn)


def _tyargs(callee):
    """generic args of the first turbofish/type in a callee path"""
    m = re.search(r'<(.*)>', callee)
    return m.group(1) if m else ''


def call_under(ctx, g, clos, args):
    """call closure under extra guard g; returns value (state merged back into ctx.st)"""
    ex = ctx.ex
    if g is True:
        r = ex.call_closure(clos, args, ctx.st, ctx.where)
        if r is None:
            return None
        v, st2 = r
        ctx.st = st2
        return v
    base = ctx.st
    s2 = base.fork(g)
    r = ex.call_closure(clos, args, s2, ctx.where)
    if r is None:
        # diverges whenever g holds
        base.add_guard(b_not(g))
        return None
    v, s2 = r
    ng = b_not(g)
    keep = base.fork(ng)
    # fork() appends the conjunct object itself, so the exhaustive-join shortcut of merge_states applies
    s2_is_plain = len(s2.conj) == len(base.conj) + 1
    merged = X.merge_states([(s2.conj[len(base.conj)] if s2_is_plain else g, s2), (ng, keep)], base.conj, True)
    # guard of the merged state: the original guard minus the paths that diverged inside
    ctx.st = merged
    return v


def State_like(st, cond):
    return X.State(dict(st.store), b_and(st.guard, cond))


# ------------------------------------------------------------------ Option / Result

@model(r'^std::option::Option::<.*>::is_some$')
def _opt_is_some(ctx, p):
    return opt_is_some(ctx.deref(p))


@model(r'^std::option::Option::<.*>::is_none$')
def _opt_is_none(ctx, p):
    return b_not(opt_is_some(ctx.deref(p)))


@model(r'^std::option::Option::<.*>::(unwrap|expect)$')
def _opt_unwrap(ctx, o, *rest):
    c = opt_is_some(o)
    if not ctx.panic_if(b_not(c), 'Option::unwrap/expect on None'):
        return X.DIVERGE
    return opt_val(o)


@model(r'^std::option::Option::<.*>::unwrap_or$')
def _opt_unwrap_or(ctx, o, d):
    return ite(opt_is_some(o), opt_val(o), d)


@model(r'^std::option::Option::<&.*>::copied$')
def _opt_copied(ctx, o):
    c = opt_is_some(o)
    if c is False:
        return NONE
    v = ctx.deref(opt_val(o))
    return mk_option(c, v)


@model(r'^std::option::Option::<.*>::as_ref$')
def _opt_as_ref(ctx, p):
    o = ctx.deref(p)
    c = opt_is_some(o)
    if c is False:
        return NONE
    inner = Ptr(p.root, p.path + (('v', 1), ('f', 0)))
    return mk_option(c, inner)


@model(r'^std::option::Option::<.*>::unwrap_or_default$')
def _opt_unwrap_or_default(ctx, o):
    c = opt_is_some(o)
    if c is True:
        return opt_val(o)
    t = re.match(r'^std::option::Option::<(.*)>::unwrap_or_default$', ctx.callee).group(1)
    r = ctx.ex.call('<%s as std::default::Default>::default' % t, [], [], t, ctx.st, ctx.where)
    d, ctx.st = r
    return ite(c, opt_val(o), d)


@model(r'^std::option::Option::<.*>::is_some_and::<.*>$')
def _opt_is_some_and(ctx, o, clos):
    c = opt_is_some(o)
    if c is False:
        return False
    v = call_under(ctx, c, clos, [opt_val(o)])
    if v is None:
        return False
    return b_and(c, v)


@model(r'^std::option::Option::<.*>::is_none_or::<.*>$')
def _opt_is_none_or(ctx, o, clos):
    c = opt_is_some(o)
    if c is False:
        return True
    v = call_under(ctx, c, clos, [opt_val(o)])
    if v is None:
        return b_not(c)
    return b_or(b_not(c), v)


@model(r'^<.* as std::ops::(Fn|FnMut|FnOnce)<\(.*\)>>::(call|call_mut|call_once)$')
def _fn_trait_call(ctx, clos, args):
    r = ctx.ex.call_closure(clos, list(args) if isinstance(args, tuple) else [args], ctx.st, ctx.where)
    if r is None:
        return X.DIVERGE
    v, st2 = r
    ctx.st = st2
    return v


@model(r'^std::option::Option::<.*>::filter::<.*>$')
def _opt_filter(ctx, o, clos):
    c = opt_is_some(o)
    if c is False:
        return NONE
    v = opt_val(o)
    p = ctx.ex.alloc(ctx.st, v)
    keep = call_under(ctx, c, clos, [p])
    if keep is None:
        return NONE
    return mk_option(b_and(c, keep), v)


@model(r'^std::ops::Range::<(\w+)>::contains::<.*>$')
def _range_contains(ctx, rp, ip):
    t = re.match(r'^std::ops::Range::<(\w+)>', ctx.callee).group(1)
    r = ctx.deref(rp)
    x = ctx.deref(ip)
    ex = ctx.ex
    return b_and(ex.binop('Le', r[0], x, t), ex.binop('Lt', x, r[1], t))


@model(r'^std::ops::RangeInclusive::<(\w+)>::contains::<.*>$')
def _range_incl_contains(ctx, rp, ip):
    t = re.match(r'^std::ops::RangeInclusive::<(\w+)>', ctx.callee).group(1)
    r = ctx.deref(rp)
    x = ctx.deref(ip)
    ex = ctx.ex
    lo, hi = (r[1], r[2]) if (isinstance(r, tuple) and r and r[0] == 'incl') else (r[0], r[1])
    return b_and(ex.binop('Le', lo, x, t), ex.binop('Le', x, hi, t))


@model(r'^core::str::<impl str>::bytes$')
def _str_bytes(ctx, s):
    s = as_str(ctx, s)
    if hasattr(s, 'bytes_model'):
        return s.bytes_model(ctx)
    if not isinstance(s, StrV):
        raise Unsupported('bytes of %r' % (s,))
    return IterV(tuple((True, CI(b, 8)) for b in s.s.encode()))


@model(r'^<std::str::Bytes(<.*>)? as std::iter::Iterator>::next$')
def _bytes_next(ctx, p):
    return _iter_next(ctx, p)


@model(r'^core::str::<impl str>::as_bytes$')
def _str_as_bytes(ctx, s):
    s = as_str(ctx, s)
    if hasattr(s, 'as_bytes_model'):
        return s.as_bytes_model(ctx)
    if not isinstance(s, StrV):
        raise Unsupported('as_bytes of %r' % (s,))
    return ctx.ex.alloc(ctx.st, Seq.of([CI(b, 8) for b in s.s.encode()]))


@model(r'^std::option::Option::<.*>::map::<.*>$')
def _opt_map(ctx, o, clos):
    c = opt_is_some(o)
    if c is False:
        return NONE
    v = call_under(ctx, c, clos, [opt_val(o)])
    return mk_option(c, v)


@model(r'^std::option::Option::<.*>::ok_or::<.*>$')
def _opt_ok_or(ctx, o, e):
    c = opt_is_some(o)
    d = ite(c, CI(0, 64), CI(1, 64))
    return Enum(d, {0: (opt_val(o),), 1: (e,)})


@model(r'^std::option::Option::<.*>::or$')
def _opt_or(ctx, a, b):
    return ite(opt_is_some(a), a, b)


@model(r'^std::option::Option::<.*>::or_else::<.*>$')
def _opt_or_else(ctx, a, clos):
    c = opt_is_some(a)
    if c is True:
        return a
    v = call_under(ctx, b_not(c), clos, [])
    return ite(c, a, v)


@model(r'^core::slice::<impl \[.*\]>::first$')
def _slice_first(ctx, p):
    s, a, b = slice_window(ctx, p)
    ents = s.ents[a:b]
    if not ents:
        return NONE
    if s.dense():
        return some(Ptr(p.root, p.path + (('i', CI(a, 64)),)))
    # sparse: first entry whose guard holds
    out = NONE
    for k in reversed(range(len(ents))):
        g, v = ents[k]
        out = ite(g, some(Ptr(p.root, p.path + (('e', a + k),))), out) if g is not True else some(Ptr(p.root, p.path + (('e', a + k),)))
    return out


@model(r'^std::option::Option::<.*>::ok_or_else::<.*>$')
def _opt_ok_or_else(ctx, o, clos):
    c = opt_is_some(o)
    if c is True:
        return Enum(CI(0, 64), {0: (opt_val(o),)})
    e = call_under(ctx, b_not(c), clos, [])
    d = ite(c, CI(0, 64), CI(1, 64))
    return Enum(d, {0: (opt_val(o),), 1: (e,)})


@model(r'^std::option::Option::<.*>::map_or_else::<.*>$')
def _opt_map_or_else(ctx, o, dflt, f):
    c = opt_is_some(o)
    a = call_under(ctx, c, f, [opt_val(o)]) if c is not False else None
    b = call_under(ctx, b_not(c), dflt, []) if c is not True else None
    return ite(c, a, b)


@model(r'^std::result::Result::<.*>::is_ok$')
def _res_is_ok(ctx, p):
    return res_is_ok(ctx.deref(p))


@model(r'^std::result::Result::<.*>::is_err$')
def _res_is_err(ctx, p):
    return b_not(res_is_ok(ctx.deref(p)))


@model(r'^std::result::Result::<.*>::(unwrap|expect)$')
def _res_unwrap(ctx, r, *rest):
    c = res_is_ok(r)
    if not ctx.panic_if(b_not(c), 'Result::unwrap/expect on Err'):
        return X.DIVERGE
    return r.pay[0][0]


@model(r'^std::result::Result::<.*>::ok$')
def _res_ok(ctx, r):
    c = res_is_ok(r)
    if c is False:
        return NONE
    return mk_option(c, r.pay[0][0])


@model(r'^std::result::Result::<.*>::unwrap_or$')
def _res_unwrap_or(ctx, r, d):
    c = res_is_ok(r)
    return ite(c, r.pay.get(0, (None,))[0], d)


@model(r'^std::result::Result::<.*>::and::<.*>$')
def _res_and(ctx, a, b):
    c = res_is_ok(a)
    if c is True:
        return b
    if c is False:
        return Enum(CI(1, 64), {1: a.pay[1]})
    pay = {}
    if 0 in b.pay:
        pay[0] = b.pay[0]
    e1 = a.pay.get(1)
    e2 = b.pay.get(1)
    pay[1] = ite(c, e2, e1) if e2 is not None else e1
    return Enum(ite(c, b.d, CI(1, 64)), pay)


@model(r'^std::result::Result::<.*>::map_err::<.*>$')
def _res_map_err(ctx, r, clos):
    c = res_is_ok(r)
    if c is True:
        return Enum(CI(0, 64), {0: r.pay[0]})
    e = call_under(ctx, b_not(c), clos, [r.pay[1][0]])
    pay = {1: (e,)}
    if 0 in r.pay:
        pay[0] = r.pay[0]
    return Enum(r.d, pay)


@model(r'^<std::result::Result<.*> as std::ops::Try>::branch$')
def _res_branch(ctx, r):
    # Ok(v) -> Continue(v) ; Err(e) -> Break(Err(e))
    pay = {}
    if 0 in r.pay:
        pay[0] = r.pay[0]
    if 1 in r.pay:
        pay[1] = (Enum(CI(1, 64), {1: r.pay[1]}),)
    return Enum(r.d, pay)


@model(r'^<std::result::Result<.*> as std::ops::FromResidual<.*>>::from_residual$')
def _res_from_residual(ctx, r):
    e = r.pay[1][0]
    # error conversion  &str -> String  via From: keep the value
    return Enum(CI(1, 64), {1: (e,)})


# ------------------------------------------------------------------ integers

def _ity(callee):
    m = re.search(r'impl (\w+)>', callee)
    return m.group(1)


@model(r'^core::num::<impl \w+>::wrapping_(add|sub|mul)$')
def _wrapping(ctx, a, b):
    op = {'add': 'Add', 'sub': 'Sub', 'mul': 'Mul'}[re.search(r'wrapping_(\w+)$', ctx.callee).group(1)]
    return ctx.ex.binop(op, a, b, _ity(ctx.callee))


@model(r'^core::num::<impl \w+>::checked_(add|sub|mul)$')
def _checked(ctx, a, b):
    op = {'add': 'Add', 'sub': 'Sub', 'mul': 'Mul'}[re.search(r'checked_(\w+)$', ctx.callee).group(1)]
    r, f = ctx.ex.binop(op + 'WithOverflow', a, b, _ity(ctx.callee))
    return mk_option(b_not(f), r)


@model(r'^core::num::<impl \w+>::checked_(shl|shr)$')
def _checked_sh(ctx, a, b):
    t = _ity(ctx.callee)
    w = X.INT_TYPES[t][0]
    op = 'Shl' if ctx.callee.endswith('shl') else 'Shr'
    inr = ctx.ex.binop('Lt', b, CI(w, 32), 'u32')
    r = ctx.ex.binop(op, a, b, t, 'u32')
    return mk_option(inr, r)


@model(r'^core::num::<impl \w+>::saturating_(add|sub)$')
def _saturating(ctx, a, b):
    t = _ity(ctx.callee)
    w, s = X.INT_TYPES[t]
    op = 'Add' if ctx.callee.endswith('add') else 'Sub'
    r, f = ctx.ex.binop(op + 'WithOverflow', a, b, t)
    if f is False:
        return r
    zi = is_zint(r)
    if not s:
        lim = CI((1 << w) - 1, w) if op == 'Add' else CI(0, w)
        if zi:
            lim = z3.IntVal(lim.v)
        return ite(f, lim, r)
    mx, mn = CI((1 << (w - 1)) - 1, w), CI(1 << (w - 1), w)
    if zi:
        mx, mn = z3.IntVal((1 << (w - 1)) - 1), z3.IntVal(-(1 << (w - 1)))
    # overflow direction: add overflows upward iff b >= 0 ; sub overflows upward iff b < 0
    bneg = ctx.ex.binop('Lt', b, CI(0, w), t)
    up = b_not(bneg) if op == 'Add' else bneg
    return ite(f, ite(up, mx, mn), r)


@model(r'^core::num::<impl \w+>::saturating_neg$')
def _saturating_neg(ctx, a):
    t = _ity(ctx.callee)
    w, s = X.INT_TYPES[t]
    mn = CI(1 << (w - 1), w)
    ismin = ctx.ex.binop('Eq', a, mn, t)
    mx = z3.IntVal((1 << (w - 1)) - 1) if is_zint(a) else CI((1 << (w - 1)) - 1, w)
    return ite(ismin, mx, ctx.ex.unop('Neg', a, t, ctx.st))


def popcount_term(x):
    """parallel-prefix popcount of a z3 bit-vector (same width result)"""
    w = x.size()
    masks = {64: [0x5555555555555555, 0x3333333333333333, 0x0f0f0f0f0f0f0f0f, 0x00ff00ff00ff00ff,
                  0x0000ffff0000ffff, 0x00000000ffffffff]}
    if w not in masks:
        tot = z3.BitVecVal(0, w)
        for i in range(w):
            tot = tot + z3.ZeroExt(w - 1, z3.Extract(i, i, x))
        return tot
    sh = 1
    for m in masks[w]:
        x = (x & m) + (z3.LShR(x, sh) & m)
        sh *= 2
    return x


COUNT_ONES_HOOK = [None]   # harnesses may install an uninterpreted popcount


@model(r'^core::num::<impl \w+>::count_ones$')
def _count_ones(ctx, a):
    if isinstance(a, CI):
        return CI(bin(a.v).count('1'), 32)
    if COUNT_ONES_HOOK[0] is not None:
        return COUNT_ONES_HOOK[0](a)
    return z3.Extract(31, 0, popcount_term(a))


@model(r'^core::num::<impl \w+>::trailing_zeros$')
def _trailing_zeros(ctx, a):
    w = width(a)
    if isinstance(a, CI):
        if a.v == 0:
            return CI(w, 32)
        return CI((a.v & -a.v).bit_length() - 1, 32)
    # popcount((x & -x) - 1)
    t = popcount_term((a & -a) - 1)
    return z3.Extract(31, 0, t) if w >= 32 else z3.ZeroExt(32 - w, t)


@model(r'^core::num::<impl \w+>::leading_zeros$')
def _leading_zeros(ctx, a):
    w = width(a)
    if isinstance(a, CI):
        return CI(w - a.v.bit_length(), 32)
    x = a
    sh = 1
    while sh < w:
        x = x | z3.LShR(x, sh)
        sh *= 2
    t = popcount_term(~x)
    return z3.Extract(31, 0, t) if w >= 32 else z3.ZeroExt(32 - w, t)


@model(r'^core::num::<impl \w+>::swap_bytes$')
def _swap_bytes(ctx, a):
    w = width(a)
    if isinstance(a, CI):
        return CI(int.from_bytes(a.v.to_bytes(w // 8, 'little'), 'big'), w)
    return z3.Concat(*[z3.Extract(8 * i + 7, 8 * i, a) for i in range(w // 8)])


@model(r'^core::num::<impl \w+>::reverse_bits$')
def _reverse_bits(ctx, a):
    w = width(a)
    if isinstance(a, CI):
        return CI(int(bin(a.v)[2:].zfill(w)[::-1], 2), w)
    return z3.Concat(*[z3.Extract(i, i, a) for i in range(w)])


@model(r'^core::num::<impl \w+>::div_ceil$')
def _div_ceil(ctx, a, b):
    t = _ity(ctx.callee)
    ex = ctx.ex
    if not ctx.panic_if(ex.binop('Eq', b, CI(0, width(b)), t), 'div_ceil by zero'):
        return X.DIVERGE
    q = ex.binop('Div', a, b, t)
    r = ex.binop('Rem', a, b, t)
    nz = ex.binop('Ne', r, CI(0, width(a)), t)
    return ite(nz, ex.binop('Add', q, CI(1, width(a)), t), q)


@model(r'^<(u8|u16|u32|u64|u128|usize|i8|i16|i32|i64|i128|isize) as std::cmp::Ord>::(max|min)$')
def _int_minmax(ctx, a, b):
    t = re.match(r'^<(\w+) ', ctx.callee).group(1)
    if ctx.callee.endswith('max'):
        return ite(ctx.ex.binop('Gt', b, a, t), b, a) if not (isinstance(a, CI) and isinstance(b, CI)) else (b if ctx.ex.binop('Gt', b, a, t) else a)
    return ite(ctx.ex.binop('Lt', b, a, t), b, a) if not (isinstance(a, CI) and isinstance(b, CI)) else (b if ctx.ex.binop('Lt', b, a, t) else a)


@model(r'^<(.*) as std::convert::Into<(.*)>>::into$')
def _into_blanket(ctx, a):
    # core's blanket impl:  Into<U> for T  where U: From<T>
    inner = ctx.callee[1:ctx.callee.rindex('>::into')]
    k = X.mirparse.find_top(inner, ' as std::convert::Into<')
    src = inner[:k]
    dst = inner[k + len(' as std::convert::Into<'):-1]
    if src in X.INT_TYPES and dst in X.INT_TYPES:
        return X.NOT_HANDLED
    if dst.startswith('std::option::Option<'):
        return some(a)
    if dst == src:
        return a
    r = ctx.ex.call('<%s as std::convert::From<%s>>::from' % (dst, src), [a], ctx.argtypes, dst, ctx.st, ctx.where)
    if r is None:
        return X.DIVERGE
    v, ctx.st = r
    return v


@model(r'^<(\w+) as std::convert::(From|Into)<(\w+)>>::(from|into)$')
def _int_from(ctx, a):
    m = re.match(r'^<(\w+) as std::convert::(From|Into)<(\w+)>>', ctx.callee)
    if m.group(2) == 'From':
        dst, src = m.group(1), m.group(3)
    else:
        src, dst = m.group(1), m.group(3)
    if dst not in X.INT_TYPES or src not in X.INT_TYPES | {'bool': 0}:
        return X.NOT_HANDLED
    return ctx.ex.cast(a, src, dst, 'IntToInt', ctx.st)


@model(r'^<(\w+) as std::convert::TryFrom<(\w+)>>::try_from$')
def _int_try_from(ctx, a):
    m = re.match(r'^<(\w+) as std::convert::TryFrom<(\w+)>>', ctx.callee)
    dst, src = m.group(1), m.group(2)
    wd, sd = X.INT_TYPES[dst]
    ws, ss = X.INT_TYPES[src]
    if wd >= ws and sd == ss:
        return ok(ctx.ex.cast(a, src, dst, 'IntToInt', ctx.st))
    # general case: Ok iff the value lies in the destination's range (compared in the source type)
    ex = ctx.ex
    dmax = (1 << (wd - 1)) - 1 if sd else (1 << wd) - 1
    dmin = -(1 << (wd - 1)) if sd else 0
    smax = (1 << (ws - 1)) - 1 if ss else (1 << ws) - 1
    smin = -(1 << (ws - 1)) if ss else 0
    conds = []
    if dmax < smax:
        conds.append(ex.binop('Le', a, CI(dmax & ((1 << ws) - 1), ws), src))
    if dmin > smin:
        conds.append(ex.binop('Ge', a, CI(dmin & ((1 << ws) - 1), ws), src))
    fits = b_and(*conds) if conds else True
    val = ex.cast(a, src, dst, 'IntToInt', ctx.st)
    if fits is True:
        return ok(val)
    return Enum(ite(fits, CI(0, 64), CI(1, 64)), {0: (val,), 1: (Opaque('TryFromIntError'),)})


@model(r'^<(\w+) as std::default::Default>::default$')
def _prim_default(ctx):
    t = re.match(r'^<(\w+) as', ctx.callee).group(1)
    if t == 'bool':
        return False
    if t in X.INT_TYPES:
        return CI(0, X.INT_TYPES[t][0])
    return X.NOT_HANDLED


@model(r'^<std::option::Option<.*> as std::default::Default>::default$')
def _opt_default(ctx):
    return NONE


@model(r'^<(u8|u16|u32|u64|u128|usize) as std::ops::(BitAnd|BitOr|BitXor|Shr|Shl)(<\w+>)?>::\w+$')
def _prim_ops(ctx, a, b):
    m = re.match(r'^<(\w+) as std::ops::(\w+)(<(\w+)>)?>', ctx.callee)
    return ctx.ex.binop(m.group(2), a, b, m.group(1), m.group(4) or m.group(1))


@model(r'^<(u8|u16|u32|u64|u128|usize) as std::ops::(BitAnd|BitOr|BitXor|Shr|Shl)Assign(<\w+>)?>::\w+$')
def _prim_ops_assign(ctx, p, b):
    m = re.match(r'^<(\w+) as std::ops::(\w+)Assign(<(\w+)>)?>', ctx.callee)
    a = ctx.deref(p)
    ctx.write(p, ctx.ex.binop(m.group(2), a, b, m.group(1), m.group(4) or m.group(1)))
    return UNIT


# ------------------------------------------------------------------ PartialEq::ne and friends (core default methods)

@model(r'^<(.*) as std::cmp::PartialEq(<.*>)?>::ne$')
def _ne(ctx, a, b):
    callee = ctx.callee[:-2] + 'eq'
    r = ctx.ex.call(callee, [a, b], ctx.argtypes, 'bool', ctx.st, ctx.where)
    if r is None:
        return X.DIVERGE
    v, ctx.st = r
    return b_not(v)


@model(r'^<&(.*) as std::cmp::PartialEq(<.*>)?>::(eq|ne)$')
def _ref_eq(ctx, a, b):
    # &A == &B  forwards to A == B
    m = re.match(r'^<&(.*) as std::cmp::PartialEq(<&(.*)>)?>::(eq|ne)$', ctx.callee)
    inner = m.group(1)
    rhs = m.group(3)
    callee = '<%s as std::cmp::PartialEq%s>::%s' % (inner, ('<%s>' % rhs) if rhs else '', m.group(4))
    ia, ib = ctx.deref(a), ctx.deref(b)
    at = [X.deref_type(t) if t else None for t in ctx.argtypes]
    r = ctx.ex.call(callee, [ia, ib], at, 'bool', ctx.st, ctx.where)
    if r is None:
        return X.DIVERGE
    v, ctx.st = r
    return v


def struct_eq(ctx, a, b):
    """structural equality of two values (used for std containers of crate types)"""
    ex = ctx.ex
    if a is b:
        return True
    if is_int(a) and is_int(b):
        return ex.binop('Eq', a, b, None)
    if is_bool(a) and is_bool(b):
        return ex.bool_binop('Eq', a, b)
    if isinstance(a, tuple) and isinstance(b, tuple):
        return b_and(*[struct_eq(ctx, x, y) for x, y in zip(a, b)])
    if isinstance(a, Enum) and isinstance(b, Enum):
        deq = ex.binop('Eq', a.d, b.d, 'isize')
        parts = [deq]
        for k in set(a.pay) & set(b.pay):
            if a.pay[k] or b.pay[k]:
                parts.append(b_implies(ex.binop('Eq', a.d, CI(k, 64), 'isize'), struct_eq(ctx, a.pay[k], b.pay[k])))
        return b_and(*parts)
    if isinstance(a, StrV) and isinstance(b, StrV):
        return a.s == b.s
    if hasattr(a, 'eq_with'):
        return a.eq_with(b, ctx)
    if hasattr(a, 'eq_model'):
        return a.eq_model(ctx, b)
    if hasattr(b, 'eq_model'):
        return b.eq_model(ctx, a)
    raise Unsupported('struct_eq of %r / %r' % (type(a).__name__, type(b).__name__))


@model(r'^<std::option::Option<.*> as std::cmp::PartialEq>::eq$')
def _opt_eq(ctx, pa, pb):
    return struct_eq(ctx, ctx.deref(pa), ctx.deref(pb))


@model(r'^<.* as std::clone::Clone>::clone$')
def _clone(ctx, p):
    # values are immutable in the executor: Clone of plain data is a copy.  Crate impls that are not
    # derived would be found in the MIR first only if we return NOT_HANDLED, so check for one.
    it = ctx.ex.resolve_fn(ctx.callee, ctx.argtypes, ctx.dtype) if ctx.callee.startswith('<' + 'board') or ctx.callee.startswith('<search') or ctx.callee.startswith('<uci') else None
    v = ctx.deref(p)
    return v


# ------------------------------------------------------------------ OnceLock / statics

@model(r'^std::sync::OnceLock::<.*>::get_or_init::<.*>$')
def _oncelock_get_or_init(ctx, p, f):
    name = p.root[1]
    # value of the initialised cell lives under the static's own root
    if ('S', name) not in ctx.st.store:
        if name not in ctx.ex.static_values:
            # a cell nobody preloaded (e.g. a derived table added by a change): run its initialiser symbolically, once, in a
            # scratch state - an initialiser depends on nothing but other statics - and keep the value as the static's content
            scratch = X.State()
            r = ctx.ex.call_closure(f, [], scratch, ctx.where)
            if r is None:
                raise Unsupported('initialiser of static %s diverges' % name)
            ctx.ex.static_values[name] = r[0]
        ctx.ex.static_value(name, ctx.st)
    return Ptr(('S', name))


@model(r'^std::sync::OnceLock::<.*>::get$')
def _oncelock_get(ctx, p):
    # the tables are treated as initialised (their initialisers are run natively); `get().is_none()` guards
    # inside the initialisers themselves are not on any path we execute symbolically.
    name = p.root[1]
    if ('S', name) not in ctx.st.store:
        ctx.ex.static_value(name, ctx.st)
    return some(Ptr(('S', name)))


# ------------------------------------------------------------------ Vec / slices

def _seq_at(ctx, p):
    v = ctx.deref(p)
    return v


@model(r'^std::vec::Vec::<.*>::new$')
def _vec_new(ctx):
    return Seq(())


@model(r'^std::vec::Vec::<.*>::with_capacity$')
def _vec_with_capacity(ctx, n):
    return Seq(())


@model(r'^<std::vec::Vec<.*> as std::default::Default>::default$')
def _vec_default(ctx):
    return Seq(())


@model(r'^std::vec::from_elem::<.*>$')
def _vec_from_elem(ctx, v, n):
    if not isinstance(n, CI):
        raise Unsupported('vec![x; n] with symbolic n')
    return Seq.of([v] * n.v)


@model(r'^std::vec::Vec::<.*>::push$')
def _vec_push(ctx, p, v):
    s = ctx.deref(p)
    if hasattr(s, 'push_model'):
        s.push_model(ctx, p, v)
        return UNIT
    ctx.write(p, Seq(s.ents + ((True, v),)))
    return UNIT


@model(r'^std::vec::Vec::<.*>::pop$')
def _vec_pop(ctx, p):
    s = ctx.deref(p)
    if hasattr(s, 'pop_model'):
        return s.pop_model(ctx, p)
    if not s.dense():
        # guarded sequence: the last *present* entry goes.  Entry k stays iff it is present and some later entry is present.
        ents = list(s.ents)
        later = [False] * len(ents)
        acc = False
        for k in reversed(range(len(ents))):
            later[k] = acc
            acc = b_or(acc, ents[k][0])
        out = NONE
        for k in range(len(ents)):          # the popped value: the present entry without a present successor
            is_last = b_and(ents[k][0], b_not(later[k]))
            if is_last is not False:
                out = ite(is_last, some(ents[k][1]), out) if is_last is not True else some(ents[k][1])
        ctx.write(p, Seq(tuple((b_and(g, later[k]), v) for k, (g, v) in enumerate(ents))))
        return out
    if not s.ents:
        return NONE
    ctx.write(p, Seq(s.ents[:-1]))
    return some(s.ents[-1][1])


@model(r'^std::vec::Vec::<.*>::(len)$')
def _vec_len(ctx, p):
    s = ctx.deref(p)
    if hasattr(s, 'len_model'):
        return s.len_model(ctx)
    return X.seq_len(s)


@model(r'^std::vec::Vec::<.*>::remove$')
def _vec_remove(ctx, p, idx):
    s = ctx.deref(p)
    if hasattr(s, 'remove_model'):
        return s.remove_model(ctx, p, idx)
    if not (isinstance(s, Seq) and s.dense() and isinstance(idx, CI)):
        raise Unsupported('Vec::remove on a sparse sequence / symbolic index')
    if idx.v >= len(s.ents):
        ctx.panic_if(True, 'removal index out of bounds')
        return X.DIVERGE
    ctx.write(p, Seq(s.ents[:idx.v] + s.ents[idx.v + 1:]))
    return s.ents[idx.v][1]


@model(r'^std::vec::Vec::<.*>::is_empty$')
def _vec_is_empty(ctx, p):
    s = ctx.deref(p)
    if s.dense():
        return len(s.ents) == 0
    return b_not(b_or(*[g for g, _ in s.ents]))


@model(r'^std::vec::Vec::<.*>::append$')
def _vec_append(ctx, p, q):
    a, b = ctx.deref(p), ctx.deref(q)
    ctx.write(p, Seq(a.ents + b.ents))
    ctx.write(q, Seq(()))
    return UNIT


@model(r'^<std::vec::Vec<.*> as std::ops::Deref(Mut)?>::deref(_mut)?$')
def _vec_deref(ctx, p):
    return p


@model(r'^<std::vec::Vec<.*> as std::ops::Index(Mut)?<usize>>::index(_mut)?$')
def _vec_index(ctx, p, i):
    s = ctx.deref(p)
    if hasattr(s, 'index_model'):
        return s.index_model(ctx, p, i)
    n = X.seq_len(s)
    oob = ctx.ex.binop('Ge', i, n, 'usize')
    if not ctx.panic_if(oob, 'Vec index out of bounds'):
        return X.DIVERGE
    return Ptr(p.root, p.path + (('i', i),))


@model(r'^core::slice::<impl \[.*\]>::(len)$')
def _slice_len(ctx, p):
    return ctx.ex.slice_len(p, ctx.st)


@model(r'^core::slice::<impl \[.*\]>::is_empty$')
def _slice_is_empty(ctx, p):
    n = ctx.ex.slice_len(p, ctx.st)
    return ctx.ex.binop('Eq', n, CI(0, 64), 'usize')


def slice_window(ctx, p):
    """(seq value, start, end) of the slice a pointer designates; start/end concrete ints required"""
    v = ctx.deref(p)
    if isinstance(v, tuple):
        v = Seq.of(v)
    if p.rng is None:
        if not isinstance(v, Seq):
            raise Unsupported('slice over %r' % (v,))
        return v, 0, len(v.ents)
    a, b = p.rng
    if not (isinstance(a, CI) and isinstance(b, CI)):
        # a window with symbolic bounds over a sequence of known extent: a read-only *view* as a sparse sequence whose entry k
        # is present iff start <= k < end (callers that need a dense window say so themselves)
        if not isinstance(v, Seq) or len(v.ents) > 64:
            raise Unsupported('symbolic slice window')
        A, B = bv(a), bv(b)
        ents = tuple((b_and(g, simp(z3.And(z3.ULE(A, k), z3.ULT(k, B)))), x) for k, (g, x) in enumerate(v.ents))
        return Seq(ents), 0, len(ents)
    return v, a.v, b.v


@model(r'^core::slice::<impl \[.*\]>::contains$')
def _slice_contains(ctx, p, kp):
    v = ctx.deref(p)
    k = ctx.deref(kp)
    if isinstance(v, KeyLog):
        return v.contains(bv(k[0]))
    s, a, b = slice_window(ctx, p)
    return b_or(*[b_and(g, struct_eq(ctx, x, k)) for g, x in s.ents[a:b]])


@model(r'^core::slice::<impl \[.*\]>::last$')
def _slice_last(ctx, p):
    v = ctx.deref(p)
    if hasattr(v, 'last_model'):
        return v.last_model(ctx, p)
    s, a, b = slice_window(ctx, p)
    if not s.dense():
        raise Unsupported('last() on sparse sequence')
    if b == a:
        return NONE
    return some(Ptr(p.root, p.path + (('i', CI(b - 1, 64)),)))


@model(r'^core::slice::<impl \[.*\]>::last_mut$')
def _slice_last_mut(ctx, p):
    return _slice_last(ctx, p)


@model(r'^core::slice::<impl \[.*\]>::get::<usize>$')
def _slice_get(ctx, p, i):
    s, a, b = slice_window(ctx, p)
    if not isinstance(i, CI):
        raise Unsupported('slice.get with symbolic index')
    if i.v >= b - a:
        return NONE
    return some(Ptr(p.root, p.path + (('i', CI(a + i.v, 64)),)))


@model(r'^core::slice::<impl \[.*\]>::swap$')
def _slice_swap(ctx, p, i, j):
    s = ctx.deref(p)
    ex = ctx.ex
    n = ex.slice_len(p, ctx.st)                       # length of the (sub)slice the pointer designates
    if not ctx.panic_if(b_or(ex.binop('Ge', i, n, 'usize'), ex.binop('Ge', j, n, 'usize')), 'slice::swap out of bounds'):
        return X.DIVERGE
    if p.rng is not None:                             # indices are relative to the window
        i = ex.binop('Add', i, p.rng[0], 'usize')
        j = ex.binop('Add', j, p.rng[0], 'usize')
    elems = list(ex.elems_of(s))
    if isinstance(i, CI) and isinstance(j, CI):
        elems[i.v], elems[j.v] = elems[j.v], elems[i.v]
    else:
        vi = X.mux(i, elems) if not isinstance(i, CI) else elems[i.v]
        vj = X.mux(j, elems) if not isinstance(j, CI) else elems[j.v]
        new = []
        for k, e in enumerate(elems):
            isi = ex.binop('Eq', i, CI(k, 64), 'usize')
            isj = ex.binop('Eq', j, CI(k, 64), 'usize')
            new.append(ite(isi, vj, ite(isj, vi, e)))
        elems = new
    ctx.write(Ptr(p.root, p.path), ex.with_elems(s, elems))
    return UNIT


@model(r'^std::slice::<impl \[.*\]>::to_vec$')
def _slice_to_vec(ctx, p):
    s, a, b = slice_window(ctx, p)
    return Seq(s.ents[a:b])


@model(r'^<std::vec::Vec<.*> as std::ops::Index<std::ops::Range(From)?<usize>>>::index$')
def _vec_index_range(ctx, p, r):
    return _slice_index_range(ctx, p, r)


@model(r'^core::slice::<impl \[.*\]>::starts_with$')
def _slice_starts_with(ctx, p, q):
    s, a, b = slice_window(ctx, p)
    t, c, d = slice_window(ctx, q)
    if not (s.dense() and t.dense()):
        raise Unsupported('starts_with on a sparse sequence')
    if d - c > b - a:
        return False
    return b_and(*[struct_eq(ctx, s.ents[a + k][1], t.ents[c + k][1]) for k in range(d - c)])


@model(r'^<\[.*\] as std::ops::Index<std::ops::Range(From)?<usize>>>::index$')
def _slice_index_range(ctx, p, r):
    ex = ctx.ex
    n = ex.slice_len(p, ctx.st)
    start = r[0]
    end = r[1] if len(r) > 1 else n
    bad = b_or(ex.binop('Gt', start, end, 'usize'), ex.binop('Gt', end, n, 'usize'))
    if not ctx.panic_if(bad, 'slice range out of bounds'):
        return X.DIVERGE
    base = p.rng[0] if p.rng is not None else CI(0, 64)
    return Ptr(p.root, p.path, (ex.binop('Add', base, start, 'usize'), ex.binop('Add', base, end, 'usize')))


# ------------------------------------------------------------------ iterators

def _entries_of_slice(ctx, p, by_ref):
    v = ctx.deref(p)
    if isinstance(v, tuple):
        ents = tuple((True, x) for x in v)
    elif isinstance(v, Seq):
        ents = v.ents
    elif isinstance(v, UFArr):
        ents = tuple((True, x) for x in v.elements())
    else:
        raise Unsupported('iter over %r' % (v,))
    a, b = 0, len(ents)
    if p.rng is not None:
        if not (isinstance(p.rng[0], CI) and isinstance(p.rng[1], CI)):
            if len(ents) > 64:
                raise Unsupported('iter over symbolic window')
            A, B = bv(p.rng[0]), bv(p.rng[1])
            inw = [simp(z3.And(z3.ULE(A, k), z3.ULT(k, B))) for k in range(len(ents))]
            if by_ref:
                dense = not (isinstance(v, Seq) and not v.dense())
                return tuple((b_and(ents[k][0], inw[k]), Ptr(p.root, p.path + ((('i', CI(k, 64)) if dense else ('e', k)),))) for k in range(len(ents)))
            return tuple((b_and(ents[k][0], inw[k]), ents[k][1]) for k in range(len(ents)))
        a, b = p.rng[0].v, p.rng[1].v
    if by_ref:
        if isinstance(v, Seq) and not v.dense():
            return tuple((ents[k][0], Ptr(p.root, p.path + (('e', k),))) for k in range(a, b))
        return tuple((ents[k][0], Ptr(p.root, p.path + (('i', CI(k, 64)),))) for k in range(a, b))
    return ents[a:b]


@model(r'^core::slice::<impl \[.*\]>::iter(_mut)?$')
def _slice_iter(ctx, p):
    return IterV(_entries_of_slice(ctx, p, True))


@model(r'^<std::vec::Vec<.*> as std::iter::IntoIterator>::into_iter$')
def _vec_into_iter(ctx, v):
    return IterV(v.ents)


@model(r'^<&(mut )?\[.*\] as std::iter::IntoIterator>::into_iter$')
def _sliceref_into_iter(ctx, p):
    return IterV(_entries_of_slice(ctx, p, True))


@model(r'^<&std::vec::Vec<.*> as std::iter::IntoIterator>::into_iter$')
def _vecref_into_iter(ctx, p):
    return IterV(_entries_of_slice(ctx, p, True))


@model(r'^<\[.*; \d+\] as std::iter::IntoIterator>::into_iter$')
def _array_into_iter(ctx, v):
    return IterV(tuple((True, x) for x in v))


@model(r'^<.* as std::iter::IntoIterator>::into_iter$')
def _into_iter_identity(ctx, v):
    if re.match(r'^<\[.*; \d+\] as ', ctx.callee):
        return IterV(tuple((True, x) for x in v))
    if re.match(r'^<std::vec::Vec<', ctx.callee) and isinstance(v, Seq):
        return IterV(v.ents)
    if re.match(r'^<&(mut )?std::vec::Vec<', ctx.callee) or re.match(r'^<&(mut )?\[', ctx.callee):
        return IterV(_entries_of_slice(ctx, v, True))
    if isinstance(v, (IterV, tuple)) or hasattr(v, 'is_iterator'):
        return v
    return X.NOT_HANDLED


@model(r'^<std::ops::Range<\w+> as std::iter::Iterator>::next$')
def _range_next(ctx, p):
    t = re.match(r'^<std::ops::Range<(\w+)>', ctx.callee).group(1)
    r = ctx.deref(p)
    ex = ctx.ex
    c = ex.binop('Lt', r[0], r[1], t)
    w = X.INT_TYPES[t][0]
    nxt = ex.binop('Add', r[0], CI(1, w), t)
    ctx.write(p, (ite(c, nxt, r[0]), r[1]))
    return mk_option(c, r[0])


@model(r'^<std::ops::Range<\w+> as std::iter::Iterator>::rev$')
def _range_rev(ctx, r):
    return ('rev', r)


@model(r'^<std::iter::Rev<std::ops::Range<\w+>> as std::iter::Iterator>::next$')
def _rev_range_next(ctx, p):
    t = re.search(r'Range<(\w+)>', ctx.callee).group(1)
    tag, r = ctx.deref(p)
    ex = ctx.ex
    c = ex.binop('Lt', r[0], r[1], t)
    w = X.INT_TYPES[t][0]
    prev = ex.binop('Sub', r[1], CI(1, w), t)
    ctx.write(p, ('rev', (r[0], ite(c, prev, r[1]))))
    return mk_option(c, prev)


@model(r'^std::ops::RangeInclusive::<\w+>::new$')
def _range_incl_new(ctx, a, b):
    return ('incl', a, b, False)


@model(r'^<std::ops::RangeInclusive<\w+> as std::iter::Iterator>::next$')
def _range_incl_next(ctx, p):
    t = re.search(r'RangeInclusive<(\w+)>', ctx.callee).group(1)
    tag, a, b, done = ctx.deref(p)
    ex = ctx.ex
    w = X.INT_TYPES[t][0]
    has = b_and(b_not(done), ex.binop('Le', a, b, t))
    last = ex.binop('Eq', a, b, t)
    # the stored start only matters while the range is not exhausted, and then it is a + 1 (kept concrete);
    # at the type's maximum the element is necessarily the last one
    at_max = isinstance(a, CI) and a.v == (1 << w) - 1
    nxt = a if at_max else ex.binop('Add', a, CI(1, w), t)
    if not isinstance(a, CI):
        nxt = ite(last, a, ex.binop('Add', a, CI(1, w), t))
    ctx.write(p, ('incl', nxt, b, b_or(done, b_and(has, last), b_not(has))))
    return mk_option(has, a)


def _iter_stage(kind):
    def f(ctx, it, clos):
        if not isinstance(it, IterV):
            # adaptor applied directly to an IntoIterator value (array by value, Vec, Option, Chain result ...)
            from .models_extra import _as_iter
            it = _as_iter(ctx, it)
            if not isinstance(it, IterV):
                raise Unsupported('%s over an unbounded range' % kind)
        return IterV(it.ents, it.stages + ((kind, clos),), it.count)
    return f


model(r'^<.* as std::iter::Iterator>::map::<.*>$')(_iter_stage('map'))
model(r'^<.* as std::iter::Iterator>::filter::<.*>$')(_iter_stage('filter'))
model(r'^<.* as std::iter::Iterator>::flat_map::<.*>$')(_iter_stage('flat_map'))


@model(r'^<.* as std::iter::Iterator>::enumerate$')
def _iter_enumerate(ctx, it):
    if it.stages or not all(g is True for g, _ in it.ents):
        raise Unsupported('enumerate over lazy/sparse iterator')
    return IterV(tuple((True, (CI(it.count + k, 64), v)) for k, (_, v) in enumerate(it.ents)))


def iter_realise(ctx, it):
    """apply the lazy stages; returns entries [(guard, value)]"""
    ents = list(it.ents)
    for kind, clos in it.stages:
        out = []
        for g, v in ents:
            if g is False:
                continue
            if kind == 'map':
                r = call_under(ctx, g, clos, [v])
                if r is None:
                    continue
                out.append((g, r))
            elif kind == 'filter':
                pv = ctx.ex.alloc(ctx.st, v)
                r = call_under(ctx, g, clos, [pv])
                if r is None:
                    continue
                out.append((b_and(g, r), v))
            elif kind == 'flat_map':
                r = call_under(ctx, g, clos, [v])
                if r is None:
                    continue
                if isinstance(r, Seq):
                    for g2, v2 in r.ents:
                        out.append((b_and(g, g2), v2))
                else:
                    raise Unsupported('flat_map closure returned %r' % (r,))
        ents = out
    return ents


@model(r'^<.* as std::iter::Iterator>::collect::<std::vec::Vec<.*>>$')
def _iter_collect_vec(ctx, it):
    if not isinstance(it, IterV):
        return X.NOT_HANDLED
    return Seq(tuple(iter_realise(ctx, it)))


@model(r'^<(std::slice::Iter(Mut)?<.*>|std::vec::IntoIter<.*>|std::iter::Enumerate<.*>|std::array::IntoIter<.*>|std::str::Chars) as std::iter::Iterator>::next$')
def _iter_next(ctx, p):
    it = ctx.deref(p)
    if it.stages:
        raise Unsupported('next() on lazy iterator')
    if not it.ents:
        return NONE
    g, v = it.ents[0]
    if g is not True:
        # sparse sequence: the next element is the first entry whose guard holds; what remains are the later
        # entries that hold and have a holding predecessor
        ents = [e for e in it.ents if e[0] is not False]
        if not ents:
            return NONE
        any_true = b_or(*[e[0] for e in ents])
        val = ents[-1][1]
        for gi, vi in reversed(ents[:-1]):
            val = ite(gi, vi, val)
        rest = []
        seen = False
        for gi, vi in ents:
            rest.append((b_and(gi, seen), vi))
            seen = b_or(seen, gi)
        ctx.write(p, IterV(tuple(e for e in rest if e[0] is not False), (), it.count + 1))
        return mk_option(any_true, val)
    ctx.write(p, IterV(it.ents[1:], (), it.count + 1))
    return some(v)


@model(r'^<.* as std::iter::Iterator>::skip$')
def _iter_skip(ctx, it, n):
    ents = iter_realise(ctx, it)
    if isinstance(n, CI):
        if all(g is True for g, _ in ents):
            return IterV(ents[n.v:])
    if not all(g is True for g, _ in ents):
        raise Unsupported('skip over a sparse iterator')
    ex = ctx.ex
    return IterV(tuple((ex.binop('Ge', CI(k, 64), n, 'usize'), v) for k, (g, v) in enumerate(ents)))


@model(r'^<.* as std::iter::Iterator>::position::<.*>$')
def _iter_position(ctx, p, clos):
    it = ctx.deref(p)
    ents = iter_realise(ctx, it)
    ex = ctx.ex
    # first active entry whose predicate holds; its index counts the active entries before it
    acc = []
    cnt = CI(0, 64)
    for k, (g, v) in enumerate(ents):
        r = call_under(ctx, g, clos, [v])
        acc.append((b_and(g, r) if r is not None else False, cnt))
        if g is True:
            cnt = ex.binop('Add', cnt, CI(1, 64), 'usize') if not isinstance(cnt, CI) else CI(cnt.v + 1, 64)
        elif g is not False:
            one = ite(g, CI(1, 64), CI(0, 64))
            cnt = ex.binop('Add', cnt, one, 'usize') if not (isinstance(cnt, CI) and cnt.v == 0) else one
    out = NONE
    for c, idx in reversed(acc):
        if c is False:
            continue
        out = some(idx) if c is True else ite(c, some(idx), out)
    return out


@model(r'^<.* as std::iter::Iterator>::any::<.*>$')
def _iter_any(ctx, p, clos):
    it = ctx.deref(p)
    ents = iter_realise(ctx, it)
    res = []
    for g, v in ents:
        r = call_under(ctx, g, clos, [v])
        res.append(b_and(g, r))
    return b_or(*res) if res else False


@model(r'^<.* as std::iter::Iterator>::find::<.*>$')
def _iter_find(ctx, p, clos):
    it = ctx.deref(p)
    ents = iter_realise(ctx, it)
    out = NONE
    conds = []
    for g, v in ents:
        pv = ctx.ex.alloc(ctx.st, v)
        r = call_under(ctx, g, clos, [pv])
        conds.append((b_and(g, r), v))
    for c, v in reversed(conds):
        out = ite(c, some(v), out) if not isinstance(c, bool) else (some(v) if c else out)
    return out


@model(r'^std::vec::Vec::<.*>::retain::<.*>$')
def _vec_retain(ctx, p, clos):
    s = ctx.deref(p)
    out = []
    for g, v in s.ents:
        pv = ctx.ex.alloc(ctx.st, v)
        r = call_under(ctx, g, clos, [pv])
        if r is None:
            continue
        keep = b_and(g, r)
        if keep is not False:
            out.append((keep, v))
    ctx.write(p, Seq(tuple(out)))
    return UNIT


# ------------------------------------------------------------------ Box / vec! macro

@model(r'^std::boxed::Box::<\[.*; \d+\]>::new_uninit$')
def _box_new_uninit(ctx):
    # Box<MaybeUninit<[T; n]>> = Box { Unique { NonNull { *const }, PhantomData }, Global }; the pointee is the
    # MaybeUninit union { uninit: (), value: ManuallyDrop<MaybeDangling<[T; n]>> }
    p = ctx.ex.alloc(ctx.st, None)
    return (((p,), UNIT), UNIT)


@model(r'^std::boxed::box_assume_init_into_vec_unsafe::<.*>$')
def _box_into_vec(ctx, b):
    p = b[0][0][0] if isinstance(b, tuple) else b
    v = ctx.deref(p)
    arr = v[1][0][0] if (isinstance(v, tuple) and len(v) == 2 and v[0] is None) else v
    return Seq.of(list(arr))


@model(r'^std::array::from_fn::<.*>$')
def _array_from_fn(ctx, clos):
    n = int(re.search(r', (\d+), \{closure', ctx.callee).group(1))
    out = []
    for i in range(n):
        r = ctx.ex.call_closure(clos, [CI(i, 64)], ctx.st, ctx.where)
        v, ctx.st = r
        out.append(v)
    return tuple(out)


# ------------------------------------------------------------------ HashSet<ZKey>

def zkey_bits(k):
    """ZKey value is a 1-tuple around u64"""
    return bv(k[0])


@model(r'^std::collections::HashSet::<.*>::new$')
def _hs_new(ctx):
    return SetV(z3.K(z3.BitVecSort(64), z3.BoolVal(False)))


@model(r'^std::collections::HashSet::<.*>::insert$')
def _hs_insert(ctx, p, k):
    s = ctx.deref(p)
    kb = zkey_bits(k)
    was = z3.Select(s.arr, kb)
    ctx.write(p, SetV(z3.Store(s.arr, kb, z3.BoolVal(True))))
    return lift(z3.Not(was))


@model(r'^std::collections::HashSet::<.*>::remove::<.*>$')
def _hs_remove(ctx, p, kp):
    s = ctx.deref(p)
    kb = zkey_bits(ctx.deref(kp))
    was = z3.Select(s.arr, kb)
    ctx.write(p, SetV(z3.Store(s.arr, kb, z3.BoolVal(False))))
    return was


@model(r'^std::collections::HashSet::<.*>::contains::<.*>$')
def _hs_contains(ctx, p, kp):
    s = ctx.deref(p)
    return z3.Select(s.arr, zkey_bits(ctx.deref(kp)))


# ------------------------------------------------------------------ misc

@model(r'^std::hint::must_use::<.*>$')
def _must_use(ctx, v):
    return v


@model(r'^core::panicking::(panic|panic_fmt|panic_explicit|unreachable_display|assert_failed.*|panic_display.*|panic_nounwind.*)')
def _panic(ctx, *args):
    ctx.ex.oblige('panic', ctx.st.guard, ctx.where, 'explicit panic/unreachable!/assert!')
    return X.DIVERGE


@model(r'^core::panicking::assert_failed')
def _assert_failed(ctx, *args):
    ctx.ex.oblige('panic', ctx.st.guard, ctx.where, 'assert_eq!/assert_ne! failed')
    return X.DIVERGE


@model(r'^std::fmt::Arguments(::<.*>)?::(new|from_str|from_str_nonconst|new_const|new_v1).*$')
def _fmt_arguments(ctx, *args):
    return Opaque('fmt::Arguments', None)


@model(r'^core::fmt::rt::Argument(::<.*>)?::new_\w+::<.*>$')
def _fmt_argument(ctx, p):
    return Opaque('fmt::Argument', None)


# ------------------------------------------------------------------ strings (concrete; abstract tokens live in props/uci_tokens.py)

def as_str(ctx, x):
    """StrV from a &str value, a String value or a pointer to either"""
    if isinstance(x, (Ptr, PtrIte)):
        x = ctx.deref(x)
    return x


@model(r'^core::str::<impl str>::chars$')
def _str_chars(ctx, s):
    s = as_str(ctx, s)
    if hasattr(s, 'chars_model'):
        return s.chars_model(ctx)
    return IterV(tuple((True, CI(ord(c), 32)) for c in s.s))


@model(r'^<std::str::Chars as std::iter::Iterator>::next$')
def _chars_next(ctx, p):
    return _iter_next(ctx, p)


@model(r'^<char as std::string::ToString>::to_string$')
def _char_to_string(ctx, p):
    c = ctx.deref(p)
    if hasattr(c, 'char_to_string'):
        return c.char_to_string(ctx)
    if not isinstance(c, CI):
        raise Unsupported('to_string of symbolic char')
    return StrV(chr(c.v))


@model(r'^<&?str as std::string::ToString>::to_string$')
def _str_to_string(ctx, s):
    return as_str(ctx, s)


@model(r'^<std::string::String as std::string::ToString>::to_string$')
def _string_to_string(ctx, s):
    return as_str(ctx, s)


@model(r'^<std::string::String as std::ops::Deref>::deref$')
def _string_deref(ctx, p):
    return as_str(ctx, p)


@model(r'^std::string::String::as_str$')
def _string_as_str(ctx, p):
    return as_str(ctx, p)


@model(r'^std::string::String::new$')
def _string_new(ctx):
    return StrV('')


@model(r'^std::string::String::is_empty$')
def _string_is_empty(ctx, p):
    s = as_str(ctx, p)
    if hasattr(s, 'is_empty_model'):
        return s.is_empty_model(ctx)
    return len(s.s) == 0


@model(r'^std::string::String::push$')
def _string_push(ctx, p, c):
    s = ctx.deref(p)
    if hasattr(s, 'push_model'):
        ctx.write(p, s.push_model(ctx, c))
        return UNIT
    if not isinstance(c, CI):
        raise Unsupported('String::push of symbolic char')
    ctx.write(p, StrV(s.s + chr(c.v)))
    return UNIT


@model(r'^core::str::<impl str>::parse::<(\w+)>$')
def _str_parse(ctx, s):
    s = as_str(ctx, s)
    t = re.search(r'parse::<(\w+)>$', ctx.callee).group(1)
    if hasattr(s, 'parse_model'):
        return s.parse_model(ctx, t)
    w, signed = X.INT_TYPES[t]
    txt = s.s
    good = re.fullmatch(r'\+?\d+' if not signed else r'[+-]?\d+', txt) is not None
    if good:
        v = int(txt)
        lo, hi = (-(1 << (w - 1)), (1 << (w - 1)) - 1) if signed else (0, (1 << w) - 1)
        if lo <= v <= hi:
            return ok(CI(v, w))
    return err(Opaque('ParseIntError'))


@model(r'^<(str|std::string::String) as std::cmp::PartialEq(<.*>)?>::eq$')
def _str_eq(ctx, a, b):
    a, b = as_str(ctx, a), as_str(ctx, b)
    if isinstance(a, (Ptr, PtrIte)):
        a = ctx.deref(a)
    if hasattr(a, 'eq_model'):
        return a.eq_model(ctx, b)
    if hasattr(b, 'eq_model'):
        return b.eq_model(ctx, a)
    return a.s == b.s
