"""Builds, from /repo's *current working tree*, (1) the MIR dump and (2) the native helper binary
(scratch copy of the crate + appended `#[cfg(rce_verif)]` modules).  Nothing is written into /repo.

Cargo target directories live under /verif/.cache so that dependencies are compiled once; the crate
itself is recompiled by cargo whenever a source file differs (cargo's own fingerprinting), so a check
always sees the tree as it is now.
"""
import fcntl
import hashlib
import json
import os
import re
import shutil
import subprocess
import sys
import time

VERIF = os.path.dirname(os.path.dirname(os.path.abspath(__file__)))
REPO = os.environ.get('RCE_REPO', '/repo')
CACHE = os.environ.get('RCE_VERIF_CACHE', os.path.join(VERIF, '.cache'))
NATIVE_SRC = os.path.join(VERIF, 'native')

ENV = dict(os.environ, CARGO_NET_OFFLINE='true', CARGO_TERM_COLOR='never')
# the helper only (never the MIR dump): dev profile (debug assertions, overflow checks) but optimised -- the search replays need the speed
HELPER_ENV = dict(ENV, CARGO_PROFILE_DEV_OPT_LEVEL='2')


class BuildError(Exception):
    pass


def tree_hash(repo=REPO):
    h = hashlib.sha256()
    for dp, dn, fns in os.walk(os.path.join(repo, 'src')):
        dn.sort()
        for fn in sorted(fns):
            p = os.path.join(dp, fn)
            h.update(p.encode())
            h.update(open(p, 'rb').read())
    for fn in ('Cargo.toml', 'Cargo.lock', 'rust-toolchain'):
        p = os.path.join(repo, fn)
        if os.path.exists(p):
            h.update(open(p, 'rb').read())
    nd = os.path.join(os.path.dirname(os.path.dirname(os.path.abspath(__file__))), 'native')     # the helper's own sources
    for fn in sorted(os.listdir(nd)):
        h.update(open(os.path.join(nd, fn), 'rb').read())
    return h.hexdigest()[:20]


class _Lock:
    def __init__(self, name):
        os.makedirs(CACHE, exist_ok=True)
        self.path = os.path.join(CACHE, name + '.lock')

    def __enter__(self):
        self.f = open(self.path, 'w')
        fcntl.flock(self.f, fcntl.LOCK_EX)
        return self

    def __exit__(self, *a):
        fcntl.flock(self.f, fcntl.LOCK_UN)
        self.f.close()


def dump_mir(repo=REPO):
    """returns (mir_text, seconds). Regenerated on every call from the working tree."""
    t0 = time.time()
    tdir = os.path.join(CACHE, 'target-mir')
    with _Lock('mir'):
        # force re-emission: rustc prints MIR only when it actually compiles the crate
        os.utime(os.path.join(repo, 'src', 'main.rs')) if False else None
        cmd = ['cargo', '+nightly', 'rustc', '--offline', '--manifest-path', os.path.join(repo, 'Cargo.toml'),
               '--target-dir', tdir, '--bin', 'rust_chess_engine', '--',
               '-Zunpretty=mir', '-Ztrim-diagnostic-paths=no', '-C', 'debug-assertions=off', '-C', 'overflow-checks=on']
        # cargo skips the rustc invocation when its fingerprint is fresh; remove the crate's fingerprint to force it
        fp = os.path.join(tdir, 'debug', '.fingerprint')
        if os.path.isdir(fp):
            for d in os.listdir(fp):
                if d.startswith('rust_chess_engine-'):
                    shutil.rmtree(os.path.join(fp, d), ignore_errors=True)
        p = subprocess.run(cmd, capture_output=True, text=True, env=ENV, cwd=repo)
        if p.returncode != 0 or 'fn ' not in p.stdout:
            raise BuildError('MIR dump failed:\n' + p.stderr[-3000:])
        return p.stdout, time.time() - t0


def _append(path, snippet_file, subst=None):
    s = open(os.path.join(NATIVE_SRC, snippet_file)).read()
    if subst:
        for a, b in subst.items():
            s = s.replace(a, b)
    with open(path, 'a') as f:
        f.write(s)


def build_helper(repo=REPO):
    """returns (path_to_binary, seconds). The binary is copied out of the shared target dir into a
    per-tree-hash file so that concurrent checks on different trees do not race."""
    t0 = time.time()
    th = tree_hash(repo)
    out = os.path.join(CACHE, 'helper-' + th)
    if os.path.exists(out) and os.path.getmtime(out) >= max(
            os.path.getmtime(os.path.join(NATIVE_SRC, f)) for f in os.listdir(NATIVE_SRC)):
        return out, 0.0
    with _Lock('native'):
        if os.path.exists(out) and os.path.getmtime(out) >= max(
                os.path.getmtime(os.path.join(NATIVE_SRC, f)) for f in os.listdir(NATIVE_SRC)):
            return out, 0.0
        scratch = os.path.join(CACHE, 'scratch')
        shutil.rmtree(scratch, ignore_errors=True)
        os.makedirs(scratch)
        for fn in ('Cargo.toml', 'Cargo.lock', 'rust-toolchain', 'config.toml'):
            if os.path.exists(os.path.join(repo, fn)):
                shutil.copy(os.path.join(repo, fn), os.path.join(scratch, fn))
        shutil.copytree(os.path.join(repo, 'src'), os.path.join(scratch, 'src'))
        src = os.path.join(scratch, 'src')
        # main.rs: rename the original main, append the dispatching one
        mp = os.path.join(src, 'main.rs')
        ms = open(mp).read()
        ms2, n = re.subn(r'(?m)^fn main\(\)', 'fn rce_orig_main()', ms)
        if n != 1:
            raise BuildError('cannot locate `fn main()` in src/main.rs (found %d)' % n)
        open(mp, 'w').write(ms2)
        _append(mp, 'append_main.rs')
        _append(os.path.join(src, 'board.rs'), 'append_board.rs')
        _append(os.path.join(src, 'search.rs'), 'append_search.rs')
        _append(os.path.join(src, 'uci.rs'), 'append_uci.rs')
        _append(os.path.join(src, 'board/piece/rook.rs'), 'append_rook.rs')
        _append(os.path.join(src, 'board/piece/bishop.rs'), 'append_bishop.rs')
        _append(os.path.join(src, 'board/piece/knight.rs'), 'append_leaper.rs', {'PIECE': 'Knight'})
        _append(os.path.join(src, 'board/piece/king.rs'), 'append_leaper.rs', {'PIECE': 'King'})
        _append(os.path.join(src, 'board/piece/pawn.rs'), 'append_pawn.rs')
        _append(os.path.join(src, 'board/zkey.rs'), 'append_zkey.rs')
        _append(os.path.join(src, 'search/move_orderer.rs'), 'append_move_orderer.rs')
        shutil.copy(os.path.join(NATIVE_SRC, 'rce_verif_native.rs'), os.path.join(src, 'rce_verif_native.rs'))
        shutil.copy(os.path.join(NATIVE_SRC, 'rce_verif_board.rs'), os.path.join(src, 'board', 'rce_verif_board.rs'))
        shutil.copy(os.path.join(NATIVE_SRC, 'rce_verif_search.rs'), os.path.join(src, 'search', 'rce_verif_search.rs'))
        shutil.copy(os.path.join(NATIVE_SRC, 'rce_verif_uci.rs'), os.path.join(src, 'uci', 'rce_verif_uci.rs'))
        # optional part (search replay: reference negamax, mate oracle, cache-neutralising hook at the entry of the inner
        # search).  It depends on more of the crate's private names than the rest, so when it does not compile on a changed
        # tree the helper is built without it and the search replays answer "unavailable".
        sp = os.path.join(src, 'search.rs')
        ss = open(sp).read()
        ss2, nh = re.subn(r'(fn alpha_beta\s*\((?:[^()]|\([^()]*\))*\)\s*->\s*Score\s*\{)',
                          r'\1\n        #[cfg(rce_verif_cachehook)]\n        rce_verif_search::cache_off_hook();\n', ss, count=1)
        if nh == 1:
            open(sp, 'w').write(ss2)
        tdir = os.path.join(CACHE, 'target-native')
        cmd = ['cargo', '+nightly', 'build', '--offline', '--manifest-path', os.path.join(scratch, 'Cargo.toml'),
               '--target-dir', tdir, '--bin', 'rust_chess_engine']
        flags = '--cfg rce_verif -A warnings --cfg rce_verif_search2' + (' --cfg rce_verif_cachehook' if nh == 1 else '')
        p = subprocess.run(cmd, capture_output=True, text=True, env=dict(HELPER_ENV, RUSTFLAGS=flags), cwd=scratch)
        if p.returncode != 0:
            if os.environ.get('VERIF_DEBUG'):
                sys.stderr.write('optional search-replay part of the helper does not build:\n' + p.stderr[-3000:] + '\n')
            p = subprocess.run(cmd, capture_output=True, text=True, env=dict(HELPER_ENV, RUSTFLAGS='--cfg rce_verif -A warnings'), cwd=scratch)
        if p.returncode != 0:
            raise BuildError('native helper build failed:\n' + p.stderr[-4000:])
        shutil.copy(os.path.join(tdir, 'debug', 'rust_chess_engine'), out)
        shutil.rmtree(scratch, ignore_errors=True)
        # keep the cache small: drop helpers of other trees
        for f in os.listdir(CACHE):
            if f.startswith('helper-') and f != os.path.basename(out):
                try:
                    os.remove(os.path.join(CACHE, f))
                except OSError:
                    pass
    return out, time.time() - t0


def run_helper(binary, args, stdin=None, timeout=120):
    p = subprocess.run([binary, 'rce-verif'] + list(args), input=stdin, capture_output=True, text=True, timeout=timeout)
    return p.returncode, p.stdout, p.stderr


def load_tables(binary):
    rc, out, err = run_helper(binary, ['tables'], timeout=300)
    if rc != 0:
        raise BuildError('table initialisers failed natively (rc=%d): %s' % (rc, err[-2000:]))
    return json.loads(out)


if __name__ == '__main__':
    b, s = build_helper()
    print(b, s)
    t = load_tables(b)
    print({k: (len(v) if isinstance(v, list) else v) for k, v in t.items()})
