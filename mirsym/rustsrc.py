"""Light-weight scan of the crate's Rust sources for ADT definitions.

MIR text names enum variants and struct fields but does not contain the
definitions; variant indices / explicit discriminants and field orders are
read from the source (MIR aggregates list fields in definition order).
"""
import os
import re


def _strip_comments(src):
    out, i, n = [], 0, len(src)
    while i < n:
        if src.startswith('//', i):
            j = src.find('\n', i)
            i = n if j < 0 else j
            continue
        if src.startswith('/*', i):
            j = src.find('*/', i)
            i = n if j < 0 else j + 2
            continue
        c = src[i]
        if c == '"':
            j = i + 1
            while j < n and src[j] != '"':
                j += 2 if src[j] == '\\' else 1
            out.append('""')
            i = j + 1
            continue
        out.append(c)
        i += 1
    return ''.join(out)


def _match_brace(s, i):
    depth = 0
    for j in range(i, len(s)):
        if s[j] == '{':
            depth += 1
        elif s[j] == '}':
            depth -= 1
            if depth == 0:
                return j
    raise ValueError('unbalanced braces')


def _split_top(s):
    out, depth, cur = [], 0, []
    for c in s:
        if c in '([{<':
            depth += 1
        elif c in ')]}>':
            depth -= 1
        if c == ',' and depth == 0:
            out.append(''.join(cur).strip())
            cur = []
        else:
            cur.append(c)
    t = ''.join(cur).strip()
    if t:
        out.append(t)
    return out


def _strip_attrs(s):
    s = s.strip()
    while s.startswith('#['):
        depth = 0
        for j, c in enumerate(s):
            if c == '[':
                depth += 1
            elif c == ']':
                depth -= 1
                if depth == 0:
                    s = s[j + 1:].strip()
                    break
    return s


def module_of(path, src_root):
    rel = os.path.relpath(path, src_root)[:-3]
    parts = rel.split(os.sep)
    if parts == ['main'] or parts == ['lib']:
        return ''
    if parts[-1] == 'mod':
        parts = parts[:-1]
    return '::'.join(parts)


FIELD_TYPES = {}


def scan(src_root):
    """Return (enums, structs).
    enums:   qualified name -> list of (variant_name, discriminant_value, n_fields, field_names|None)
    structs: qualified name -> list of field names (tuple structs: '0','1',..)
    """
    enums, structs = {}, {}
    for dp, _, fns in os.walk(src_root):
        for fn in fns:
            if not fn.endswith('.rs'):
                continue
            p = os.path.join(dp, fn)
            mod = module_of(p, src_root)
            src = _strip_comments(open(p).read())
            # cut test modules (they may define same-named helper types)
            k = src.find('#[cfg(test)]')
            if k >= 0:
                src = src[:k]
            for m in re.finditer(r'\benum\s+(\w+)\s*(<[^{]*>)?\s*\{', src):
                j = _match_brace(src, m.end() - 1)
                body = src[m.end():j]
                variants, nxt = [], 0
                for v in _split_top(body):
                    v = _strip_attrs(v)
                    if not v:
                        continue
                    mm = re.match(r'^(\w+)\s*(.*)$', v, re.S)
                    name, rest = mm.group(1), mm.group(2).strip()
                    nf, names = 0, None
                    if rest.startswith('('):
                        nf = len(_split_top(rest[1:rest.rindex(')')]))
                    elif rest.startswith('{'):
                        fl = [_strip_attrs(x) for x in _split_top(rest[1:rest.rindex('}')])]
                        names = [re.match(r'^(?:pub(?:\([^)]*\))?\s+)?(\w+)\s*:', x).group(1) for x in fl if x]
                        nf = len(names)
                    elif rest.startswith('='):
                        val = rest[1:].strip().replace('_', '')
                        nxt = int(val, 0)
                    variants.append((name, nxt, nf, names))
                    nxt += 1
                q = (mod + '::' if mod else '') + m.group(1)
                enums[q] = variants
            for m in re.finditer(r'\bstruct\s+(\w+)\s*(<[^{(;]*>)?\s*([{(;])', src):
                q = (mod + '::' if mod else '') + m.group(1)
                if m.group(3) == ';':
                    structs[q] = []
                elif m.group(3) == '{':
                    j = _match_brace(src, m.end() - 1)
                    fl = [_strip_attrs(x) for x in _split_top(src[m.end():j])]
                    names = []
                    for x in fl:
                        mm = re.match(r'^(?:pub(?:\([^)]*\))?\s+)?(\w+)\s*:\s*(.*)$', x, re.S)
                        if mm:
                            names.append(mm.group(1))
                            FIELD_TYPES[(q, mm.group(1))] = ' '.join(mm.group(2).split())
                    structs[q] = names
                else:
                    depth, j = 0, m.end() - 1
                    for j in range(m.end() - 1, len(src)):
                        if src[j] == '(':
                            depth += 1
                        elif src[j] == ')':
                            depth -= 1
                            if depth == 0:
                                break
                    structs[q] = [str(i) for i in range(len(_split_top(src[m.end():j])))]
    return enums, structs


STD_ENUMS = {
    'std::option::Option': [('None', 0, 0, None), ('Some', 1, 1, None)],
    'std::result::Result': [('Ok', 0, 1, None), ('Err', 1, 1, None)],
    'std::cmp::Ordering': [('Less', -1, 0, None), ('Equal', 0, 0, None), ('Greater', 1, 0, None)],
    'std::sync::atomic::Ordering': [('Relaxed', 0, 0, None), ('Release', 1, 0, None), ('Acquire', 2, 0, None),
                                    ('AcqRel', 3, 0, None), ('SeqCst', 4, 0, None)],
    'std::ops::ControlFlow': [('Continue', 0, 1, None), ('Break', 1, 1, None)],
    'core::panicking::AssertKind': [('Eq', 0, 0, None), ('Ne', 1, 0, None), ('Match', 2, 0, None)],
}

if __name__ == '__main__':
    import sys
    e, s = scan(sys.argv[1])
    for k, v in sorted(e.items()):
        print('enum', k, v)
    for k, v in sorted(s.items()):
        print('struct', k, v)
