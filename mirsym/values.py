"""Value domain of the symbolic executor.

ints    : CI (concrete, width known) or z3 BitVecRef
bools   : python bool or z3 BoolRef
structs/tuples/arrays : python tuple
enums   : Enum(d, pay)  d = discriminant as 64-bit int value, pay = {variant_index: tuple(fields)}
refs    : Ptr(root, path) / PtrIte([(guard, Ptr)])
models  : Seq (Vec / slices), SetV (HashSet), MapV, StrV ... (see models.py)
"""
import z3


class Unsupported(Exception):
    pass


class CI:
    __slots__ = ('v', 'w')

    def __init__(self, v, w):
        self.v = v & ((1 << w) - 1)
        self.w = w

    def __repr__(self):
        return 'CI(%d,w%d)' % (self.v, self.w)

    def __eq__(self, o):
        return isinstance(o, CI) and o.v == self.v and o.w == self.w

    def __hash__(self):
        return hash((self.v, self.w))

    def signed(self):
        return self.v - (1 << self.w) if self.v >> (self.w - 1) else self.v


def is_int(x):
    return isinstance(x, CI) or isinstance(x, z3.BitVecRef) or is_zint(x)


def is_zint(x):
    """exact integer mode: a z3 Int term standing for a machine integer (its type comes from the MIR)"""
    return isinstance(x, z3.ArithRef)


def is_bool(x):
    return isinstance(x, bool) or isinstance(x, z3.BoolRef)


def width(x):
    return x.w if isinstance(x, CI) else x.size()


def bv(x):
    """to z3 bit-vector"""
    if isinstance(x, CI):
        return z3.BitVecVal(x.v, x.w)
    return x


def zb(x):
    """to z3 Bool"""
    if isinstance(x, bool):
        return z3.BoolVal(x)
    return x


def lift(x):
    """fold a z3 term to a concrete value when it is one"""
    if isinstance(x, z3.BitVecRef):
        if z3.is_bv_value(x):
            return CI(x.as_long(), x.size())
        return x
    if isinstance(x, z3.BoolRef):
        if z3.is_true(x):
            return True
        if z3.is_false(x):
            return False
        return x
    return x


def simp(x):
    if isinstance(x, (z3.BitVecRef, z3.BoolRef)):
        return lift(z3.simplify(x))
    return x


# ------------------------------------------------------------------ boolean helpers

def b_not(a):
    if isinstance(a, bool):
        return not a
    return lift(z3.Not(a))


def b_and(*xs):
    out = []
    for x in xs:
        if x is False:
            return False
        if x is True:
            continue
        out.append(x)
    if not out:
        return True
    if len(out) == 1:
        return out[0]
    return z3.And(*out)


def b_or(*xs):
    out = []
    for x in xs:
        if x is True:
            return True
        if x is False:
            continue
        out.append(x)
    if not out:
        return False
    if len(out) == 1:
        return out[0]
    return z3.Or(*out)


def b_implies(a, b):
    return b_or(b_not(a), b)


# ------------------------------------------------------------------ structured values

class Enum:
    __slots__ = ('d', 'pay')

    def __init__(self, d, pay=None):
        if isinstance(d, int):
            d = CI(d, 64)
        self.d = d
        self.pay = pay or {}

    def __repr__(self):
        return 'Enum(%r,%r)' % (self.d, self.pay)


class Ptr:
    """pointer to  store[root] . path ; `rng` = (start, end) window for slices (values), None otherwise"""
    __slots__ = ('root', 'path', 'rng')

    def __init__(self, root, path=(), rng=None):
        self.root = root
        self.path = tuple(path)
        self.rng = rng

    def __repr__(self):
        return 'Ptr(%r,%r%s)' % (self.root, self.path, '' if self.rng is None else ',rng=%r' % (self.rng,))

    def same(self, o):
        return isinstance(o, Ptr) and self.root == o.root and _path_eq(self.path, o.path) and _rng_eq(self.rng, o.rng)


def _path_eq(a, b):
    if len(a) != len(b):
        return False
    for x, y in zip(a, b):
        if x[0] != y[0]:
            return False
        if x[0] == 'i':
            if not (x[1] is y[1] or (isinstance(x[1], CI) and x[1] == y[1])):
                return False
        elif x != y:
            return False
    return True


def _rng_eq(a, b):
    if a is None or b is None:
        return a is b
    return all(x is y or (isinstance(x, CI) and x == y) for x, y in zip(a, b))


class PtrIte:
    __slots__ = ('cases',)

    def __init__(self, cases):
        self.cases = cases  # [(guard, Ptr)]

    def __repr__(self):
        return 'PtrIte(%d)' % len(self.cases)


class FnRef:
    __slots__ = ('name',)

    def __init__(self, name):
        self.name = name

    def __repr__(self):
        return 'FnRef(%s)' % self.name


class Closure:
    __slots__ = ('name', 'env')

    def __init__(self, name, env):
        self.name = name
        self.env = env

    def __repr__(self):
        return 'Closure(%s)' % self.name


class Seq:
    """Sparse sequence: the real sequence is the sub-sequence of entries whose guard is true.
    Models Vec<T>, and (through Ptr.rng) slices of it."""
    __slots__ = ('ents',)

    def __init__(self, ents=()):
        self.ents = tuple(ents)  # ((guard, value), ...)

    @staticmethod
    def of(values):
        return Seq(tuple((True, v) for v in values))

    def dense(self):
        return all(g is True for g, _ in self.ents)

    def values(self):
        assert self.dense()
        return [v for _, v in self.ents]

    def __repr__(self):
        return 'Seq(%d%s)' % (len(self.ents), '' if self.dense() else ' sparse')


class SetV:
    """mathematical set of 64-bit keys as an SMT array key -> Bool"""
    __slots__ = ('arr',)

    def __init__(self, arr):
        self.arr = arr


class Poison:
    """result of merging two values that cannot be merged (typically dead temporaries); any use is an error"""
    __slots__ = ('msg',)

    def __init__(self, msg):
        self.msg = msg

    def __repr__(self):
        return 'Poison(%s)' % self.msg


class Opaque:
    """value whose content is never inspected (handles, formatters, ...)"""
    __slots__ = ('tag', 'data')

    def __init__(self, tag, data=None):
        self.tag = tag
        self.data = data

    def __repr__(self):
        return 'Opaque(%s)' % self.tag


UNIT = ()


# ------------------------------------------------------------------ ite / merge

def ite(g, a, b):
    """value-level if-then-else; g is bool / z3 Bool"""
    if g is True:
        return a
    if g is False:
        return b
    if a is b:
        return a
    if a is None:
        return b
    if b is None:
        return a
    if isinstance(a, Poison):
        return a
    if isinstance(b, Poison):
        return b
    if is_int(a) and is_int(b):
        if isinstance(a, CI) and isinstance(b, CI) and a == b:
            return a
        if is_zint(a) or is_zint(b):
            return z3.If(g, _to_zint_untyped(a), _to_zint_untyped(b))
        h = _hoist_xor(g, a, b)
        if h is not None:
            return h
        return z3.If(g, bv(a), bv(b))
    if is_bool(a) and is_bool(b):
        if isinstance(a, bool) and isinstance(b, bool):
            if a == b:
                return a
            return g if a else lift(z3.Not(g))
        return z3.If(g, zb(a), zb(b))
    if isinstance(a, tuple) and isinstance(b, tuple):
        if len(a) != len(b):
            raise Unsupported('ite of tuples of different length %d/%d' % (len(a), len(b)))
        out = []
        for x, y in zip(a, b):
            try:
                out.append(ite(g, x, y))
            except Unsupported as e:
                out.append(Poison(str(e)))      # only this component is unusable afterwards
        return tuple(out)
    if isinstance(a, Enum) and isinstance(b, Enum):
        pay = {}
        for k in set(a.pay) | set(b.pay):
            if k in a.pay and k in b.pay:
                pay[k] = ite(g, a.pay[k], b.pay[k])
            else:
                pay[k] = a.pay[k] if k in a.pay else b.pay[k]
        return Enum(ite(g, a.d, b.d), pay)
    if isinstance(a, (Ptr, PtrIte)) and isinstance(b, (Ptr, PtrIte)):
        if isinstance(a, Ptr) and a.same(b):
            return a
        ca = a.cases if isinstance(a, PtrIte) else [(True, a)]
        cb = b.cases if isinstance(b, PtrIte) else [(True, b)]
        return PtrIte([(b_and(g, x), p) for x, p in ca] + [(b_and(b_not(g), x), p) for x, p in cb])
    if isinstance(a, Seq) and isinstance(b, Seq):
        return seq_ite(g, a, b)
    if isinstance(a, SetV) and isinstance(b, SetV):
        return SetV(z3.If(g, a.arr, b.arr))
    if isinstance(a, Closure) and isinstance(b, Closure) and a.name == b.name:
        return Closure(a.name, ite(g, a.env, b.env))
    if isinstance(a, FnRef) and isinstance(b, FnRef) and a.name == b.name:
        return a
    if isinstance(a, Opaque) and isinstance(b, Opaque) and a.tag == b.tag:
        if a.data is b.data or (not isinstance(a.data, (z3.ExprRef, tuple)) and a.data == b.data):
            return a
        try:
            return Opaque(a.tag, ite(g, a.data, b.data))
        except Unsupported:
            return Opaque(a.tag, ('choice', g, a.data, b.data))
    if hasattr(a, 'ite_with') and type(a) is type(b):
        return a.ite_with(g, b)
    if hasattr(a, 'ite_mixed'):
        return a.ite_mixed(g, b, True)
    if hasattr(b, 'ite_mixed'):
        return b.ite_mixed(g, a, False)
    raise Unsupported('ite of %r / %r' % (type(a).__name__, type(b).__name__))


def _to_zint_untyped(x):
    if is_zint(x):
        return x
    if isinstance(x, CI):
        if x.v >> (x.w - 1):
            raise Unsupported('merging an integer-mode value with a concrete value whose sign is ambiguous')
        return z3.IntVal(x.v)
    raise Unsupported('merging an integer-mode value with a bit-vector term')


def _hoist_xor(g, a, b):
    """ite(g, b ^ w, b) -> b ^ ite(g, w, 0)   (and the mirrored form): keeps XOR accumulators flat across joins"""
    if isinstance(a, z3.BitVecRef) and z3.is_app_of(a, z3.Z3_OP_BXOR) and a.num_args() == 2:
        B = bv(b)
        if a.arg(0).eq(B):
            return B ^ z3.If(g, a.arg(1), z3.BitVecVal(0, B.size()))
        if a.arg(1).eq(B):
            return B ^ z3.If(g, a.arg(0), z3.BitVecVal(0, B.size()))
    if isinstance(b, z3.BitVecRef) and z3.is_app_of(b, z3.Z3_OP_BXOR) and b.num_args() == 2:
        A = bv(a)
        ng = z3.Not(g)
        if b.arg(0).eq(A):
            return A ^ z3.If(ng, b.arg(1), z3.BitVecVal(0, A.size()))
        if b.arg(1).eq(A):
            return A ^ z3.If(ng, b.arg(0), z3.BitVecVal(0, A.size()))
    return None


def xor_summands(t):
    """flatten a (nested) bvxor term into its list of summands, left to right"""
    out = []
    stack = [t]
    while stack:
        x = stack.pop()
        if z3.is_app_of(x, z3.Z3_OP_BXOR):
            for i in reversed(range(x.num_args())):
                stack.append(x.arg(i))
        else:
            out.append(x)
    return out


def seq_ite(g, a, b):
    ea, eb = a.ents, b.ents
    k = 0
    n = min(len(ea), len(eb))
    while k < n and ea[k][0] is eb[k][0] and ea[k][1] is eb[k][1]:
        k += 1
    if len(ea) == len(eb):
        # same shape: merge position-wise (keeps order exactly when guards coincide)
        if all(_same_guard(x[0], y[0]) for x, y in zip(ea[k:], eb[k:])):
            return Seq(ea[:k] + tuple((x[0], ite(g, x[1], y[1])) for x, y in zip(ea[k:], eb[k:])))
    ng = b_not(g)
    rest = tuple((b_and(g, x), v) for x, v in ea[k:]) + tuple((b_and(ng, x), v) for x, v in eb[k:])
    return Seq(ea[:k] + rest)


def _same_guard(x, y):
    if x is y:
        return True
    if isinstance(x, bool) and isinstance(y, bool):
        return x == y
    return False


def _apply_lifting_ite(fn, args, k):
    """fn(args) with if-then-else index terms pulled outward:  f(ite(c,a,b)) -> ite(c, f(a), f(b))"""
    while k < len(args):
        a = z3.simplify(args[k]) if not z3.is_bv_value(args[k]) else args[k]
        args[k] = a
        if z3.is_app_of(a, z3.Z3_OP_ITE):
            c, x, y = a.arg(0), a.arg(1), a.arg(2)
            l = list(args)
            l[k] = x
            r = list(args)
            r[k] = y
            return z3.If(c, _apply_lifting_ite(fn, l, k), _apply_lifting_ite(fn, r, k))
        k += 1
    return fn(*args)


class UFArr:
    """(multi-dimensional) table whose entries are applications of an uninterpreted function to the indices"""
    __slots__ = ('fn', 'nidx', 'idxs', 'dims')

    def __init__(self, fn, nidx, idxs=(), dims=None):
        self.fn, self.nidx, self.idxs = fn, nidx, tuple(idxs)
        self.dims = dims          # extents of the dimensions (when known): lets a small table be iterated element by element

    def elements(self):
        """the entries along the next dimension as a list (only for a known, small extent)"""
        k = len(self.idxs)
        if self.dims is None or k >= len(self.dims) or self.dims[k] > 64:
            raise Unsupported('iteration over an uninterpreted table of unknown or large extent')
        return [self.index_step(CI(i, 64)) for i in range(self.dims[k])]

    def index_step(self, idx):
        i = bv(idx)
        if i.size() != 64:
            i = z3.ZeroExt(64 - i.size(), i)
        idxs = self.idxs + (i,)
        if len(idxs) == self.nidx:
            return _apply_lifting_ite(self.fn, list(idxs), 0)
        return UFArr(self.fn, self.nidx, idxs, self.dims)

    def ite_with(self, g, other):
        if self.fn is other.fn and self.idxs == other.idxs:
            return self
        raise Unsupported('ite of UF tables')


class KeyLog:
    """Vec<ZKey> used as the record of earlier positions: an unknown older part, abstracted to its membership
    predicate `base` (SMT array key -> Bool), followed by the explicitly pushed keys `ents` (64-bit terms)."""
    __slots__ = ('base', 'ents', 'n0')
    ctr = [0]

    def __init__(self, base, ents=(), n0=None):
        self.base, self.ents = base, tuple(ents)
        if n0 is None:
            KeyLog.ctr[0] += 1
            n0 = z3.BitVec('poslog_older_len_%d' % KeyLog.ctr[0], 64)
        self.n0 = n0         # length of the unknown older part (arbitrary, far from wrapping)

    def len_model(self, ctx):
        ctx.ex.assume(z3.ULT(self.n0, 1 << 32))
        return self.n0 + len(self.ents)

    def remove_model(self, ctx, p, idx):
        """Vec::remove(i): supported for i == 0 when the older part is provably non-empty on this path: the oldest key
        leaves the log; whether it is still a member afterwards (duplicates) is unknown"""
        from .models import some
        i0 = idx.v == 0 if isinstance(idx, CI) else False
        if not i0:
            raise Unsupported('position log: remove at a non-zero / symbolic index')
        s = z3.Solver()
        s.set('timeout', 2000)
        for c in ctx.ex.pre:
            s.add(c)
        s.add(zb(ctx.st.guard), self.n0 == 0)
        if s.check() != z3.unsat:
            raise Unsupported('position log: remove(0) when the older part may be empty')
        KeyLog.ctr[0] += 1
        k0 = z3.BitVec('poslog_evicted_key_%d' % KeyLog.ctr[0], 64)
        still = z3.Bool('poslog_evicted_still_member_%d' % KeyLog.ctr[0])
        ctx.ex.assume(z3.Implies(zb(ctx.st.guard), z3.Select(self.base, k0)))
        ctx.write(p, KeyLog(z3.Store(self.base, k0, still), self.ents, self.n0 - 1))
        return (k0,)

    def contains(self, kb):
        return b_or(lift(z3.simplify(z3.Select(self.base, kb))) if False else z3.Select(self.base, kb), *[e == kb for e in self.ents])

    def ite_with(self, g, other):
        if len(self.ents) != len(other.ents):
            raise Unsupported('merging position logs of different length')
        base = self.base if self.base.eq(other.base) else z3.If(g, self.base, other.base)
        n0 = self.n0 if self.n0.eq(other.n0) else z3.If(g, self.n0, other.n0)
        return KeyLog(base, tuple(a if a.eq(b) else z3.If(g, a, b) for a, b in zip(self.ents, other.ents)), n0)

    def push_model(self, ctx, p, v):
        ctx.write(p, KeyLog(self.base, self.ents + (bv(v[0]),), self.n0))

    def pop_model(self, ctx, p):
        from .models import some
        if not self.ents:
            raise Unsupported('pop from the unknown older part of the position log')
        ctx.write(p, KeyLog(self.base, self.ents[:-1], self.n0))
        return some((self.ents[-1],))

    def __repr__(self):
        return 'KeyLog(+%d)' % len(self.ents)
