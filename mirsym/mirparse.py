"""Parser for `rustc -Zunpretty=mir` text (the subset this crate produces).

The output is a dict  name -> Item  where Item is a function, const, static or
promoted body:  locals with their declared types, basic blocks with statements
and one terminator each.  Everything is kept close to the text; places,
operands and rvalues are parsed into small tuples.

Place      ::= ('place', local:int, projections:tuple)
projection ::= ('deref',) | ('field', idx, type_str) | ('index', local)
             | ('cindex', idx, minlen, from_end) | ('subslice', a, b, from_end)
             | ('downcast', variant_name_or_index)
Operand    ::= ('copy', Place) | ('move', Place) | ('const', text, type_str|None)
Rvalue     ::= ('use', Operand) | ('ref', mutable:bool, Place) | ('binop', op, a, b)
             | ('unop', op, a) | ('discr', Place) | ('cast', Operand, type_str, kind)
             | ('agg', kind, operands) | ('repeat', Operand, count_text)
             | ('len', Place) | ('rawptr', Place)
Terminator ::= ('goto', bb) | ('switch', Operand, [(value:int, bb)], otherwise_bb|None)
             | ('return',) | ('unreachable',) | ('resume',)
             | ('call', dest_place|None, callee_text, [Operand], ret_bb|None)
             | ('assert', Operand, expected:bool, msg, ret_bb)
             | ('drop', Place, ret_bb)
"""
import re
from collections import namedtuple

Item = namedtuple('Item', 'kind name args ret locals blocks text_hash line const_text')
# kind: 'fn' | 'const' | 'static' | 'promoted'


class ParseError(Exception):
    pass


# ---------------------------------------------------------------- utilities

OPEN = '([{<'
CLOSE = ')]}>'


def split_top(s, sep=','):
    """Split on `sep` at bracket depth 0 (handles <>, (), [], {} and string/char literals)."""
    out, depth, cur, i, n = [], 0, [], 0, len(s)
    while i < n:
        c = s[i]
        if c == '"':
            j = i + 1
            while j < n and s[j] != '"':
                j += 2 if s[j] == '\\' else 1
            cur.append(s[i:j + 1]); i = j + 1; continue
        if c == "'" and i + 2 < n:
            # char literal 'x' or '\n' (lifetimes like 'a are followed by an identifier char, not a quote)
            if s[i + 1] == '\\':
                j = s.find("'", i + 2)
                if j != -1 and j - i <= 12:
                    cur.append(s[i:j + 1]); i = j + 1; continue
            elif s[i + 2] == "'":
                cur.append(s[i:i + 3]); i += 3; continue
        if c == '-' and i + 1 < n and s[i + 1] == '>':
            cur.append('->'); i += 2; continue
        if c in OPEN:
            depth += 1
        elif c in CLOSE:
            depth -= 1
        if depth == 0 and s.startswith(sep, i):
            out.append(''.join(cur).strip()); cur = []; i += len(sep); continue
        cur.append(c); i += 1
    last = ''.join(cur).strip()
    if last or out:
        out.append(last)
    return out


def find_top(s, sub, start=0):
    """Index of `sub` at depth 0, or -1."""
    depth, i, n = 0, 0, len(s)
    while i < n:
        c = s[i]
        if c == '"':
            j = i + 1
            while j < n and s[j] != '"':
                j += 2 if s[j] == '\\' else 1
            i = j + 1; continue
        if c == "'" and i + 2 < n:
            if s[i + 1] == '\\':
                j = s.find("'", i + 2)
                if j != -1 and j - i <= 12:
                    i = j + 1; continue
            elif s[i + 2] == "'":
                i += 3; continue
        if c == '-' and i + 1 < n and s[i + 1] == '>':
            if depth == 0 and i >= start and s.startswith(sub, i):
                return i
            i += 2; continue
        if depth == 0 and i >= start and s.startswith(sub, i):
            return i
        if c in OPEN:
            depth += 1
        elif c in CLOSE:
            depth -= 1
        i += 1
    return -1


def matching(s, i):
    """s[i] is an opening bracket; return index of its partner."""
    depth, n = 0, len(s)
    j = i
    while j < n:
        c = s[j]
        if c == '"':
            k = j + 1
            while k < n and s[k] != '"':
                k += 2 if s[k] == '\\' else 1
            j = k + 1; continue
        if c == '-' and j + 1 < n and s[j + 1] == '>':
            j += 2; continue
        if c in OPEN:
            depth += 1
        elif c in CLOSE:
            depth -= 1
            if depth == 0:
                return j
        j += 1
    raise ParseError('unbalanced: ' + s[i:i + 80])


# ---------------------------------------------------------------- places / operands

def parse_place(s):
    s = s.strip()
    p, rest = _place(s)
    if rest.strip():
        raise ParseError('trailing in place: %r of %r' % (rest, s))
    return p


def _place(s):
    """Parse a place at the start of s; return (place, rest)."""
    s = s.lstrip()
    if s.startswith('('):
        j = matching(s, 0)
        inner = s[1:j]
        rest = s[j + 1:]
        base = _paren_place(inner)
    else:
        m = re.match(r'_(\d+)', s)
        if not m:
            raise ParseError('not a place: %r' % s[:80])
        base = ('place', int(m.group(1)), ())
        rest = s[m.end():]
    # postfix projections: [..]
    while rest.startswith('['):
        j = matching(rest, 0)
        idx = rest[1:j].strip()
        rest = rest[j + 1:]
        m = re.match(r'^_(\d+)$', idx)
        if m:
            proj = ('index', int(m.group(1)))
        else:
            m = re.match(r'^(-?)(\d+) of (\d+)$', idx)
            if m:
                proj = ('cindex', int(m.group(2)), int(m.group(3)), m.group(1) == '-')
            else:
                m = re.match(r'^(\d+):(-?)(\d+)$', idx) or re.match(r'^(\d+)\.\.(-?)(\d+)$', idx)
                if m:
                    proj = ('subslice', int(m.group(1)), int(m.group(3)), m.group(2) == '-')
                else:
                    raise ParseError('index projection %r' % idx)
        base = ('place', base[1], base[2] + (proj,))
    return base, rest


def _paren_place(inner):
    inner = inner.strip()
    if inner.startswith('*'):
        p, rest = _place(inner[1:])
        if rest.strip():
            raise ParseError('deref rest %r' % rest)
        return ('place', p[1], p[2] + (('deref',),))
    # (P as Variant)   or   (P.N: TYPE)
    p, rest = _place(inner)
    rest = rest.strip()
    if rest.startswith('as '):
        v = rest[3:].strip()
        m = re.match(r'^variant#(\d+)$', v)
        return ('place', p[1], p[2] + (('downcast', int(m.group(1)) if m else v),))
    m = re.match(r'^\.(\d+): (.*)$', rest, re.S)
    if m:
        return ('place', p[1], p[2] + (('field', int(m.group(1)), m.group(2).strip()),))
    if not rest:
        return p
    raise ParseError('paren place %r' % inner[:100])


def parse_operand(s):
    s = s.strip()
    if s.startswith('copy '):
        return ('copy', parse_place(s[5:]))
    if s.startswith('move '):
        return ('move', parse_place(s[5:]))
    if s.startswith('no_retag '):
        return parse_operand(s[9:])
    if s.startswith('const '):
        return parse_const(s[6:].strip())
    # bare function items used as operands
    return ('const', s, None)


INT_SUFFIX = re.compile(r'^(-?\d+)_(u8|u16|u32|u64|u128|usize|i8|i16|i32|i64|i128|isize)$')


def parse_const(t):
    m = INT_SUFFIX.match(t)
    if m:
        return ('const', int(m.group(1)), m.group(2))
    if t in ('true', 'false'):
        return ('const', t == 'true', 'bool')
    if t == '()':
        return ('const', (), '()')
    if t.startswith('"'):
        return ('const', ('str', _unescape(t[1:-1])), '&str')
    if t.startswith('b"'):
        return ('const', ('bytes', _unescape_bytes(t[2:-1])), '&[u8]')
    if t.startswith("'") and t.endswith("'"):
        return ('const', ('char', _unescape(t[1:-1])), 'char')
    if t.startswith('{') and t.endswith('}'):
        inner = t[1:-1]
        k = find_top(inner, ': ')
        if k >= 0:
            return ('const', ('alloc', inner[:k].strip()), inner[k + 2:].strip())
        return ('const', ('alloc', inner.strip()), None)
    m = re.match(r'^ZeroSized: (.*)$', t)
    if m:
        return ('const', ('zst', m.group(1)), m.group(1))
    return ('const', ('named', t), None)


def _unescape_bytes(s):
    """byte string literal -> python str with one char per byte (latin-1)"""
    try:
        return bytes(s, 'utf-8').decode('unicode_escape')
    except Exception:
        return s


def _unescape(s):
    try:
        return bytes(s, 'utf-8').decode('unicode_escape').encode('latin-1').decode('utf-8')
    except Exception:
        return s


BINOPS = {'Add', 'Sub', 'Mul', 'Div', 'Rem', 'BitXor', 'BitAnd', 'BitOr', 'Shl', 'Shr', 'Eq', 'Lt', 'Le',
          'Ne', 'Ge', 'Gt', 'Offset', 'AddWithOverflow', 'SubWithOverflow', 'MulWithOverflow',
          'AddUnchecked', 'SubUnchecked', 'MulUnchecked', 'ShlUnchecked', 'ShrUnchecked', 'Cmp'}
UNOPS = {'Not', 'Neg', 'PtrMetadata'}


def parse_rvalue(s):
    s = s.strip()
    if s.startswith('&raw '):
        t = s[5:]
        t = t[t.index(' ') + 1:]
        if t.startswith('(fake) '):          # `&raw const (fake) (*_x)`: bounds-check helper, same place
            t = t[len('(fake) '):]
        return ('rawptr', parse_place(t))
    if s.startswith('&mut '):
        return ('ref', True, parse_place(s[5:]))
    if s.startswith('&fake '):
        t = s[6:].split(' ', 1)[1] if s[6:].startswith(('shallow', 'deep')) else s[6:]
        return ('ref', False, parse_place(t))
    if s.startswith('&'):
        return ('ref', False, parse_place(s[1:]))
    if s.startswith('discriminant('):
        return ('discr', parse_place(s[len('discriminant('):-1]))
    if s.startswith('Len('):
        return ('len', parse_place(s[4:-1]))
    if s.startswith('CopyForDeref('):
        return ('use', ('copy', parse_place(s[len('CopyForDeref('):-1])))
    m = re.match(r'^([A-Za-z]+)\(', s)
    if m and m.group(1) in BINOPS and s.endswith(')'):
        args = split_top(s[m.end():-1])
        if len(args) == 2:
            return ('binop', m.group(1), parse_operand(args[0]), parse_operand(args[1]))
    if m and m.group(1) in UNOPS and s.endswith(')'):
        return ('unop', m.group(1), parse_operand(s[m.end():-1]))
    # array aggregate / repeat
    if s.startswith('['):
        j = matching(s, 0)
        if j == len(s) - 1:
            inner = s[1:-1]
            k = find_top(inner, '; ')
            if k >= 0:
                return ('repeat', parse_operand(inner[:k]), inner[k + 2:].strip())
            return ('agg', ('array',), [parse_operand(x) for x in split_top(inner)] if inner.strip() else [])
    # tuple aggregate
    if s.startswith('('):
        j = matching(s, 0)
        if j == len(s) - 1 and not re.match(r'^\((\*|_\d+ as |\(|_\d+\.)', s):
            inner = s[1:-1].strip()
            if inner.endswith(','):
                inner = inner[:-1]
            return ('agg', ('tuple',), [parse_operand(x) for x in split_top(inner)] if inner else [])
    # cast:  OPERAND as TYPE (Kind)
    if s.startswith(('copy ', 'move ', 'const ')) or re.match(r'^[A-Za-z_<{]', s):
        k = _find_cast(s)
        if k is not None:
            op_text, ty, kind = k
            return ('cast', parse_operand(op_text), ty, kind)
    if s.startswith(('copy ', 'move ', 'const ', 'no_retag ')):
        return ('use', parse_operand(s))
    # ADT aggregates:  Path { f: op, .. } | Path(op, ..) | Path
    if s.endswith('}') and not s.startswith('{closure') or (s.startswith('{closure') and s.endswith('}')):
        # find the ' { ' that opens the field list at depth 0 (closure names contain braces)
        if s.startswith('{closure') or s.startswith('{coroutine'):
            j = matching(s, 0)
            name = s[:j + 1]
            rest = s[j + 1:].strip()
            if not rest:
                return ('agg', ('adt', name), [])
            inner = rest[1:-1].strip()
            fields = []
            for f in split_top(inner):
                k = find_top(f, ': ')
                fields.append(parse_operand(f[k + 2:]))
            return ('agg', ('closure', name), fields)
        k = find_top(s, ' { ')
        if k >= 0:
            name = s[:k]
            inner = s[k + 3:-1].strip()
            fields = []
            for f in split_top(inner):
                if not f:
                    continue
                kk = find_top(f, ': ')
                fields.append(parse_operand(f[kk + 2:]))
            return ('agg', ('adt', name), fields)
    if s.endswith(')'):
        k = _last_top_paren(s)
        if k is not None:
            name = s[:k]
            inner = s[k + 1:-1]
            return ('agg', ('adt', name), [parse_operand(x) for x in split_top(inner)] if inner.strip() else [])
    if re.match(r'^[A-Za-z_<]', s):
        return ('agg', ('adt', s), [])
    raise ParseError('rvalue %r' % s[:200])


def _last_top_paren(s):
    """index of the '(' matching the final ')' if it is at depth 0 after a path."""
    depth = 0
    for i in range(len(s) - 1, -1, -1):
        c = s[i]
        if c in CLOSE and not (c == '>' and i > 0 and s[i - 1] == '-'):
            depth += 1
        elif c in OPEN:
            depth -= 1
            if depth == 0:
                return i if c == '(' and i > 0 else None
    return None


def _find_cast(s):
    # "... as TYPE (Kind)" at the very end, with " as " at depth 0
    m = re.search(r' \(([A-Za-z]+(\(.*\))?(, [A-Za-z]+)?)\)$', s)
    if not m:
        return None
    body = s[:m.start()]
    k = -1
    pos = 0
    while True:
        j = find_top(body, ' as ', pos)
        if j < 0:
            break
        k = j
        pos = j + 4
    if k < 0:
        return None
    return body[:k], body[k + 4:].strip(), m.group(1)


# ---------------------------------------------------------------- statements / terminators

def parse_statement(s):
    """s without trailing ';'. Returns ('assign', place, rvalue) | ('setdiscr', place, idx) | ('nop',)"""
    if s.startswith(('StorageLive', 'StorageDead', 'ConstEvalCounter', 'nop', 'FakeRead', 'PlaceMention',
                     'AscribeUserType', 'Retag', 'Coverage', 'Deinit', 'BackwardIncompatibleDropHint')):
        return ('nop',)
    m = re.match(r'^discriminant\((.*)\) = (\d+)$', s)
    if m:
        return ('setdiscr', parse_place(m.group(1)), int(m.group(2)))
    k = find_top(s, ' = ')
    if k < 0:
        raise ParseError('statement %r' % s[:200])
    return ('assign', parse_place(s[:k]), parse_rvalue(s[k + 3:]))


def _bb(t):
    return int(t.strip()[2:])


def parse_terminator(s):
    if s.startswith('goto -> '):
        return ('goto', _bb(s[8:]))
    if s == 'return':
        return ('return',)
    if s == 'unreachable':
        return ('unreachable',)
    if s.startswith('resume') or s.startswith('abort') or s.startswith('terminate'):
        return ('resume',)
    if s.startswith('switchInt('):
        j = matching(s, len('switchInt'))
        op = parse_operand(s[len('switchInt('):j])
        tg = s[j + 1:].strip()
        assert tg.startswith('-> [') and tg.endswith(']'), tg
        targets, otherwise = [], None
        for t in split_top(tg[4:-1]):
            a, b = t.rsplit(': ', 1)
            if a == 'otherwise':
                otherwise = _bb(b)
            else:
                targets.append((_parse_switch_value(a), _bb(b)))
        return ('switch', op, targets, otherwise)
    if s.startswith('assert('):
        j = matching(s, len('assert'))
        inner = split_top(s[len('assert('):j])
        cond = inner[0]
        expected = True
        if cond.startswith('!'):
            expected = False
            cond = cond[1:]
        msg = inner[1] if len(inner) > 1 else ''
        m = re.search(r'success: (bb\d+)', s[j:])
        return ('assert', parse_operand(cond), expected, msg, _bb(m.group(1)))
    if s.startswith('drop('):
        j = matching(s, 4)
        m = re.search(r'return: (bb\d+)', s[j:])
        return ('drop', parse_place(s[5:j]), _bb(m.group(1)) if m else None)
    if s.startswith('falseEdge') or s.startswith('falseUnwind'):
        m = re.search(r'real: (bb\d+)', s)
        return ('goto', _bb(m.group(1)))
    # call:  [PLACE = ] CALLEE(ARGS) -> [return: bbN, unwind ...]  |  -> unwind continue | -> bbN
    k = find_top(s, ' -> ')
    if k < 0:
        raise ParseError('terminator %r' % s[:200])
    head, tail = s[:k], s[k + 4:]
    ret = None
    m = re.search(r'return: (bb\d+)', tail)
    if m:
        ret = _bb(m.group(1))
    else:
        m = re.match(r'^(bb\d+)$', tail.strip())
        if m:
            ret = _bb(m.group(1))
    dest = None
    ke = find_top(head, ' = ')
    if ke >= 0:
        dest = parse_place(head[:ke])
        head = head[ke + 3:]
    kp = _last_top_paren(head)
    if kp is None:
        raise ParseError('call %r' % head[:200])
    callee = head[:kp].strip()
    inner = head[kp + 1:-1]
    args = [parse_operand(a) for a in split_top(inner)] if inner.strip() else []
    return ('call', dest, callee, args, ret)


def _parse_switch_value(a):
    a = a.strip()
    m = re.match(r'^(-?\d+)', a)
    if m:
        return int(m.group(1))
    if a == 'false':
        return 0
    if a == 'true':
        return 1
    raise ParseError('switch value %r' % a)


# ---------------------------------------------------------------- items

HEAD_FN = re.compile(r'^fn (.*) \{$')
HEAD_CONST = re.compile(r'^(const|static(?: mut)?) (.*)$')


def parse_mir(text):
    import hashlib
    lines = text.split('\n')
    items = {}
    i, n = 0, len(lines)
    skip_next_fn = False
    while i < n:
        line = lines[i]
        if line.startswith('// MIR FOR CTFE'):
            skip_next_fn = True
            i += 1; continue
        if line.startswith('alloc') and line.rstrip().endswith('{'):
            while i < n and lines[i] != '}':
                i += 1
            i += 1; continue
        if line.startswith('fn '):
            j = i
            while lines[j] != '}':
                j += 1
            if skip_next_fn:
                skip_next_fn = False
                i = j + 1; continue
            body = lines[i:j + 1]
            it = _parse_fn(body, i + 1, hashlib)
            items.setdefault(it.name, it)
            i = j + 1; continue
        m = HEAD_CONST.match(line)
        if m:
            skip_next_fn = False
            if line.rstrip().endswith('{'):
                j = i
                while lines[j] != '}':
                    j += 1
                body = lines[i:j + 1]
                it = _parse_constbody(body, i + 1, hashlib)
                items.setdefault(it.name, it)
                i = j + 1; continue
            else:
                # const NAME: TYPE = const VALUE;
                s = m.group(2).rstrip(';')
                k = find_top(s, ' = ')
                head, val = s[:k], s[k + 3:]
                kk = _name_type_split(head)
                name, ty = head[:kk], head[kk + 2:]
                items.setdefault(name, Item('const', name, [], ty, {}, {}, '', i + 1, val))
                i += 1; continue
        i += 1
    return items


def _name_type_split(head):
    # split 'NAME: TYPE' where NAME may contain "<impl at file:L:C: L:C>"
    depth = 0
    i, n = 0, len(head)
    while i < n:
        c = head[i]
        if c == '-' and i + 1 < n and head[i + 1] == '>':
            i += 2; continue
        if c in OPEN:
            depth += 1
        elif c in CLOSE:
            depth -= 1
        elif c == ':' and depth == 0 and head.startswith(': ', i) and not head.startswith('::', i) and (i == 0 or head[i - 1] != ':'):
            return i
        i += 1
    raise ParseError('name/type split %r' % head)


def _parse_sig(sig):
    # NAME(ARGS) -> RET
    k = find_top(sig, ' -> ')
    # the top-level ' -> ' after the arg list; name itself has no top-level '->' outside brackets
    # find the arg list: last top-level '(' group before k
    if k < 0:
        head, ret = sig, '()'
    else:
        head, ret = sig[:k], sig[k + 4:]
    kp = _last_top_paren(head)
    name = head[:kp]
    args = []
    inner = head[kp + 1:-1]
    for a in split_top(inner):
        if not a:
            continue
        kk = a.index(': ')
        args.append((int(a[1:kk]), a[kk + 2:].strip()))
    return name, args, ret.strip()


def _parse_body(body, locals_):
    blocks = {}
    cur = None
    stmts = []
    pending = ''
    for raw in body:
        s = raw.strip()
        if not s:
            continue
        if s.startswith('let '):
            m = re.match(r'^let (?:mut )?_(\d+): (.*);$', s)
            if m:
                locals_[int(m.group(1))] = m.group(2)
            continue
        if s.startswith('debug ') or s.startswith('scope ') or s == '}':
            if s == '}' and cur is not None and pending == '':
                pass
            continue
        m = re.match(r'^bb(\d+)(?: \(cleanup\))?: \{$', s)
        if m:
            cur = int(m.group(1))
            stmts = []
            blocks[cur] = stmts
            continue
        if cur is None:
            continue
        if not s.endswith(';'):
            pending += s + ' '
            continue
        s = (pending + s)[:-1]
        pending = ''
        stmts.append(s)
    out = {}
    for b, ss in blocks.items():
        if not ss:
            out[b] = ([], ('unreachable',))
            continue
        try:
            sts = [parse_statement(x) for x in ss[:-1]]
            term = parse_terminator(ss[-1])
        except ParseError as e:
            out[b] = ([], ('unparsed', str(e)))
            continue
        out[b] = ([x for x in sts if x[0] != 'nop'], term)
    return out


def _parse_fn(body, lineno, hashlib):
    m = HEAD_FN.match(body[0])
    name, args, ret = _parse_sig(m.group(1))
    locals_ = {0: ret}
    for k, t in args:
        locals_[k] = t
    blocks = _parse_body(body[1:], locals_)
    h = hashlib.sha256('\n'.join(body).encode()).hexdigest()[:16]
    return Item('fn', name, [k for k, _ in args], ret, locals_, blocks, h, lineno, None)


def _parse_constbody(body, lineno, hashlib):
    m = HEAD_CONST.match(body[0])
    s = m.group(2)
    assert s.endswith(' = {'), s
    head = s[:-4]
    kk = _name_type_split(head)
    name, ty = head[:kk], head[kk + 2:]
    locals_ = {0: ty}
    blocks = _parse_body(body[1:], locals_)
    kind = 'promoted' if re.search(r'::promoted\[\d+\]$', name) else ('static' if m.group(1).startswith('static') else 'const')
    h = hashlib.sha256('\n'.join(body).encode()).hexdigest()[:16]
    return Item(kind, name, [], ty, locals_, blocks, h, lineno, None)


if __name__ == '__main__':
    import sys
    items = parse_mir(open(sys.argv[1]).read())
    bad = 0
    for it in items.values():
        for b, (sts, term) in it.blocks.items():
            if term[0] == 'unparsed':
                bad += 1
                print(it.name, b, term[1][:300])
    print(len(items), 'items;', bad, 'unparsed blocks')
