"""C02 — unmaking a move restores the position exactly.

One inductive step from an arbitrary state: S |= Inv (I1-I5, I8), mv |= Cons(S, mv), per move shape.
 (a) make_move; unmake_move  restores every component (15 piece sets, turn, counters, en-passant file,
     history stack, key, set of earlier keys);
 (b) Inv(make(S)) except I5/I7, so that the lemma applies again to the state after any make (nesting, any depth);
 (c) is_legal_move (make; is_in_check(&self); unmake) leaves S unchanged;
 (d) no panic on any of those paths.
"""
import json
import re
import os
import z3

from mirsym.values import *
from mirsym import native, solve
from . import boardsym as B
from . import boardstep as BS

LEVEL = 'proof'

PRED_S1 = 'pre.zkey in pre.position_history'


def known_open(run, fid):
    return any(e.get('id') == fid for e in run.load_known())


def compare_native(run, cmd, btoks, ptoks):
    """run make+unmake natively; returns (status, list of differing field names)"""
    stt, out = BS.native_board_cmd(run, cmd, btoks, ptoks)
    if stt != 'OK':
        return stt, [str(out)]
    if cmd == 'legal':
        out = out[1:]
    pre = BS.parse_board_tokens(btoks)
    post = BS.parse_board_tokens(out)
    diff = [k for k in pre if pre[k] != post[k]]
    return 'OK', diff


def worker(run, shape):
    name = B.shape_name(shape)
    stp = BS.Step(run, shape, zobrist='uf')
    S, m, ex, pre = stp.S, stp.m, stp.ex, stp.pre
    P0 = B.board_parts(stp.board0)

    b1 = stp.make()
    g1 = stp.guard()
    # ---- (b) Inv of the state after make
    inv1 = BS.inv_of_value(b1, 1 - S.turn)
    q = run.decide('%s/inv-after-make' % name, pre + [g1, z3.Not(z3.And(*[c for _, c in inv1]))],
                   note='Inv (I1,I2,I3,I4,I8) holds again after make_move')
    if q.verdict == 'sat':
        failing = [n for n, c in inv1 if not z3.is_true(q.model.eval(c, model_completion=True))]
        btoks = BS.board_tokens_from_model(q.model, S)
        ptoks = BS.shape_ply_tokens(q.model, m)
        stt, out = BS.native_board_cmd(run, 'make', btoks, ptoks)
        run.violation('state after make_move (%s) violates %s' % (name, failing),
                      {'cmd': 'make', 'board': btoks, 'ply': ptoks, 'expect': 'Inv after make', 'failing': failing, 'native': str(out)[:2000]})

    b2 = stp.unmake()
    g2 = stp.guard()
    P2 = B.board_parts(b2)
    # vacuity witness: the assumptions of this shape are satisfiable and the end of make;unmake is reachable
    qv = run.decide('%s/vacuity' % name, pre + [g2], note='witness: Inv /\\ Cons /\\ no-panic path is satisfiable (must be sat)')
    run.queries.pop()
    run.vacuity.append({'shape': name, 'reachable': qv.verdict})
    if qv.verdict != 'sat':
        run.inconclusive.append('shape %s is vacuous (assumptions %s)' % (name, qv.verdict))
        return

    def sat_case(q, what, group):
        btoks = BS.board_tokens_from_model(q.model, S)
        ptoks = BS.shape_ply_tokens(q.model, m)
        stt, diff = compare_native(run, 'makeunmake', btoks, ptoks)
        if stt == 'OK' and diff:
            run.violation('%s: make+unmake of %s does not restore %s' % (what, name, diff),
                          {'cmd': 'makeunmake', 'board': btoks, 'ply': ptoks, 'expect': 'board unchanged', 'differs': diff})
        elif stt == 'PANIC':
            run.violation('%s: make+unmake of %s panics: %s' % (what, name, diff), {'cmd': 'makeunmake', 'board': btoks, 'ply': ptoks})
        else:
            run.inconclusive.append('%s/%s: model does not reproduce natively (%s %s)' % (name, group, stt, diff))

    # ---- (a) restoration
    pieces_ne = z3.Or(*[P0[n] != P2[n] for n in B.BB_FIELDS])
    q = run.decide('%s/restore-pieces' % name, pre + [g2, pieces_ne], note='15 piece sets after make;unmake equal the originals')
    if q.verdict == 'sat':
        sat_case(q, 'piece sets', 'pieces')
    ep_ne = z3.Or(P0['ep_some'] != P2['ep_some'], z3.And(P0['ep_some'] == 1, P0['ep_file'] != P2['ep_file'])) if P2['ep_file'] is not None \
        else (P0['ep_some'] != P2['ep_some'])
    q = run.decide('%s/restore-scalars' % name, pre + [g2, z3.Or(P0['turn'] != P2['turn'], P0['fullmove'] != P2['fullmove'], ep_ne)],
                   note='side to move, full-move counter, en-passant file restored')
    if q.verdict == 'sat':
        sat_case(q, 'scalars', 'scalars')
    q = run.decide('%s/restore-key' % name, pre + [g2, P0['zkey'] != P2['zkey']], kind='smt',
                   note='incremental key restored (Zobrist words uninterpreted: for every table)')
    if q.verdict == 'sat':
        sat_case(q, 'key', 'key')
    # history stack: same length, same (unread) prefix, same top record
    h0, h2 = P0['history'], P2['history']
    if len(h2.ents) != len(h0.ents) or h2.ents[0][1] is not B.PREFIX or not h2.dense():
        run.violation('history stack shape after make;unmake differs (%s)' % name, {'shape': name, 'len': len(h2.ents)})
    else:
        t0, t2 = B.ply_terms(h0.ents[-1][1]), B.ply_terms(h2.ents[-1][1])
        ne = z3.Or(*[a[1] != b[1] for a, b in zip(t0, t2)])
        q = run.decide('%s/restore-history' % name, pre + [g2, ne], note='top undo record after make;unmake equals the original')
        if q.verdict == 'sat':
            sat_case(q, 'history', 'history')
    # set of earlier keys
    ph_ne = B.ph_differs(P0['ph'], P2['ph'])
    q = run.decide('%s/restore-position-history' % name, pre + [g2, ph_ne], kind='smt',
                   note='set of earlier position keys after make;unmake equals the original set (array extensionality)')
    if q.verdict == 'sat':
        in_ph = z3.is_true(q.model.eval(z3.Select(S.ph, S.zkey), model_completion=True))
        zk = BS.mint(q.model, S.zkey)
        btoks = BS.board_tokens_from_model(q.model, S, ph_keys=[zk] if in_ph else [])
        ptoks = BS.shape_ply_tokens(q.model, m)
        stt, diff = compare_native(run, 'makeunmake', btoks, ptoks)
        if stt == 'OK' and 'ph' in diff:
            if in_ph and known_open(run, 'S1'):
                run.known_finding('S1 make;unmake forgets an earlier occurrence of the current position (%s)' % PRED_S1)
                q2 = run.decide('%s/restore-position-history/excluding-S1' % name, pre + [g2, z3.Not(z3.Select(S.ph, S.zkey)), ph_ne],
                                kind='smt', note='same obligation with the known finding S1 excluded')
                if q2.verdict == 'sat':
                    btoks = BS.board_tokens_from_model(q2.model, S)
                    ptoks = BS.shape_ply_tokens(q2.model, m)
                    stt, diff = compare_native(run, 'makeunmake', btoks, ptoks)
                    if stt == 'OK' and 'ph' in diff:
                        run.violation('record of earlier positions not restored by make;unmake of %s (beyond known finding S1)' % name,
                                      {'cmd': 'makeunmake', 'board': btoks, 'ply': ptoks, 'expect': 'board unchanged', 'differs': diff})
                    else:
                        run.inconclusive.append('%s/ph: second model does not reproduce natively' % name)
            else:
                run.violation('make;unmake of %s forgets an earlier occurrence of the current position '
                              '(position key already in the record of earlier positions: %s)' % (name, in_ph),
                              {'cmd': 'makeunmake', 'board': btoks, 'ply': ptoks, 'expect': 'board unchanged', 'differs': diff,
                               'role': PRED_S1 if in_ph else 'other'})
        else:
            # the model may depend on the length of the (abstracted) older part of the log: replay with long logs
            n0 = getattr(P0['ph'], 'n0', None)
            n0m = BS.mint(q.model, n0) if n0 is not None else 0
            done = False
            for L in sorted({x for x in (n0m, 64, 100, 128, 256) if 0 < x <= 1000}):
                keys = ([zk] if in_ph else []) + [(0x9E3779B97F4A7C15 * (i + 1)) & 0xffffffffffffffff for i in range(L)]
                keys = keys[:L]
                btoks = BS.board_tokens_from_model(q.model, S, ph_keys=keys)
                stt, diff = compare_native(run, 'makeunmake', btoks, ptoks)
                if stt == 'OK' and 'ph' in diff:
                    run.violation('make;unmake of %s does not restore the record of earlier positions when it holds %d keys' % (name, L),
                                  {'cmd': 'makeunmake', 'board': btoks, 'ply': ptoks, 'expect': 'board unchanged', 'differs': diff, 'role': 'long-log'})
                    done = True
                    break
            if not done:
                run.inconclusive.append('%s/ph: model does not reproduce natively (%s %s)' % (name, stt, diff))
    if len(run.samples) < 1:
        run.samples.append({'shape': name, 'obligation': 'forall S|=Inv, mv|=Cons: unmake(make(S,mv)) == S, componentwise',
                            'queries': [q['id'] for q in run.queries[-6:]]})

    # ---- (d) panics on make / unmake
    for ob, qq in run.check_obligations(ex, '%s/make-unmake' % name):
        btoks = BS.board_tokens_from_model(qq.model, S)
        ptoks = BS.shape_ply_tokens(qq.model, m)
        stt, out = BS.native_board_cmd(run, 'makeunmake', btoks, ptoks)
        if stt == 'PANIC':
            run.violation('make/unmake of %s panics: %s' % (name, out), {'cmd': 'makeunmake', 'board': btoks, 'ply': ptoks, 'expect': 'no panic'})
        else:
            run.inconclusive.append('%s: %s obligation sat but not reproduced natively: %s' % (name, ob.kind, ob))
    run.absorb(ex)

    # ---- (c) legality probe leaves the position unchanged (is_in_check is `&self`: replaced by a free Bool)
    stp2 = BS.Step(run, shape, zobrist='uf', tag='L')
    S2, m2, ex2, pre2 = stp2.S, stp2.m, stp2.ex, stp2.pre
    chk = z3.Bool('in_check_result')
    ex2.override('board::Board::is_in_check', lambda ctx, bp, color: chk)
    res = stp2.is_legal()
    Q0, Q2 = B.board_parts(stp2.board0), B.board_parts(stp2.board())
    g = stp2.guard()
    ne = [Q0[n] != Q2[n] for n in B.BB_FIELDS + ['turn', 'fullmove', 'ep_some', 'zkey']]
    if Q2['ep_file'] is not None:
        ne.append(z3.And(Q0['ep_some'] == 1, Q0['ep_file'] != Q2['ep_file']))
    t0, t2 = B.ply_terms(Q0['history'].ents[-1][1]), B.ply_terms(Q2['history'].ents[-1][1])
    ne += [a[1] != b[1] for a, b in zip(t0, t2)]
    ne.append(B.enum_d(res) != z3.If(chk, z3.BitVecVal(1, 64), z3.BitVecVal(0, 64)))
    q = run.decide('%s/legality-probe-pure' % name, pre2 + [g, z3.Or(*ne)], kind='smt',
                   note='is_legal_move leaves every component (except the known S1 case of the key set) unchanged and reports Err iff in check')
    if q.verdict == 'sat':
        btoks = BS.board_tokens_from_model(q.model, S2)
        ptoks = BS.shape_ply_tokens(q.model, m2)
        stt, diff = compare_native(run, 'legal', btoks, ptoks)
        if stt == 'OK' and diff:
            run.violation('is_legal_move(%s) changes the position: %s' % (name, diff), {'cmd': 'legal', 'board': btoks, 'ply': ptoks, 'differs': diff})
        else:
            run.inconclusive.append('%s/legal: model does not reproduce natively (%s %s)' % (name, stt, diff))
    run.stubs.add('Board::is_in_check (takes &self; Board has no interior mutability) replaced by a free Bool in obligation (c)')
    run.absorb(ex2)


def interior_mutability_free():
    src = open(os.path.join(native.REPO, 'src', 'board.rs')).read()
    m = re.search(r'pub struct Board \{(.*?)\n\}', src, re.S)
    body = m.group(1) if m else ''
    bad = re.search(r'Cell|Atomic|Mutex|RwLock|OnceLock', body)
    return bool(m) and not bad


def check(run, replay=None):
    if replay:
        run.build()
        c = json.load(open(replay))
        if c.get('cmd') in ('makeunmake', 'legal'):
            stt, diff = compare_native(run, c['cmd'], c['board'], c['ply'])
            print('replay %s: native status %s, components that differ from the original: %s' % (c['cmd'], stt, diff))
            return 1 if (stt != 'OK' or diff) else 0
        stt, out = BS.native_board_cmd(run, c['cmd'], c['board'], c.get('ply', []))
        print('replay %s: %s %s' % (c['cmd'], stt, out))
        return 1
    run.build()
    if not B.check_layout(run.prog):
        run.inconclusive.append('data layout of Board/Ply/PieceBitboards differs from what the harness encodes')
        return
    if not interior_mutability_free():
        run.inconclusive.append('struct Board seems to contain interior mutability; the &self argument for (c) does not hold')
        return
    selftest(run)
    shapes = B.move_shapes()
    run.extra['explanation'] = ('One inductive step: arbitrary position S satisfying the representation invariant, arbitrary move record '
                                'consistent with S, case-split only on enum discriminants (%d move shapes); make_move/unmake_move/'
                                'is_legal_move executed from MIR; every component compared with its pre-value by z3. Exact restoration plus '
                                'Inv(make(S)) gives nested make/unmake sequences of any length by induction.' % len(shapes))
    run.extra['move_shapes'] = len(shapes)
    run.bounds += ['all positions satisfying Inv (I1-I5, I8): twelve free 64-bit piece sets, free clocks, rights, en-passant file, previous record, arbitrary set of earlier keys',
                   'all move records satisfying Cons for %d shapes (mover colour x piece x captured kind x promotion x special flag); squares symbolic' % len(shapes),
                   'half-move clock and full-move counter <= 65534 (I5)']
    run.outside += ['states violating Inv; piece geometry is deliberately not assumed (superset of real moves)',
                    'I7 (side not to move not in check) is not needed and not assumed']
    run.assumptions += ['HashSet<ZKey> behaves as a mathematical set (std hashing trusted)', 'Vec push/pop/last per std documentation',
                        'Zobrist table words uninterpreted (any table)']
    run.parallel(worker, shapes)


def selftest(run):
    """concrete differential test of the encoder: make/unmake through mirsym vs the native build, on the repo's own FENs"""
    from . import concrete as C
    C.selftest_make_unmake(run)
