"""C11 — pruning, move ordering and re-searches never change the search result.

Proof shape: induction over the height of the look-ahead tree, one node per obligation (searchstep.py).  The real
Search::alpha_beta / quiescence / alpha_beta_start / iter_deep / search, MoveOrderer::new/next and score_move are executed
from MIR on ONE node with n pseudo-legal moves; the recursive calls return any result allowed by the window-search contract
   C(v, a, b, r) := (r <= a => v <= r) /\\ (r >= b => v >= r) /\\ (a < r < b => r == v)
for free child values v_i; statistics and the killer table are arbitrary, the transposition table is off, no limits.
Obligations (for all legality / capture flags, check / repetition / fifty flags, evaluations, child values, windows, plies):
   AB  alpha_beta at a node satisfies C(V, alpha, beta, result) with V = the reference value of the property statement
       (0 on fifty-move or repetition; +1 ply when in check; at depth 0 the quiescence value; mate MIN+ply, stalemate 0;
       otherwise max over legal moves of the negated child value), calls its children with depth-1 and proper windows;
   Q   quiescence satisfies C(max(eval, max over legal captures of -q_child), alpha, beta, result);
   R   alpha_beta_start returns exactly max over legal moves of -v_child as best_score, and best_move attains it;
   W   iter_deep / search run alpha_beta_start for depth 1..=d in order and keep the last completed result;
   every reference value stays in [MIN+1, MAX] (the invariant the contract needs); no panic.
The move order is whatever the real MoveOrderer produces (each outcome of its comparisons is a separate path).
"""
import json
import z3

from mirsym.executor import State
from mirsym.values import *
from mirsym import solve
from . import absgame as A
from . import boardsym as B
from . import searchstep as SS

LEVEL = 'other'
MIN16, MAX16 = SS.MIN16, SS.MAX16
I = z3.IntVal


def sneg(x):
    return z3.If(x == MIN16, I(MAX16), -x)


def imax(a, b):
    return z3.If(a > b, a, b)


def ref_children_max(env, usable):
    """max over usable moves of the negated child value; (value, any_usable)"""
    best = I(MIN16)
    anyu = z3.BoolVal(False)
    for i, v in enumerate(env.v):
        best = z3.If(z3.And(usable[i], sneg(v) > best), sneg(v), best)
        anyu = z3.Or(anyu, usable[i])
    return best, anyu


def check_calls(run, env, name, pre, guard, expect_depth):
    """nested calls: proper windows, children searched with depth-1"""
    bad = []
    for c in env.calls:
        g = zb(c['guard'])
        # the only window with a == MIN is the null window after alpha reached MAX; its result is irrelevant to the caller
        bad.append(z3.And(g, c['a'] >= MIN16 + 1, z3.Not(c['a'] < c['b'])))
        if c['which'] == 'alpha_beta' and expect_depth is not None:
            bad.append(z3.And(g, bv(c['depth']) != expect_depth))
    if bad:
        q = run.decide('%s/child-calls' % name, pre + [z3.Or(*bad)], kind='smt', note='children are searched with a proper window (a < b) and depth-1')
        if q.verdict == 'sat':
            run.violation('%s: a child is searched with an empty window or the wrong depth' % name, {'case': name, 'model': str(q.model)[:1500]})


def report(run, q, name, what, terms=None):
    facts = {str(d): str(q.model[d]) for d in q.model.decls() if not str(d).startswith(('kl', 'nodes', 'seldepth'))}
    for k, t in (terms or {}).items():
        try:
            facts['=' + k] = str(q.model.eval(t, model_completion=True))
        except Exception as e:
            facts['=' + k] = 'n/a'
    run.violation('%s: %s' % (name, what), {'case': name, 'facts': facts})


def step_alpha_beta(run, n):
    for mode in ('deep', 'horizon', 'any-window'):
        name = 'AB/n%d/%s' % (n, mode)
        if mode == 'horizon' and n != 1:
            continue
        env = SS.StepEnv(run, n, 'alpha_beta')
        ex = env.ex
        st = State()
        sp = ex.alloc(st, env.search_value(st))
        alpha, beta = z3.Int('alpha'), z3.Int('beta')
        depth = z3.BitVec('depth', 8)
        node = env.G.nodes[0]
        pre0 = [alpha >= MIN16 + 1, beta <= MAX16, alpha < beta]
        if mode == 'any-window':
            # windows outside the contract's precondition (alpha == MIN after a mate score, empty windows below it):
            # the result is irrelevant to the caller, but the call must still terminate without panic
            pre0 = [alpha >= MIN16, alpha <= MAX16, beta >= MIN16, beta <= MAX16]
        if mode == 'horizon':
            pre0.append(depth == 0)
        else:
            pre0.append(z3.And(z3.UGE(depth, 0), z3.ULE(depth, 250)) if mode == 'any-window' else z3.And(z3.UGE(depth, 1), z3.ULE(depth, 250)))
        for c in pre0:
            ex.assume(c)
        r = ex.call(env.item('alpha_beta'), [sp, ex.alloc(st, ()), alpha, beta, depth, ('instant',)],
                    ['&mut search::Search', '&evaluate::simple_evaluator::SimpleEvaluator', 'i16', 'i16', 'u8', 'std::time::Instant'], 'i16', st, 'harness')
        run.absorb(ex)
        if r is None:
            run.inconclusive.append('%s: diverges' % name)
            continue
        res, st2 = r
        res = ex.to_zint(res, 'i16')
        pre = ex.pre + [zb(st2.guard)]
        if mode == 'any-window':
            for ob, qq in run.check_obligations(ex, name):
                report(run, qq, name, 'panic reachable in alpha_beta (window outside the contract): %s %s' % (ob.where.split('::')[-1], ob.msg[:80]))
            continue
        legal = [m['legal'] for m in node['moves']]
        cmax, anyl = ref_children_max(env, legal)
        ply = z3.BV2Int(env.ply, False)
        none = z3.If(zb(node['in_check']), I(MIN16) + ply, I(0))
        expand = z3.If(anyl, cmax, none)
        eff_depth0 = z3.And(depth == 0, z3.Not(zb(node['in_check'])))
        V = z3.If(z3.Or(zb(node['fifty']), zb(node['repeated'])), I(0), z3.If(eff_depth0, env.q, expand))
        q = run.decide('%s/contract' % name, pre + [z3.Not(SS.contract(V, alpha, beta, res))], kind='smt',
                       note='alpha_beta(node, alpha, beta, depth) satisfies the window contract w.r.t. the reference value')
        if q.verdict == 'sat':
            report(run, q, name, 'alpha_beta result violates the contract w.r.t. the minimax value', {'result': res, 'V': V, 'calls': z3.IntVal(len(env.calls))})
            for i_, c_ in enumerate(env.calls):
                run.violations[-1]['what'] += '\n      call%d %s node%d a=%s b=%s r=%s active=%s' % (i_, c_['which'], c_['node'], q.model.eval(c_['a']), q.model.eval(c_['b']), q.model.eval(c_['r']), q.model.eval(zb(c_['guard'])))
        if mode == 'deep' and n == 2:
            qt = run.decide('%s/twin' % name, pre + [z3.Not(SS.contract(V + 1, alpha, beta, res))], kind='smt')
            run.queries.pop()
            run.vacuity.append({'case': name, 'twin': qt.verdict})
            if qt.verdict != 'sat':
                run.inconclusive.append('%s: vacuity twin came back %s' % (name, qt.verdict))
        q = run.decide('%s/range' % name, pre + [z3.Or(V < MIN16 + 1, V > MAX16)], kind='smt', note='reference value stays in [MIN+1, MAX]')
        if q.verdict == 'sat':
            report(run, q, name, 'reference value leaves [MIN+1, MAX]')
        exp_depth = z3.If(zb(node['in_check']), depth + 1, depth) - 1
        check_calls(run, env, name, pre, st2.guard, exp_depth)
        for ob, qq in run.check_obligations(ex, name):
            report(run, qq, name, 'panic reachable in alpha_beta: %s %s' % (ob.where.split('::')[-1], ob.msg[:80]))
        if not run.samples:
            run.samples.append({'case': name, 'nested_calls': len(env.calls), 'result_term_size': len(str(res))})


def step_quiescence(run, n):
    name = 'Q/n%d' % n
    env = SS.StepEnv(run, n, 'quiescence')
    ex = env.ex
    st = State()
    sp = ex.alloc(st, env.search_value(st))
    alpha, beta = z3.Int('alpha'), z3.Int('beta')
    for c in [alpha >= MIN16 + 1, beta <= MAX16, alpha < beta]:
        ex.assume(c)
    r = ex.call(env.item('quiescence'), [sp, ex.alloc(st, ()), alpha, beta, ('instant',)],
                ['&mut search::Search', '&evaluate::simple_evaluator::SimpleEvaluator', 'i16', 'i16', 'std::time::Instant'], 'i16', st, 'harness')
    run.absorb(ex)
    if r is None:
        run.inconclusive.append('%s: diverges' % name)
        return
    res, st2 = r
    res = ex.to_zint(res, 'i16')
    pre = ex.pre + [zb(st2.guard)]
    node = env.G.nodes[0]
    usable = [z3.And(m['legal'], m['capture']) for m in node['moves']]
    cmax, anyu = ref_children_max(env, usable)
    V = z3.If(z3.And(anyu, cmax > node['eval']), cmax, node['eval'])
    q = run.decide('%s/contract' % name, pre + [z3.Not(SS.contract(V, alpha, beta, res))], kind='smt',
                   note='quiescence(node, alpha, beta) satisfies the window contract w.r.t. stand-pat/captures maximum')
    if q.verdict == 'sat':
        report(run, q, name, 'quiescence result violates the contract')
    q = run.decide('%s/range' % name, pre + [z3.Or(V < MIN16 + 1, V > MAX16)], kind='smt')
    if q.verdict == 'sat':
        report(run, q, name, 'quiescence reference value leaves [MIN+1, MAX]')
    check_calls(run, env, name, pre, st2.guard, None)
    for c in env.calls:
        if c['which'] != 'quiescence':
            run.violation('%s: quiescence calls %s' % (name, c['which']), {'case': name})
    for ob, qq in run.check_obligations(ex, name):
        report(run, qq, name, 'panic reachable in quiescence: %s %s' % (ob.where.split('::')[-1], ob.msg[:80]))


def step_root(run, n):
    name = 'R/n%d' % n
    env = SS.StepEnv(run, n, 'root', ply_concrete=0)
    ex = env.ex
    st = State()
    sp = ex.alloc(st, env.search_value(st))
    depth = z3.BitVec('depth', 8)
    ex.assume(z3.And(z3.UGE(depth, 1), z3.ULE(depth, 250)))
    r = ex.call(env.item('alpha_beta_start'), [sp, ex.alloc(st, ()), depth, ('instant',)],
                ['&mut search::Search', '&evaluate::simple_evaluator::SimpleEvaluator', 'u8', 'std::time::Instant'], 'board::ply::Ply', st, 'harness')
    run.absorb(ex)
    if r is None:
        run.inconclusive.append('%s: diverges' % name)
        return
    best_ply, st2 = r
    S = ex.load(st2, sp.root, ())
    info = S[4]
    bm, bs = info[0], info[1]
    node = env.G.nodes[0]
    legal = [m['legal'] for m in node['moves']]
    cmax, anyl = ref_children_max(env, legal)
    pre = ex.pre + [zb(st2.guard), anyl]
    bad = [bv(bs.d) != 1, bv(bm.d) != 1]
    if 1 in bs.pay:
        bad.append(ex.to_zint(bs.pay[1][0], 'i16') != cmax)
    if 1 in bm.pay:
        idx = bv(bm.pay[1][0][1][0])
        chosen, lg = sneg(env.v[-1]), legal[-1]
        for i in reversed(range(len(env.v) - 1)):
            chosen = z3.If(idx == i, sneg(env.v[i]), chosen)
            lg = z3.If(idx == i, legal[i], lg)
        bad += [chosen != cmax, z3.Not(lg), z3.UGE(idx, len(env.v))]
        ridx = bv(best_ply[1][0])
        bad.append(ridx != idx)
    q = run.decide('%s/exact' % name, pre + [z3.Or(*bad)], kind='smt',
                   note='alpha_beta_start: best_score == max over legal moves of -v_child, best_move is legal and attains it')
    if q.verdict == 'sat':
        report(run, q, name, 'root result differs from the minimax value')
    # the position is restored and the stored root entry would carry the same score (cache off: insert is observed only)
    ins = [i for i in env.env['inserts']]
    check_calls(run, env, name, pre, st2.guard, depth - 1)
    nb = S[1][1].n
    if nb != 0:
        run.violation('%s: the search board is left at node %d' % (name, nb), {'case': name})
    for ob, qq in run.check_obligations(ex, name, pre=ex.pre + [anyl]):
        report(run, qq, name, 'panic reachable at the root: %s %s' % (ob.where.split('::')[-1], ob.msg[:80]))


def step_wiring(run):
    """iter_deep: iterations 1..=d in order, result of the last iteration is what bestmove prints"""
    name = 'W/iter_deep'
    env = SS.StepEnv(run, 2, 'root', ply_concrete=0)
    ex = env.ex
    calls = []

    def ab_start(ctx, sp, ev, depth, start):
        k = len(calls)
        calls.append({'depth': depth, 'guard': ctx.st.guard})
        mv = env.G.ply_value(0, 0)
        sc = z3.Int('iter_score_%d' % k)
        ex.assume(z3.And(sc >= MIN16, sc <= MAX16))
        base = sp.path
        ctx.ex.store_to(ctx.st, sp.root, base + (('f', 4), ('f', 0)), some(mv))
        ctx.ex.store_to(ctx.st, sp.root, base + (('f', 4), ('f', 1)), some(sc))
        return mv
    from mirsym.models import some
    ex.model(r'^search::Search::alpha_beta_start::<.*>$', ab_start)
    ex.model(r'^search::Search::get_pv$', lambda ctx, sp, d: Seq(()))
    logged = []
    ex.model(r'^search::Search::log_uci_info$', lambda ctx, sp, d, t, pv: logged.append((d, ctx.st.guard)) or UNIT)
    st = State()
    sp = ex.alloc(st, env.search_value(st))
    D = 3
    r = ex.call(env.item('search'), [sp, ex.alloc(st, ()), some(CI(D, 8))],
                ['&mut search::Search', '&evaluate::simple_evaluator::SimpleEvaluator', 'std::option::Option<u8>'], '()', st, 'harness')
    run.absorb(ex)
    depths = [simp(c['depth']) for c in calls]
    ok = [isinstance(d, CI) and d.v == i + 1 for i, d in enumerate(depths)] and len(depths) == D
    q = run.decide('%s/iterations' % name, [z3.BoolVal(not (ok and all(isinstance(d, CI) and d.v == i + 1 for i, d in enumerate(depths))))], kind='smt',
                   note='search(Some(3)) runs alpha_beta_start with depth 1, 2, 3 in this order')
    if q.verdict == 'sat':
        run.violation('iter_deep does not run iterations 1..=d in order: %s' % depths, {'depths': [str(d) for d in depths]})
    if r is not None:
        S = ex.load(r[1], sp.root, ())
        bs = S[4][1]
        last = z3.Int('iter_score_%d' % (D - 1))
        q = run.decide('%s/last-result-kept' % name, ex.pre + [zb(r[1].guard), z3.Or(bv(bs.d) != 1, ex.to_zint(bs.pay[1][0], 'i16') != last)], kind='smt',
                       note='after search the stored result is that of the last iteration')
        if q.verdict == 'sat':
            run.violation('search does not keep the last iteration result', {})
        bm = [e for e in env.env['events'] if e[0] == 'log']
        if len(bm) != 1:
            run.violation('search logs %d lines besides info (expected exactly one bestmove)' % len(bm), {})
    for ob, qq in run.check_obligations(ex, name):
        report(run, qq, name, 'panic reachable in search/iter_deep: %s %s' % (ob.where.split('::')[-1], ob.msg[:80]))


def step_orderer(run, n):
    """ORD: the real MoveOrderer::new + next on n moves yields every move exactly once and then None.
    n <= 6: fully symbolic (capture / promotion flags, captured kind, killer slots, table hint -> every score pattern), merged
    execution; larger n (up to 218, the maximum number of legal moves, and around powers of two): distinct quiet moves, no
    killers, empty table -- a capacity check (buffer sizes, index widths), concrete apart from the position key."""
    name = 'ORD/n%d' % n
    ex = run.executor()
    symbolic = n <= 6
    plies = []
    for i in range(n):
        if symbolic:
            p = B.SymPly('om%d' % i, piece=B.KNIGHT, color=0, free_flags=True)
            v = list(p.value())
            kind = z3.BitVec('om%d_kind' % i, 64)
            cap_some = z3.Bool('om%d_captures' % i)
            cap_kind = z3.BitVec('om%d_cap_kind' % i, 64)
            pro_some = z3.Bool('om%d_promotes' % i)
            ex.assume(z3.And(z3.ULT(kind, 6), z3.ULT(cap_kind, 6)))
            v[0] = (CI(i // 8, 8), CI(i % 8, 8))                       # identity of the move: its start square
            v[2] = Enum(kind, {k: (B.color_v(0),) for k in range(6)})
            v[3] = Enum(z3.If(cap_some, z3.BitVecVal(1, 64), z3.BitVecVal(0, 64)), {1: (Enum(cap_kind, {k: (B.color_v(1),) for k in range(6)}),), 0: ()})
            v[4] = Enum(z3.If(pro_some, z3.BitVecVal(1, 64), z3.BitVecVal(0, 64)), {1: (B.kind_v(B.QUEEN, 0),), 0: ()})
            plies.append(tuple(v))
        else:
            plies.append(((CI((i // 8) % 8, 8), CI(i % 8, 8)), (CI((i // 512) % 8, 8), CI((i // 64) % 8, 8)), B.kind_v(B.KNIGHT, 0), B.opt_kind_v(None, 0), B.opt_kind_v(None, 0),
                          False, False, False, CI(0, 16), tuple(B.status_v(True) for _ in range(4))))
    TT = 'board::transposition_table::TRANSPOSITION_TABLE'
    from .absgame import MapV
    key = 4242
    if symbolic:
        pick = z3.BitVec('ord_tt_pick', 8)
        ex.assume(z3.ULT(pick, n))
        mv = plies[0]
        for i in range(1, n):
            mv = ite(pick == i, plies[i], mv)
        ex.static_values[TT] = MapV({key: (z3.Bool('ord_tt_has'), (CI(0, 16), CI(1, 8), Enum(0, {0: (), 1: (), 2: ()}), mv))})
        kp = [z3.BitVec('ord_killer%d_pick' % j, 8) for j in range(2)]
        killers = []
        for j in range(2):
            kv = plies[0]
            for i in range(1, n):
                kv = ite(kp[j] == i, plies[i], kv)
            killers.append(Enum(z3.If(z3.Bool('ord_killer%d_some' % j), z3.BitVecVal(1, 64), z3.BitVecVal(0, 64)), {1: (kv,), 0: ()}))
        killers = tuple(killers)
    else:
        ex.static_values[TT] = MapV({})
        from mirsym.models import NONE
        killers = (NONE, NONE)
    # RwLock / HashMap models of the abstract game (table access only)
    from mirsym.models import ok, mk_option, NONE
    ex.model(r'^std::sync::RwLock::<.*>::(read|write)$', lambda ctx, p: ok(p))
    def guard_deref(ctx, gp):
        return ctx.deref(gp) if isinstance(gp, Ptr) and not isinstance(ctx.deref(gp), MapV) else gp
    ex.model(r'^<std::sync::RwLock(Read|Write)Guard<.*> as std::ops::Deref(Mut)?>::deref(_mut)?$', guard_deref)

    def tt_get(ctx, mp, kp_):
        m = ctx.deref(mp)
        k = ctx.deref(kp_)[0]
        e = m.d.get(k.v) if isinstance(k, CI) else None
        if e is None:
            return NONE
        return mk_option(e[0], ctx.ex.alloc(ctx.st, e[1]))
    ex.model(r'^std::collections::HashMap::<board::zkey::ZKey, board::transposition_table::TTEntry, .*>::get::<.*>$', tt_get)
    ex.loop_bound = max(ex.loop_bound, n + 4)
    st = State()
    mp = ex.alloc(st, Seq.of(plies))
    kpn = ex.alloc(st, killers)
    r = ex.call('search::move_orderer::MoveOrderer::new', [mp, (CI(key, 64),), kpn], ['&[board::ply::Ply]', 'board::zkey::ZKey', '&[std::option::Option<board::ply::Ply>; 2]'],
                'search::move_orderer::MoveOrderer', st, 'harness')
    if r is None:
        run.inconclusive.append('%s: MoveOrderer::new diverges' % name)
        return
    ov, st = r
    op = ex.alloc(st, ov)
    ids, somes = [], []
    NEXT = '<search::move_orderer::MoveOrderer as std::iter::Iterator>::next'
    for k in range(n + 1):
        r = ex.call(NEXT, [op], ['&mut search::move_orderer::MoveOrderer'], 'std::option::Option<board::ply::Ply>', st, 'harness')
        if r is None:
            run.inconclusive.append('%s: next() diverges at call %d' % (name, k))
            return
        o, st = r
        somes.append(bv(o.d) == 1 if not isinstance(o.d, CI) else z3.BoolVal(o.d.v == 1))
        if 1 in o.pay and o.pay[1]:
            p = o.pay[1][0]
            if symbolic:
                ids.append(z3.ZeroExt(8, bv(p[0][0])) * 8 + z3.ZeroExt(8, bv(p[0][1])))
            else:
                ids.append(z3.ZeroExt(8, bv(p[0][0])) * 8 + z3.ZeroExt(8, bv(p[0][1])) + z3.ZeroExt(8, bv(p[1][1])) * 64 + z3.ZeroExt(8, bv(p[1][0])) * 512)
        else:
            ids.append(None)
    run.absorb(ex)
    bad = [z3.Not(somes[k]) for k in range(n)] + [somes[n]]
    for k in range(n):
        if ids[k] is None:
            bad.append(z3.BoolVal(True))
            continue
        bad.append(z3.UGE(ids[k], n))
        for j in range(k):
            if ids[j] is not None:
                bad.append(ids[k] == ids[j])
    if symbolic and n >= 2:
        # vacuity: the orderer really depends on the scores (the first move yielded is not always move 0)
        if not run.witness(name, ex.pre + [zb(st.guard), ids[0] != 0]):
            return
    q = run.decide(name, ex.pre + [zb(st.guard), z3.Or(*bad)], kind='smt',
                   note='MoveOrderer yields each of the %d moves exactly once, then None (%s)' % (n, 'all score patterns' if symbolic else 'capacity check, distinct quiet moves'))
    if q.verdict == 'sat':
        report(run, q, name, 'the move orderer does not yield every one of %d moves exactly once' % n)
    for ob, qq in run.check_obligations(ex, name):
        report(run, qq, name, 'panic reachable in the move orderer with %d moves: %s %s' % (n, ob.where.split('::')[-1], ob.msg[:80]))


def worker(run, job):
    kind, n = job
    if kind == 'ORD':
        step_orderer(run, n)
        return
    {'AB': step_alpha_beta, 'Q': step_quiescence, 'R': step_root}[kind](run, n) if kind != 'W' else step_wiring(run)


def check(run, replay=None):
    if replay:
        c = json.load(open(replay))
        if c.get('cmd') in ('searchcmp', 'searchmates'):
            run.build()
            from . import searchreplay
            return searchreplay.replay_file(run, c)
        print('C11 counterexamples are assignments of abstract node facts; see the replay file')
        return 1
    run.build()
    if not B.check_layout(run.prog):
        run.inconclusive.append('data layout differs')
        return
    lm = B.layout_mismatch(run.prog, B.SEARCH_LAYOUT)
    if lm:
        run.inconclusive.append('data layout differs from what the harness encodes: %s' % ', '.join(lm))
        return
    run.extra['explanation'] = __doc__
    N = 3      # four generated moves: Q, R and AB queries get no verdict within 60 s (tried); stated bound for both tiers
    jobs = [('AB', n) for n in range(1, N + 1)] + [('Q', n) for n in range(0, N + 1)] + [('R', n) for n in range(1, N + 1)] + [('W', 0)]
    jobs += [('ORD', n) for n in (1, 2, 3, 4, 5, 6, 63, 64, 65, 127, 128, 129, 218)]
    run.bounds.append('nodes with 1..%d pseudo-legal moves (quiescence: 0..%d); any depth (induction over the tree height); any ply 1..200; all windows MIN <= alpha < beta <= MAX' % (N, N))
    run.outside += ['nodes with more moves than the bound (the loop body is uniform, but this is not proved by a loop invariant)',
                    'transposition table active (C12, C13)', 'limits / stop (C09, C13)',
                    'a node without any pseudo-legal move inside alpha_beta (moves[0] is read unconditionally; suspected S12)',
                    'the induction over the tree height itself (each step is solver-checked, the composition is the standard argument)']
    run.stubs |= {'Board queried only through a one-level abstract game', 'recursive alpha_beta / quiescence calls replaced by the window contract',
                  'killer table and statistics arbitrary', 'capture-only list modelled as the full list with non-captures rejected by the legality answer',
                  'transposition-table probe returns None (cache off)', 'clock: fresh non-decreasing values < 2^64', 'scores in exact integer mode'}
    run.parallel(worker, jobs)
    from . import searchreplay
    searchreplay.confirm_on_real_engine(run, 'cmp')
