"""C11 — pruning, move ordering and re-searches never change the search result.

The real Search::{search, iter_deep, alpha_beta_start, alpha_beta, quiescence, limits_exceeded, store_killers, get_pv,
log_uci_info} and MoveOrderer / score_move are executed from MIR on the abstract game (absgame.py) with the
transposition table switched off (probe returns None), no limits, search(evaluator, Some(d)).
Obligation, for all values of the per-node facts (legal / capture flags, in_check, repetition, fifty-move, evaluations):
   info.best_score == reference minimax value of the root, and the reference value of info.best_move equals it;
   no panic.
"""
import json
import z3

from mirsym.executor import State
from mirsym.values import *
from mirsym import solve
from . import absgame as A
from . import boardsym as B

LEVEL = 'other'
SEARCH = 'search::Search::search::<evaluate::simple_evaluator::SimpleEvaluator>'


def shapes(tier):
    if tier == 'quick':
        return [dict(B=2, d=1, ext=(1,), q=1), dict(B=2, d=2, ext=(1,), q=1)]
    return [dict(B=2, d=1, ext=(1,), q=2), dict(B=2, d=2, ext=(1,), q=1), dict(B=3, d=1, ext=(1,), q=1),
            dict(B=2, d=2, ext=(1, 2), q=1), dict(B=3, d=2, ext=(1,), q=1), dict(B=2, d=3, ext=(1,), q=1)]


def run_search(run, game, env, depth, limits=None):
    ex = run.executor()
    A.install(ex, game, env)
    for c in game.pre:
        ex.assume(c)
    if A.INT_MODE[0]:
        ex.int_types = {'i16'}
    st = State()
    sp = ex.alloc(st, A.search_value(ex, st, game, limits))
    ev = ()
    callee = None
    for n in run.prog.items:
        if n.endswith('::search') and 'search::<impl' in n and run.prog.items[n].kind == 'fn' and len(run.prog.items[n].args) == 3:
            callee = n
    r = ex.call(callee, [sp, ex.alloc(st, ev), A.some(CI(depth, 8))],
                ['&mut search::Search', '&evaluate::simple_evaluator::SimpleEvaluator', 'std::option::Option<u8>'], '()', st, 'harness')
    return ex, r, sp


def worker(run, shp):
    name = 'B%d-d%d-ext%s-q%d' % (shp['B'], shp['d'], ''.join(map(str, shp['ext'])), shp['q'])
    G = A.Game(shp['B'], shp['d'], shp['ext'], shp['q'])
    env = {'cache': False}
    ex, r, sp = run_search(run, G, env, shp['d'])
    run.absorb(ex)
    if r is None:
        run.inconclusive.append('%s: search diverges on every path' % name)
        return
    _, st = r
    S = ex.load(st, sp.root, ())
    info = S[4]
    best_move, best_score = info[0], info[1]
    root_has_legal = z3.Or(*[m['legal'] for m in G.nodes[0]['moves']])
    pre = ex.pre + [root_has_legal, zb(st.guard)]
    ref, vals = A.ref_root(G, shp['d'])
    bad = [bv(best_score.d) != 1, bv(best_move.d) != 1]
    if 1 in best_score.pay:
        bad.append(bv(best_score.pay[1][0]) != ref)
    if 1 in best_move.pay:
        mv = best_move.pay[1][0]
        idx = bv(mv[1][0])
        chosen = vals[-1]
        legal = G.nodes[0]['moves'][-1]['legal']
        for i in reversed(range(len(vals) - 1)):
            chosen = z3.If(idx == i, vals[i], chosen)
            legal = z3.If(idx == i, G.nodes[0]['moves'][i]['legal'], legal)
        bad += [chosen != ref, z3.Not(legal), z3.UGE(idx, len(vals))]
    q = run.decide('%s/root-value' % name, pre + [z3.Or(*bad)], kind='bv', timeout=run.timeout * (1 if run.tier == 'quick' else 2),
                   note='best_score == minimax(root) and value(best_move) == minimax(root), for all node facts')
    run.extra['nodes_%s' % name] = len(G.nodes)
    if q.verdict == 'sat':
        facts = {str(d): str(q.model[d]) for d in q.model.decls()}
        run.violation('search result differs from the minimax value on abstract game %s' % name, {'shape': shp, 'facts': facts})
    for ob, qq in run.check_obligations(ex, name, pre=ex.pre + [root_has_legal]):
        run.violation('search panics on abstract game %s: %s' % (name, ob), {'shape': shp, 'site': ob.where, 'msg': ob.msg})
    # vacuity twin: the value is not constant
    qt = run.decide('%s/twin' % name, pre + [bv(best_score.pay[1][0]) != 0] if 1 in best_score.pay else pre, kind='bv')
    run.queries.pop()
    run.vacuity.append({'shape': name, 'twin': qt.verdict})
    if qt.verdict != 'sat':
        run.inconclusive.append('%s: vacuity twin %s' % (name, qt.verdict))
    if len(run.samples) < 1:
        run.samples.append({'shape': name, 'nodes': len(G.nodes), 'reference_root_value': str(z3.simplify(ref))[:400]})


def check(run, replay=None):
    if replay:
        print('C11 counterexamples are abstract-game fact assignments; see the replay file')
        return 1
    run.build()
    if not B.check_layout(run.prog):
        run.inconclusive.append('data layout differs')
        return
    run.extra['explanation'] = __doc__
    shp = shapes(run.tier)
    run.bounds.append('abstract games: ' + '; '.join('branching %d, nominal depth %d, check extensions at plies %s, %d quiescence plies' % (s['B'], s['d'], s['ext'], s['q']) for s in shp))
    run.outside += ['larger trees', 'transposition table active (C12, C13)', 'positions with no pseudo-legal move at an expanded node (moves[0] is read unconditionally)']
    run.stubs |= {'Board queried only through the abstract game', 'capture-only list modelled as the full list with non-captures rejected by the legality answer',
                  'transposition-table probe returns None (cache off)', 'clock: fresh non-decreasing values < 2^64'}
    run.parallel(worker, shp)
