"""C11 — pruning, move ordering and re-searches never change the search result.

Proof shape: induction over the height of the look-ahead tree, one node per obligation (searchstep.py).  The real
Search::alpha_beta / quiescence / alpha_beta_start / iter_deep / search, MoveOrderer::new/next and score_move are executed
from MIR on ONE node with n pseudo-legal moves; the recursive calls return any result allowed by the window-search contract
   C(v, a, b, r) := (r <= a => v <= r) /\\ (r >= b => v >= r) /\\ (a < r < b => r == v)
for free child values v_i; statistics and the killer table are arbitrary, the transposition table is off, no limits.
Obligations (for all legality / capture flags, check / repetition / fifty flags, evaluations, child values, windows, plies):
   AB  alpha_beta at a node satisfies C(V, alpha, beta, result) with V = the reference value of the property statement
       (0 on fifty-move or repetition; +1 ply when in check; at depth 0 the quiescence value; mate MIN+ply, stalemate 0;
       otherwise max over legal moves of the negated child value), calls its children with depth-1 and proper windows;
   Q   quiescence satisfies C(max(eval, max over legal captures of -q_child), alpha, beta, result);
   R   alpha_beta_start returns exactly max over legal moves of -v_child as best_score, and best_move attains it;
   W   iter_deep / search run alpha_beta_start for depth 1..=d in order and keep the last completed result;
   every reference value stays in [MIN+1, MAX] (the invariant the contract needs); no panic.
The move order is whatever the real MoveOrderer produces (each outcome of its comparisons is a separate path).
"""
import json
import z3

from mirsym.executor import State
from mirsym.values import *
from mirsym import solve
from . import absgame as A
from . import boardsym as B
from . import searchstep as SS

LEVEL = 'other'
MIN16, MAX16 = SS.MIN16, SS.MAX16
I = z3.IntVal


def sneg(x):
    return z3.If(x == MIN16, I(MAX16), -x)


def imax(a, b):
    return z3.If(a > b, a, b)


def ref_children_max(env, usable):
    """max over usable moves of the negated child value; (value, any_usable)"""
    best = I(MIN16)
    anyu = z3.BoolVal(False)
    for i, v in enumerate(env.v):
        best = z3.If(z3.And(usable[i], sneg(v) > best), sneg(v), best)
        anyu = z3.Or(anyu, usable[i])
    return best, anyu


def check_calls(run, env, name, pre, guard, expect_depth):
    """nested calls: proper windows, children searched with depth-1"""
    bad = []
    for c in env.calls:
        g = zb(c['guard'])
        # the only window with a == MIN is the null window after alpha reached MAX; its result is irrelevant to the caller
        bad.append(z3.And(g, c['a'] >= MIN16 + 1, z3.Not(c['a'] < c['b'])))
        if c['which'] == 'alpha_beta' and expect_depth is not None:
            bad.append(z3.And(g, bv(c['depth']) != expect_depth))
    if bad:
        q = run.decide('%s/child-calls' % name, pre + [z3.Or(*bad)], kind='smt', note='children are searched with a proper window (a < b) and depth-1')
        if q.verdict == 'sat':
            run.violation('%s: a child is searched with an empty window or the wrong depth' % name, {'case': name, 'model': str(q.model)[:1500]})


def report(run, q, name, what, terms=None):
    facts = {str(d): str(q.model[d]) for d in q.model.decls() if not str(d).startswith(('kl', 'nodes', 'seldepth'))}
    for k, t in (terms or {}).items():
        try:
            facts['=' + k] = str(q.model.eval(t, model_completion=True))
        except Exception as e:
            facts['=' + k] = 'n/a'
    run.violation('%s: %s' % (name, what), {'case': name, 'facts': facts})


def step_alpha_beta(run, n):
    for mode in ('deep', 'horizon', 'any-window'):
        name = 'AB/n%d/%s' % (n, mode)
        if mode == 'horizon' and n != 1:
            continue
        env = SS.StepEnv(run, n, 'alpha_beta')
        ex = env.ex
        st = State()
        sp = ex.alloc(st, env.search_value(st))
        alpha, beta = z3.Int('alpha'), z3.Int('beta')
        depth = z3.BitVec('depth', 8)
        node = env.G.nodes[0]
        pre0 = [alpha >= MIN16 + 1, beta <= MAX16, alpha < beta]
        if mode == 'any-window':
            # windows outside the contract's precondition (alpha == MIN after a mate score, empty windows below it):
            # the result is irrelevant to the caller, but the call must still terminate without panic
            pre0 = [alpha >= MIN16, alpha <= MAX16, beta >= MIN16, beta <= MAX16]
        if mode == 'horizon':
            pre0.append(depth == 0)
        else:
            pre0.append(z3.And(z3.UGE(depth, 0), z3.ULE(depth, 250)) if mode == 'any-window' else z3.And(z3.UGE(depth, 1), z3.ULE(depth, 250)))
        for c in pre0:
            ex.assume(c)
        r = ex.call(env.item('alpha_beta'), [sp, ex.alloc(st, ()), alpha, beta, depth, ('instant',)],
                    ['&mut search::Search', '&evaluate::simple_evaluator::SimpleEvaluator', 'i16', 'i16', 'u8', 'std::time::Instant'], 'i16', st, 'harness')
        run.absorb(ex)
        if r is None:
            run.inconclusive.append('%s: diverges' % name)
            continue
        res, st2 = r
        res = ex.to_zint(res, 'i16')
        pre = ex.pre + [zb(st2.guard)]
        if mode == 'any-window':
            for ob, qq in run.check_obligations(ex, name):
                report(run, qq, name, 'panic reachable in alpha_beta (window outside the contract): %s %s' % (ob.where.split('::')[-1], ob.msg[:80]))
            continue
        legal = [m['legal'] for m in node['moves']]
        cmax, anyl = ref_children_max(env, legal)
        ply = z3.BV2Int(env.ply, False)
        none = z3.If(zb(node['in_check']), I(MIN16) + ply, I(0))
        expand = z3.If(anyl, cmax, none)
        eff_depth0 = z3.And(depth == 0, z3.Not(zb(node['in_check'])))
        V = z3.If(z3.Or(zb(node['fifty']), zb(node['repeated'])), I(0), z3.If(eff_depth0, env.q, expand))
        q = run.decide('%s/contract' % name, pre + [z3.Not(SS.contract(V, alpha, beta, res))], kind='smt',
                       note='alpha_beta(node, alpha, beta, depth) satisfies the window contract w.r.t. the reference value')
        if q.verdict == 'sat':
            report(run, q, name, 'alpha_beta result violates the contract w.r.t. the minimax value', {'result': res, 'V': V, 'calls': z3.IntVal(len(env.calls))})
            for i_, c_ in enumerate(env.calls):
                run.violations[-1]['what'] += '\n      call%d %s node%d a=%s b=%s r=%s active=%s' % (i_, c_['which'], c_['node'], q.model.eval(c_['a']), q.model.eval(c_['b']), q.model.eval(c_['r']), q.model.eval(zb(c_['guard'])))
        if mode == 'deep' and n == 2:
            qt = run.decide('%s/twin' % name, pre + [z3.Not(SS.contract(V + 1, alpha, beta, res))], kind='smt')
            run.queries.pop()
            run.vacuity.append({'case': name, 'twin': qt.verdict})
            if qt.verdict != 'sat':
                run.inconclusive.append('%s: vacuity twin came back %s' % (name, qt.verdict))
        q = run.decide('%s/range' % name, pre + [z3.Or(V < MIN16 + 1, V > MAX16)], kind='smt', note='reference value stays in [MIN+1, MAX]')
        if q.verdict == 'sat':
            report(run, q, name, 'reference value leaves [MIN+1, MAX]')
        exp_depth = z3.If(zb(node['in_check']), depth + 1, depth) - 1
        check_calls(run, env, name, pre, st2.guard, exp_depth)
        for ob, qq in run.check_obligations(ex, name):
            report(run, qq, name, 'panic reachable in alpha_beta: %s %s' % (ob.where.split('::')[-1], ob.msg[:80]))
        if not run.samples:
            run.samples.append({'case': name, 'nested_calls': len(env.calls), 'result_term_size': len(str(res))})


def step_quiescence(run, n):
    name = 'Q/n%d' % n
    env = SS.StepEnv(run, n, 'quiescence')
    ex = env.ex
    st = State()
    sp = ex.alloc(st, env.search_value(st))
    alpha, beta = z3.Int('alpha'), z3.Int('beta')
    for c in [alpha >= MIN16 + 1, beta <= MAX16, alpha < beta]:
        ex.assume(c)
    r = ex.call(env.item('quiescence'), [sp, ex.alloc(st, ()), alpha, beta, ('instant',)],
                ['&mut search::Search', '&evaluate::simple_evaluator::SimpleEvaluator', 'i16', 'i16', 'std::time::Instant'], 'i16', st, 'harness')
    run.absorb(ex)
    if r is None:
        run.inconclusive.append('%s: diverges' % name)
        return
    res, st2 = r
    res = ex.to_zint(res, 'i16')
    pre = ex.pre + [zb(st2.guard)]
    node = env.G.nodes[0]
    usable = [z3.And(m['legal'], m['capture']) for m in node['moves']]
    cmax, anyu = ref_children_max(env, usable)
    V = z3.If(z3.And(anyu, cmax > node['eval']), cmax, node['eval'])
    q = run.decide('%s/contract' % name, pre + [z3.Not(SS.contract(V, alpha, beta, res))], kind='smt',
                   note='quiescence(node, alpha, beta) satisfies the window contract w.r.t. stand-pat/captures maximum')
    if q.verdict == 'sat':
        report(run, q, name, 'quiescence result violates the contract')
    q = run.decide('%s/range' % name, pre + [z3.Or(V < MIN16 + 1, V > MAX16)], kind='smt')
    if q.verdict == 'sat':
        report(run, q, name, 'quiescence reference value leaves [MIN+1, MAX]')
    check_calls(run, env, name, pre, st2.guard, None)
    for c in env.calls:
        if c['which'] != 'quiescence':
            run.violation('%s: quiescence calls %s' % (name, c['which']), {'case': name})
    for ob, qq in run.check_obligations(ex, name):
        report(run, qq, name, 'panic reachable in quiescence: %s %s' % (ob.where.split('::')[-1], ob.msg[:80]))


def step_root(run, n):
    name = 'R/n%d' % n
    env = SS.StepEnv(run, n, 'root', ply_concrete=0)
    ex = env.ex
    st = State()
    sp = ex.alloc(st, env.search_value(st))
    depth = z3.BitVec('depth', 8)
    ex.assume(z3.And(z3.UGE(depth, 1), z3.ULE(depth, 250)))
    r = ex.call(env.item('alpha_beta_start'), [sp, ex.alloc(st, ()), depth, ('instant',)],
                ['&mut search::Search', '&evaluate::simple_evaluator::SimpleEvaluator', 'u8', 'std::time::Instant'], 'board::ply::Ply', st, 'harness')
    run.absorb(ex)
    if r is None:
        run.inconclusive.append('%s: diverges' % name)
        return
    best_ply, st2 = r
    S = ex.load(st2, sp.root, ())
    info = S[4]
    bm, bs = info[0], info[1]
    node = env.G.nodes[0]
    legal = [m['legal'] for m in node['moves']]
    cmax, anyl = ref_children_max(env, legal)
    pre = ex.pre + [zb(st2.guard), anyl]
    bad = [bv(bs.d) != 1, bv(bm.d) != 1]
    if 1 in bs.pay:
        bad.append(ex.to_zint(bs.pay[1][0], 'i16') != cmax)
    if 1 in bm.pay:
        idx = bv(bm.pay[1][0][1][0])
        chosen, lg = sneg(env.v[-1]), legal[-1]
        for i in reversed(range(len(env.v) - 1)):
            chosen = z3.If(idx == i, sneg(env.v[i]), chosen)
            lg = z3.If(idx == i, legal[i], lg)
        bad += [chosen != cmax, z3.Not(lg), z3.UGE(idx, len(env.v))]
        ridx = bv(best_ply[1][0])
        bad.append(ridx != idx)
    q = run.decide('%s/exact' % name, pre + [z3.Or(*bad)], kind='smt',
                   note='alpha_beta_start: best_score == max over legal moves of -v_child, best_move is legal and attains it')
    if q.verdict == 'sat':
        report(run, q, name, 'root result differs from the minimax value')
    # the position is restored and the stored root entry would carry the same score (cache off: insert is observed only)
    ins = [i for i in env.env['inserts']]
    check_calls(run, env, name, pre, st2.guard, depth - 1)
    nb = S[1][1].n
    if nb != 0:
        run.violation('%s: the search board is left at node %d' % (name, nb), {'case': name})
    for ob, qq in run.check_obligations(ex, name, pre=ex.pre + [anyl]):
        report(run, qq, name, 'panic reachable at the root: %s %s' % (ob.where.split('::')[-1], ob.msg[:80]))


def step_wiring(run):
    """iter_deep: iterations 1..=d in order, result of the last iteration is what bestmove prints"""
    name = 'W/iter_deep'
    env = SS.StepEnv(run, 2, 'root', ply_concrete=0)
    ex = env.ex
    calls = []

    def ab_start(ctx, sp, ev, depth, start):
        k = len(calls)
        calls.append({'depth': depth, 'guard': ctx.st.guard})
        mv = env.G.ply_value(0, 0)
        sc = z3.Int('iter_score_%d' % k)
        ex.assume(z3.And(sc >= MIN16, sc <= MAX16))
        base = sp.path
        ctx.ex.store_to(ctx.st, sp.root, base + (('f', 4), ('f', 0)), some(mv))
        ctx.ex.store_to(ctx.st, sp.root, base + (('f', 4), ('f', 1)), some(sc))
        return mv
    from mirsym.models import some
    ex.model(r'^search::Search::alpha_beta_start::<.*>$', ab_start)
    ex.model(r'^search::Search::get_pv$', lambda ctx, sp, d: Seq(()))
    logged = []
    ex.model(r'^search::Search::log_uci_info$', lambda ctx, sp, d, t, pv: logged.append((d, ctx.st.guard)) or UNIT)
    st = State()
    sp = ex.alloc(st, env.search_value(st))
    D = 3
    r = ex.call(env.item('search'), [sp, ex.alloc(st, ()), some(CI(D, 8))],
                ['&mut search::Search', '&evaluate::simple_evaluator::SimpleEvaluator', 'std::option::Option<u8>'], '()', st, 'harness')
    run.absorb(ex)
    depths = [simp(c['depth']) for c in calls]
    ok = [isinstance(d, CI) and d.v == i + 1 for i, d in enumerate(depths)] and len(depths) == D
    q = run.decide('%s/iterations' % name, [z3.BoolVal(not (ok and all(isinstance(d, CI) and d.v == i + 1 for i, d in enumerate(depths))))], kind='smt',
                   note='search(Some(3)) runs alpha_beta_start with depth 1, 2, 3 in this order')
    if q.verdict == 'sat':
        run.violation('iter_deep does not run iterations 1..=d in order: %s' % depths, {'depths': [str(d) for d in depths]})
    if r is not None:
        S = ex.load(r[1], sp.root, ())
        bs = S[4][1]
        last = z3.Int('iter_score_%d' % (D - 1))
        q = run.decide('%s/last-result-kept' % name, ex.pre + [zb(r[1].guard), z3.Or(bv(bs.d) != 1, ex.to_zint(bs.pay[1][0], 'i16') != last)], kind='smt',
                       note='after search the stored result is that of the last iteration')
        if q.verdict == 'sat':
            run.violation('search does not keep the last iteration result', {})
        bm = [e for e in env.env['events'] if e[0] == 'log']
        if len(bm) != 1:
            run.violation('search logs %d lines besides info (expected exactly one bestmove)' % len(bm), {})
    for ob, qq in run.check_obligations(ex, name):
        report(run, qq, name, 'panic reachable in search/iter_deep: %s %s' % (ob.where.split('::')[-1], ob.msg[:80]))


def worker(run, job):
    kind, n = job
    {'AB': step_alpha_beta, 'Q': step_quiescence, 'R': step_root}[kind](run, n) if kind != 'W' else step_wiring(run)


def check(run, replay=None):
    if replay:
        print('C11 counterexamples are assignments of abstract node facts; see the replay file')
        return 1
    run.build()
    if not B.check_layout(run.prog):
        run.inconclusive.append('data layout differs')
        return
    run.extra['explanation'] = __doc__
    N = 3      # four generated moves: Q, R and AB queries get no verdict within 60 s (tried); stated bound for both tiers
    jobs = [('AB', n) for n in range(1, N + 1)] + [('Q', n) for n in range(0, N + 1)] + [('R', n) for n in range(1, N + 1)] + [('W', 0)]
    run.bounds.append('nodes with 1..%d pseudo-legal moves (quiescence: 0..%d); any depth (induction over the tree height); any ply 1..200; all windows MIN <= alpha < beta <= MAX' % (N, N))
    run.outside += ['nodes with more moves than the bound (the loop body is uniform, but this is not proved by a loop invariant)',
                    'transposition table active (C12, C13)', 'limits / stop (C09, C13)',
                    'a node without any pseudo-legal move inside alpha_beta (moves[0] is read unconditionally; suspected S12)',
                    'the induction over the tree height itself (each step is solver-checked, the composition is the standard argument)']
    run.stubs |= {'Board queried only through a one-level abstract game', 'recursive alpha_beta / quiescence calls replaced by the window contract',
                  'killer table and statistics arbitrary', 'capture-only list modelled as the full list with non-captures rejected by the legality answer',
                  'transposition-table probe returns None (cache off)', 'clock: fresh non-decreasing values < 2^64', 'scores in exact integer mode'}
    run.parallel(worker, jobs)
