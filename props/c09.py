"""C09 — every go is answered by exactly one legal bestmove, whatever the limits.

Compositional, every piece executed from the real MIR and decided by z3:
  WIRE  Uci::go: max_depth := limits.depth, Search::new(&board, Some(limits)), one thread spawned with search(.., max_depth);
  LIM   Search::limits_exceeded on an arbitrary search state and arbitrary limits: it answers true only for a reason the
        limits give (node budget reached, movetime reached, time-management timer reached with some clock set, ply 255);
        in particular never because of the depth limit, which bounds the iterations;
  ROOT  Search::alpha_beta_start on a node with n pseudo-legal moves, nested searches answering by the window contract
        or being cut short at any point, arbitrary limits: whenever it records a best move, that move is a legal root
        move; no panic;
  ITER  Search::search / iter_deep with alpha_beta_start replaced by that contract (an iteration either completes with a
        legal best move, or is cut short - possible only if a node/time limit is set - leaving the previous best move or
        a legal one): for all limits and cut points: no panic, exactly one bestmove line, and the move it names is a legal
        root move (the root has at least one legal move).
Wall-clock bounds and "accepts the next command" are process-level and outside.
"""
import json
import subprocess
import z3

from mirsym.executor import State, NOT_HANDLED
from mirsym.values import *
from mirsym.models import some, NONE, opt_is_some
from mirsym import native, solve
from . import absgame as A
from . import boardsym as B
from . import searchstep as SS
from .c11 import report
from .c13 import sym_limits

LEVEL = 'other'
MIN16, MAX16 = SS.MIN16, SS.MAX16


def known_ids(run):
    return {e['id'] for e in run.load_known()}


def real_engine(run, lines, wait=3.0):
    """drive the real binary: returns (stdout, stderr)"""
    p = subprocess.Popen([run.helper], stdin=subprocess.PIPE, stdout=subprocess.PIPE, stderr=subprocess.PIPE, text=True)
    try:
        import time
        p.stdin.write('\n'.join(lines) + '\n')
        p.stdin.flush()
        time.sleep(wait)
        p.stdin.write('quit\n')
        p.stdin.flush()
        out, err = p.communicate(timeout=10)
    except Exception:
        p.kill()
        out, err = p.communicate()
    return out, err


REAL_INSTANCES = [['position startpos', 'go depth 1'], ['position startpos moves e2e4 d7d5', 'go depth 2'], ['position startpos', 'go nodes 1'],
                  ['position startpos', 'go movetime 0'], ['position startpos', 'go wtime 1 btime 1 winc 0 binc 0'],
                  ['position startpos', 'go depth 3 nodes 30'],
                  # positions whose first generated move is illegal (check not answered / pinned piece): a cut before the first
                  # root move is scored must still answer with a legal move
                  ['position fen 4k3/8/8/8/8/8/4r3/R3K3 w - - 0 1', 'go nodes 1'], ['position fen 4r2k/8/8/8/8/8/8/R3K3 w - - 0 1', 'go movetime 0'],
                  ['position fen 7k/8/8/8/8/8/8/rNK5 w - - 0 1', 'go nodes 1'], ['position fen 7k/8/8/8/8/8/8/rNK5 w - - 0 1', 'go wtime 1 btime 1'],
                  ['position fen 4k3/8/8/8/8/8/4r3/R3K3 w - - 0 1', 'go depth 1']]
STARTPOS = 'rnbqkbnr/pppppppp/8/8/8/8/PPPPPPPP/RNBQKBNR w KQkq - 0 1'


def reference_legal_notations(run, inst):
    """coordinate strings of the legal moves (independent mailbox rules) in the position an instance sets up; None if not computable"""
    from .boardstep import parse_board_tokens
    from . import chessref_concrete as CR
    pos = inst[0].split()
    if pos[1] == 'startpos':
        fen, moves = STARTPOS, pos[3:] if len(pos) > 3 else []
    else:
        fen, moves = ' '.join(pos[2:8]), pos[9:] if len(pos) > 9 else []
    if moves:
        return None
    rc, out, err = native.run_helper(run.helper, ['board', 'fen'] + fen.split())
    if not out.startswith('OK'):
        return None
    d = parse_board_tokens(out[2:].split())
    res = set()
    for mv in CR.legal_moves(d):
        s = 'abcdefgh'[mv[1]] + str(mv[0] + 1) + 'abcdefgh'[mv[3]] + str(mv[2] + 1)
        if mv[4] is not None and mv[4] >= 0:
            s += {B.QUEEN: 'q', B.ROOK: 'r', B.BISHOP: 'b', B.KNIGHT: 'n'}.get(mv[4], '?')
        res.add(s)
    return res


def real_check(run, what, fid):
    """an abstract counterexample about the bestmove answer: look for it on the real binary with small-limit go commands
    (number of bestmove lines, panics, and legality of the move named against the independent rules)"""
    for inst in REAL_INSTANCES:
        out, err = real_engine(run, inst, wait=2.0)
        bl = [l for l in out.split('\n') if l.startswith('bestmove')]
        nb = len(bl)
        problem = None
        if nb != 1 or 'panicked' in err:
            problem = '%d bestmove lines%s' % (nb, ' and the search thread panics' if 'panicked' in err else '')
        else:
            legal = reference_legal_notations(run, inst)
            named = bl[0].split()[1] if len(bl[0].split()) > 1 else ''
            if legal is not None and ((legal and named not in legal) or (not legal and named != '0000')):
                problem = 'bestmove %s, which is not a legal move (legal: %s)' % (named, ' '.join(sorted(legal)) or 'none')
        if problem:
            if fid in known_ids(run):
                run.known_finding('%s %s (e.g. `%s`: %s)' % (fid, what, '; '.join(inst), problem))
            else:
                run.violation('%s: after `%s` the engine prints %s' % (what, '; '.join(inst), problem),
                              {'lines': inst, 'bestmove_lines': nb, 'stderr': err[-400:]})
            return
    run.inconclusive.append('abstract counterexample (%s) not reproduced by the real engine on the small-limit instances' % what)


def real_report_check(run, what):
    """an abstract counterexample about info lines for unfinished iterations: look for it on the real binary -- with a spent
    clock no iteration can complete, so no info line may appear"""
    for inst in (['position startpos', 'go wtime 0 btime 0'], ['position startpos', 'go wtime 1 btime 1 winc 0 binc 0'], ['position startpos', 'go movetime 0'],
                 ['position startpos', 'go nodes 1']):
        out, err = real_engine(run, inst, wait=2.0)
        il = [l for l in out.split('\n') if l.startswith('info') and ' depth ' in l]
        if il:
            run.violation('%s: after `%s` the engine prints %d info lines (first: %s) although no iteration can complete' % (what, '; '.join(inst), len(il), il[0][:80]),
                          {'lines': inst, 'info_lines': len(il)})
            return
    run.inconclusive.append('abstract counterexample (%s) not reproduced by the real engine on the spent-budget instances' % what)


def ply_eq(a, b):
    """z3 Bool: two Ply values agree on every component both of them carry"""
    ta, tb = dict(B.ply_terms(a)), dict(B.ply_terms(b))
    conds = []
    for k in ta:
        if k in tb:
            conds.append(ta[k] == tb[k])
        elif k.endswith('.some'):
            pass
    for k in ('captured.some', 'promoted.some'):
        if k in ta and k in tb:
            conds.append(ta[k] == tb[k])
    return z3.And(*conds)


def lim_vars():
    return {n: (z3.Bool('lim_%s_some' % n), None) for n in ('depth', 'nodes', 'movetime', 'wtime', 'btime', 'winc', 'binc', 'timer')}


def lemma_limits(run, on_sat=None):
    """LIM: specification of limits_exceeded"""
    env = SS.StepEnv(run, 1, 'root', ply_concrete=None, limits=sym_limits())
    ex = env.ex
    st = State()
    sp = ex.alloc(st, env.search_value(st))
    callee = env.item('limits_exceeded')
    r = ex.call(callee, [sp, ('instant',)], ['&search::Search', 'std::time::Instant'], 'bool', st, 'harness')
    run.absorb(ex)
    res, st2 = r
    S = ex.load(st, sp.root, ())
    nodes = bv(S[4][2])
    ply = bv(S[4][3])
    L = lambda n: z3.Bool('lim_%s_some' % n)
    V = lambda n, w: z3.BitVec('lim_%s' % n, w)
    times = env.env['clock_terms']
    tany = z3.Or(*[z3.Or(z3.And(L('movetime'), z3.UGE(t, V('movetime', 128))),
                         z3.And(z3.Or(L('wtime'), L('btime'), L('winc'), L('binc')), L('timer'), z3.UGE(t, V('timer', 128)))) for t in times]) if times else z3.BoolVal(False)
    reason = z3.Or(ply == 255, z3.And(L('nodes'), z3.UGE(nodes, V('nodes', 64))), tany)
    q = run.decide('LIM/only-for-a-reason', ex.pre + [zb(st2.guard), zb(res), z3.Not(reason)], kind='smt',
                   note='limits_exceeded is true only if ply == 255, the node budget is reached, movetime is reached, or the time-management timer is reached with a clock set')
    if q.verdict == 'sat':
        facts = {str(d): str(q.model[d]) for d in q.model.decls() if str(d).startswith(('lim', 'ply', 'nodes0', 'elapsed'))}
        if on_sat is not None:
            on_sat(facts)
        else:
            real_check(run, 'limits_exceeded fires without a node/time reason (%s)' % facts, 'S5')
    # fires-when-due.  The property speaks of time "plus a scheduling allowance", so a poll that looks at the clock (or the
    # counter) only every so many nodes is fine; what must not happen is a limit that is due and stays unnoticed: with the
    # node budget reached, or every clock reading at/after movetime, limits_exceeded must answer true for SOME node count
    # within the next POLL_WINDOW nodes (the node counter is the only part of the state that moves between two polls).
    POLL_WINDOW = 1 << 16
    n0 = z3.BitVec('nodes0', 64)
    n2 = z3.BitVec('nodes_later', 64)
    silent_at = lambda n: z3.substitute(z3.And(zb(st2.guard), z3.Not(zb(res))), (n0, n))
    due = z3.Or(z3.And(L('nodes'), z3.UGE(nodes, V('nodes', 64))),
                z3.And(L('movetime'), *[z3.UGE(t, V('movetime', 128)) for t in times])) if times else z3.And(L('nodes'), z3.UGE(nodes, V('nodes', 64)))
    # first with the window instantiated at the node counts a poll interval would single out (the next multiples of 2^k and of
    # round decimal numbers): unsat there already shows that some count in the window fires; only otherwise the quantified form
    def roundup(n, m):
        return z3.UDiv(n + (m - 1), z3.BitVecVal(m, 64)) * m
    cands = [n0] + [roundup(n0, 1 << k) for k in range(1, 17)] + [roundup(n0, m) for m in (10, 100, 250, 500, 1000, 2000, 2500, 3000, 4000, 5000, 6000, 8000,
                                                                                          10000, 20000, 25000, 30000, 40000, 50000, 60000)]
    q = run.decide('LIM/fires-when-due', ex.pre + [due] + [silent_at(c) for c in cands], kind='smt',
                   note='node budget reached or movetime passed => limits_exceeded answers true for some node count within the next %d nodes '
                        '(window instantiated at the next multiples of 2^k, k <= 16, and of round decimal numbers)' % POLL_WINDOW)
    if q.verdict == 'sat':
        run.queries.pop()
        q = run.decide('LIM/fires-when-due', ex.pre + [due, silent_at(n0),
                                                       z3.ForAll([n2], z3.Implies(z3.And(z3.UGE(n2, n0), z3.ULT(n2, n0 + POLL_WINDOW)), silent_at(n2)))], kind='smt',
                       note='node budget reached or movetime passed => limits_exceeded answers true for some node count within the next %d nodes (quantified over the window)' % POLL_WINDOW)
    if q.verdict == 'sat':
        run.violation('limits_exceeded stays silent for the next %d nodes although the node budget / movetime is reached' % POLL_WINDOW,
                      {'facts': {str(d): str(q.model[d]) for d in q.model.decls() if str(d).startswith(('lim', 'nodes0', 'elapsed'))}})
    for ob, qq in run.check_obligations(ex, 'LIM'):
        report(run, qq, 'LIM', 'panic reachable in limits_exceeded: %s' % ob.msg[:80])


def step_root(run, n):
    name = 'ROOT/n%d' % n
    ck = SS.cut_kind(run, record=False)      # the nested cuts guarantee what limits_exceeded itself establishes (LIM-KIND, see C13)
    if ck is None:
        run.inconclusive.append('%s: no sound contract for nested cuts (LIM-KIND)' % name)
        return
    env = SS.StepEnv(run, n, 'root', ply_concrete=0, abortable=True, limits=sym_limits(), cut_contract=ck)
    ex = env.ex
    st = State()
    old_mv = B.SymPly('old_best', piece=B.KNIGHT, color=0, free_flags=True)
    old_some = z3.Bool('old_best_some')
    sv = list(env.search_value(st))
    info = list(sv[4])
    info[0] = Enum(z3.If(old_some, z3.BitVecVal(1, 64), z3.BitVecVal(0, 64)), {1: (old_mv.value(),), 0: ()})
    old_score = z3.Int('old_score')
    info[1] = Enum(z3.If(old_some, z3.BitVecVal(1, 64), z3.BitVecVal(0, 64)), {1: (old_score,), 0: ()})
    sv[4] = tuple(info)
    sp = ex.alloc(st, tuple(sv))
    depth = z3.BitVec('depth', 8)
    ex.assume(z3.And(z3.UGE(depth, 1), z3.ULE(depth, 250)))
    ex.assume(z3.And(old_score >= MIN16, old_score <= MAX16))
    r = ex.call(env.item('alpha_beta_start'), [sp, ex.alloc(st, ()), depth, ('instant',)],
                ['&mut search::Search', '&evaluate::simple_evaluator::SimpleEvaluator', 'u8', 'std::time::Instant'], 'board::ply::Ply', st, 'harness')
    run.absorb(ex)
    if r is None:
        run.inconclusive.append('%s: diverges' % name)
        return
    from mirsym import executor as X
    if r[0] is X.PATHS:
        sts = [s for _, s in r[1]]
    else:
        sts = [r[1]]
    node = env.G.nodes[0]
    legal = [m['legal'] for m in node['moves']]
    bad = []
    # the Ply handed back to iter_deep: some pseudo-legal root move (not necessarily a legal one) -- the ITER contract relies on exactly this
    rets = [v for v, _ in r[1]] if r[0] is X.PATHS else [r[0]]
    rbad = []
    for rv, s_ in zip(rets, sts):
        ridx = bv(rv[1][0])
        is_pseudo = z3.Or(*[z3.And(ridx == i, ply_eq(rv, env.G.ply_value(0, i))) for i in range(len(legal))]) if legal else z3.BoolVal(False)
        rbad.append(z3.And(zb(s_.guard), z3.Or(*legal) if legal else z3.BoolVal(False), z3.Not(is_pseudo)))      # with no legal move the null move is handed back
    if n > 0:
        q = run.decide('%s/returned-move' % name, ex.pre + [z3.Or(*rbad)], kind='smt', note='alpha_beta_start hands back one of the root\'s generated moves')
        if q.verdict == 'sat':
            report(run, q, name, 'alpha_beta_start returns a move that is not among the generated root moves')
    for s_ in sts:
        S = ex.load(s_, sp.root, ())
        bm = S[4][0]
        g = zb(s_.guard)
        unchanged = z3.And(bv(bm.d) == z3.If(old_some, z3.BitVecVal(1, 64), z3.BitVecVal(0, 64)))
        if 1 in bm.pay:
            new = bm.pay[1][0]
            same = ply_eq(new, old_mv.value())
            idx = bv(new[1][0])
            is_root_mv = z3.Or(*[z3.And(idx == i, legal[i], ply_eq(new, env.G.ply_value(0, i))) for i in range(len(legal))]) if legal else z3.BoolVal(False)
            okc = z3.Or(z3.And(unchanged, z3.Or(z3.Not(old_some), same)), z3.And(bv(bm.d) == 1, is_root_mv))
        else:
            okc = unchanged
        bad.append(z3.And(g, z3.Not(okc)))
    q = run.decide('%s/best-move-discipline' % name, ex.pre + [z3.Or(*bad)], kind='smt',
                   note='after alpha_beta_start the recorded best move is the previous one or a legal root move')
    if q.verdict == 'sat':
        report(run, q, name, 'alpha_beta_start records a best move that is not a legal root move')
    for ob, qq in run.check_obligations(ex, name):
        report(run, qq, name, 'panic reachable in alpha_beta_start when cut short: %s %s' % (ob.where.split('::')[-1], ob.msg[:80]))


def lemma_timer(run):
    """TIMER: whenever a clock or an increment is given, Search::search sets up a finite time budget that is no larger than
    the largest of the given values -- so a clocked search cannot run unbounded (the logical part of "the answer arrives
    within the time the limits allow"; the wall clock itself is outside)"""
    name = 'TIMER'
    env = SS.StepEnv(run, 2, 'root', ply_concrete=0, abortable=False, limits=sym_limits())
    ex = env.ex
    turn = z3.BitVec('root_turn', 64)
    ex.assume(z3.ULT(turn, 2))
    env.G.nodes[0]['turn'] = turn
    seen = []

    def ab_start(ctx, sp, ev, depth, start):
        S = ctx.deref(sp)
        seen.append((ctx.st.guard, S[3]))
        from mirsym.executor import DIVERGE
        return DIVERGE
    ex.model(r'^search::Search::alpha_beta_start::<.*>$', ab_start)
    st = State()
    sp = ex.alloc(st, env.search_value(st))
    L = lambda n: z3.Bool('lim_%s_some' % n)
    V = lambda n: z3.BitVec('lim_%s' % n, 128)
    for n in ('wtime', 'btime', 'winc', 'binc'):
        ex.assume(z3.ULT(V(n), 1 << 64))          # clock values far from wrapping u128 (stated bound)
    ex.call(env.item('search'), [sp, ex.alloc(st, ()), some(CI(1, 8))],
            ['&mut search::Search', '&evaluate::simple_evaluator::SimpleEvaluator', 'std::option::Option<u8>'], '()', st, 'harness')
    run.absorb(ex)
    if not seen:
        run.inconclusive.append('%s: search() never reaches the first iteration' % name)
        return
    any_clock = z3.Or(L('wtime'), L('btime'), L('winc'), L('binc'))
    mx = z3.BitVecVal(0, 128)
    for n in ('wtime', 'btime', 'winc', 'binc'):
        v = z3.If(L(n), V(n), z3.BitVecVal(0, 128))
        mx = z3.If(z3.UGT(v, mx), v, mx)
    ti = run.prog.field_index('search::limits::SearchLimits', 'time_management_timer')
    bad = []
    for g, lim in seen:
        t = lim[ti]
        tsome = opt_is_some(t)
        tval = t.pay[1][0] if 1 in t.pay and t.pay[1] else None
        bad.append(z3.And(zb(g), any_clock, z3.Or(z3.Not(zb(tsome)), z3.UGT(bv(tval), mx) if tval is not None else z3.BoolVal(True))))
    if not run.witness(name, ex.pre + [zb(seen[0][0]), any_clock]):
        return
    q = run.decide('%s/clocked-search-has-a-finite-budget' % name, ex.pre + [z3.Or(*bad)], kind='smt',
                   note='any of wtime/btime/winc/binc given => the time budget set up by search() is Some(t) with t <= the largest given value')
    if q.verdict == 'sat':
        m = q.model
        given = {n: (m.eval(V(n), model_completion=True).as_long() if z3.is_true(m.eval(L(n), model_completion=True)) else None) for n in ('wtime', 'btime', 'winc', 'binc')}
        black = m.eval(turn, model_completion=True).as_long() == 1
        go = 'go ' + ' '.join('%s %d' % (n, min(v, 100000)) for n, v in given.items() if v is not None)
        pos = 'position startpos moves e2e4' if black else 'position startpos'
        out, err = real_engine(run, [pos, go], wait=4.0)
        nb = sum(1 for l in out.split('\n') if l.startswith('bestmove'))
        small = all(v is None or v <= 2000 for v in given.values())
        if nb == 0 and small:
            run.violation('after `%s; %s` the engine has not answered after 4 s although every given clock value is at most 2 s: no finite time budget is set up' % (pos, go),
                          {'lines': [pos, go], 'bestmove_lines': nb})
        else:
            # retry with small values of the same shape
            go2 = 'go ' + ' '.join('%s %d' % (n, 40) for n, v in given.items() if v is not None)
            out, err = real_engine(run, [pos, go2], wait=4.0)
            nb = sum(1 for l in out.split('\n') if l.startswith('bestmove'))
            if nb == 0:
                run.violation('after `%s; %s` the engine has not answered after 4 s: no finite time budget is set up for this mix of limits' % (pos, go2),
                              {'lines': [pos, go2], 'bestmove_lines': nb})
            else:
                run.inconclusive.append('%s: abstract counterexample (%s, black to move: %s) not reproduced on the real engine' % (name, given, black))
    for ob, qq in run.check_obligations(ex, name):
        real_check(run, 'search() can panic while setting up the time budget (%s)' % ob.msg[:60], 'S6')


def step_iter(run, cfg):
    """ITER: search/iter_deep with the iteration contract"""
    name = 'ITER/%s' % cfg
    cut_contract = [SS.cut_kind(run, record=False)]
    if cut_contract[0] is None:
        run.inconclusive.append('%s: no sound contract for cut iterations (LIM-KIND)' % name)
        return
    nmoves = 2
    env = SS.StepEnv(run, nmoves, 'root', ply_concrete=0, abortable=False, limits=sym_limits())
    ex = env.ex
    G = env.G
    iters = []
    L = lambda n: z3.Bool('lim_%s_some' % n)
    may_cut = z3.Or(L('nodes'), L('movetime'), L('wtime'), L('btime'), L('winc'), L('binc'))
    D = 3

    def ab_start(ctx, sp, ev, depth, start):
        k = len(iters)
        S = ctx.deref(sp)
        cut = z3.Bool('iteration_%d_cut' % k)
        upd = z3.Bool('iteration_%d_updates_best' % k)
        pick = z3.BitVec('iteration_%d_pick' % k, 8)
        ex.assume(z3.Implies(cut, may_cut))
        ex.assume(z3.ULT(pick, nmoves))
        ex.assume(z3.Or(*[z3.And(pick == i, G.nodes[0]['moves'][i]['legal']) for i in range(nmoves)]))   # the recorded move is legal (ROOT)
        mv = G.ply_value(0, 0)
        for i in range(1, nmoves):
            mv = ite(pick == i, G.ply_value(0, i), mv)
        sc = z3.Int('iteration_%d_score' % k)
        ex.assume(z3.And(sc >= MIN16, sc <= MAX16))
        iters.append({'depth': depth, 'guard': ctx.st.guard, 'cut': cut})
        base = sp.path
        old_bm, old_bs = S[4][0], S[4][1]
        # completed: best := Some(legal) ; cut short: best unchanged, or (only if there was one before) replaced by a legal move
        had = opt_is_some(old_bm)
        newbm = ite(cut, ite(b_and(upd, had), some(mv), old_bm), some(mv))
        newbs = ite(cut, ite(b_and(upd, had), some(sc), old_bs), some(sc))
        ctx.ex.store_to(ctx.st, sp.root, base + (('f', 4), ('f', 0)), newbm)
        ctx.ex.store_to(ctx.st, sp.root, base + (('f', 4), ('f', 1)), newbs)
        # a cut is sticky: either the running flag was cleared (stop, node budget, movetime: limits_exceeded clears it
        # itself), or the clock budget of a clocked search was reached -- then the flag stays set, but the clock has
        # passed the budget and never runs backwards
        clears = z3.Bool('iteration_%d_cut_clears_flag' % k)
        if cut_contract[0] == 'strong':
            ex.assume(z3.Implies(cut, clears))
        by_clock = z3.And(cut, z3.Not(clears))
        any_clock = z3.Or(L('wtime'), L('btime'), L('winc'), L('binc'))
        # the effective budget is the one in the Search value now (search() derives it from the mover's clock)
        timer = S[3][run.prog.field_index('search::limits::SearchLimits', 'time_management_timer')]
        tsome = opt_is_some(timer)
        tval = timer.pay[1][0] if 1 in timer.pay and timer.pay[1] else None
        ex.assume(z3.Implies(by_clock, z3.And(any_clock, zb(tsome))) if tval is not None else z3.Not(by_clock))
        if tval is not None:
            env.env.setdefault('clock_floor', []).append((z3.And(by_clock, zb(tsome)), bv(tval)))
        iters[-1]['by_clock'] = by_clock
        cell = S[0]
        cur = ctx.deref(cell)
        ctx.write(cell, ('atomic', b_and(cur[1], b_not(z3.And(cut, clears)))))
        nn = z3.BitVec('nodes_after_iter_%d' % k, 64)
        ex.assume(z3.ULT(nn, 1 << 50))
        ctx.ex.store_to(ctx.st, sp.root, base + (('f', 4), ('f', 2)), nn)
        # the returned Ply is only known to be one of the generated (pseudo-legal) root moves (ROOT/returned-move)
        rpick = z3.BitVec('iteration_%d_returned' % k, 8)
        ex.assume(z3.ULT(rpick, nmoves))
        rmv = G.ply_value(0, 0)
        for i in range(1, nmoves):
            rmv = ite(rpick == i, G.ply_value(0, i), rmv)
        return rmv
    ex.model(r'^search::Search::alpha_beta_start::<.*>$', ab_start)
    infos = []

    def log_uci_info(ctx, sp, depth, t, pv):
        infos.append({'depth': depth, 'guard': ctx.st.guard})
        return NOT_HANDLED
    ex.model(r'^search::Search::log_uci_info$', log_uci_info)
    st = State()
    sp = ex.alloc(st, env.search_value(st))
    if cfg == 'max-depth-from-go':
        # Uci::go wiring: max_depth == limits.depth ; bounded here by D iterations
        dl = z3.BitVec('lim_depth', 8)
        ex.assume(z3.And(L('depth'), z3.UGE(dl, 1), z3.ULE(dl, D)))
        md = some(dl)
    else:
        ex.assume(z3.Not(L('depth')))
        md = some(CI(D, 8))
    root_legal = z3.Or(*[m['legal'] for m in G.nodes[0]['moves']])
    ex.assume(root_legal)
    ex.enable_pruning(timeout_ms=2000)      # the iteration loop has a symbolic bound: infeasible further iterations are cut by the solver
    r = ex.call(env.item('search'), [sp, ex.alloc(st, ()), md],
                ['&mut search::Search', '&evaluate::simple_evaluator::SimpleEvaluator', 'std::option::Option<u8>'], '()', st, 'harness')
    run.absorb(ex)
    panics = run.check_obligations(ex, name)
    for ob, qq in panics:
        real_check(run, 'the search can panic at %s (%s)' % (ob.where.split('::')[-1], ob.msg[:60]), 'S6')
    if r is None:
        if not panics:
            run.inconclusive.append('%s: diverges' % name)
        return {'iters': iters, 'infos': infos, 'env': env, 'final': None}
    from mirsym import executor as X
    sts = [s for _, s in r[1]] if r[0] is X.PATHS else [r[1]]
    best = [e for e in env.env['events'] if e[0] == 'log' and 'iter_deep' in e[3]]
    gs = [zb(e[1]) for e in best]
    fin = z3.Or(*[zb(s.guard) for s in sts])
    twice = [z3.And(gs[i], gs[j]) for i in range(len(gs)) for j in range(i + 1, len(gs))]
    q = run.decide('%s/bestmove-once' % name, ex.pre + [z3.Or(z3.And(fin, z3.Not(z3.Or(*gs)) if gs else z3.BoolVal(True)), *twice)], kind='smt',
                   note='every search logs bestmove exactly once')
    if q.verdict == 'sat':
        real_check(run, 'a search ends without exactly one bestmove line', 'S6')
    bad = []
    for s_ in sts:
        S = ex.load(s_, sp.root, ())
        bm = S[4][0]
        c = [bv(bm.d) != 1]
        if 1 in bm.pay:
            idx = bv(bm.pay[1][0][1][0])
            lg = z3.Or(*[z3.And(idx == i, G.nodes[0]['moves'][i]['legal']) for i in range(nmoves)])
            c.append(z3.Not(lg))
        bad.append(z3.And(zb(s_.guard), z3.Or(*c)))
    q = run.decide('%s/bestmove-legal' % name, ex.pre + [z3.Or(*bad)], kind='smt', note='the move named by bestmove is a legal root move')
    if q.verdict == 'sat':
        real_check(run, 'bestmove names no legal move', 'S6')
    # the literal "bestmove 0000" is only printed when there is no legal move
    nulls = [zb(e[1]) for e in best if isinstance(e[2], type(e[2])) and getattr(e[2], 's', None) == 'bestmove 0000']
    if nulls:
        q = run.decide('%s/null-move-only-without-legal-move' % name, ex.pre + [z3.Or(*nulls)], kind='smt', note='"bestmove 0000" is unreachable when the root has a legal move')
        if q.verdict == 'sat':
            real_check(run, 'the null move is answered although a legal move exists', 'S6')
    return {'iters': iters, 'infos': infos, 'env': env, 'final': sts, 'sp': sp, 'D': D}


def wiring(run):
    """Uci::go: max_depth := limits.depth, Search::new(&board, Some(limits)), one thread spawned with search(&SimpleEvaluator, max_depth)"""
    from . import uci_loop as UL
    ex = run.executor()
    env = UL.Env(ex, [], False)
    UL.install(ex, env)
    seen = {}

    def search_new(ctx, bp, limits):
        seen['limits'] = limits
        return Opaque('Search', 'new')
    ex.model(r'^search::Search::new$', search_new)

    def spawn(ctx, clos):
        seen['closure'] = clos
        return Opaque('JoinHandle')
    ex.model(r'^std::thread::spawn::<.*>$', spawn)
    d_some = z3.Bool('go_depth_some')
    d = z3.BitVec('go_depth', 8)
    lim = (Enum(z3.If(d_some, z3.BitVecVal(1, 64), z3.BitVecVal(0, 64)), {1: (d,), 0: ()}),) + tuple([NONE] * 7)
    st = State()
    up = ex.alloc(st, UL.uci_value('none', run, ex, st))
    callee = [n for n, it in run.prog.items.items() if it.kind == 'fn' and n.startswith('uci::<impl') and n.endswith('::go')][0]
    r = ex.call(callee, [up, lim], ['&mut uci::Uci', 'search::limits::SearchLimits'], '()', st, 'harness')
    run.absorb(ex)
    ok = 'closure' in seen and 'limits' in seen
    if not ok:
        run.violation('Uci::go does not construct a search and spawn it', {})
        return
    env_c = seen['closure'].env
    md = env_c[1]
    q = run.decide('WIRE/max-depth', [z3.Or(bv(md.d) != z3.If(d_some, z3.BitVecVal(1, 64), z3.BitVecVal(0, 64)),
                                            z3.And(d_some, bv(md.pay[1][0]) != d) if 1 in md.pay else z3.BoolVal(False))], kind='smt',
                   note='Uci::go passes max_depth == limits.depth to the search thread')
    if q.verdict == 'sat':
        run.violation('Uci::go does not pass the depth limit as max_depth', {})
    for ob, qq in run.check_obligations(ex, 'WIRE', pre=[]):
        run.violation('Uci::go can panic: %s' % ob, {})


def worker(run, job):
    kind, arg = job
    if kind == 'ROOT':
        step_root(run, arg)
    elif kind == 'ITER':
        step_iter(run, arg)
    elif kind == 'LIM':
        lemma_limits(run)
    elif kind == 'TIMER':
        lemma_timer(run)
    else:
        wiring(run)


def check(run, replay=None):
    if replay:
        run.build()
        c = json.load(open(replay))
        if 'lines' in c:
            out, err = real_engine(run, c['lines'])
            nb = sum(1 for l in out.split('\n') if l.startswith('bestmove'))
            print('replay %r: %d bestmove lines; stderr: %s' % (c['lines'], nb, err[-200:]))
            return 1 if nb != 1 else 0
        return 1
    run.build()
    if not B.check_layout(run.prog):
        run.inconclusive.append('data layout differs')
        return
    lm = B.layout_mismatch(run.prog, B.SEARCH_LAYOUT)
    if lm:
        run.inconclusive.append('data layout differs from what the harness encodes: %s' % ', '.join(lm))
        return
    run.extra['explanation'] = __doc__
    N = 2 if run.tier == 'quick' else 3
    jobs = [('WIRE', 0), ('LIM', 0), ('TIMER', 0)] + [('ROOT', n) for n in range(1, N + 1)] + [('ITER', 'max-depth-from-go'), ('ITER', 'node-or-time-limits')]
    run.bounds.append('root nodes with 1..%d pseudo-legal moves (at least one legal); up to 3 iterations; every limit combination and every cut point symbolic' % N)
    run.outside += ['wall-clock promptness', 'thread-level behaviour (panic isolation, acceptance of the next command)', 'more moves at the root / more iterations']
    run.stubs |= {'one-level abstract game at the root', 'nested searches: window contract or cut short', 'iteration contract for alpha_beta_start inside iter_deep',
                  'clock free and non-decreasing', 'cache off', 'logger observed'}
    # sanity instance on the real binary (not the deciding step): small-limit go commands produce exactly one bestmove line
    for inst in REAL_INSTANCES:
        out, err = real_engine(run, inst, wait=1.5)
        nb = sum(1 for l in out.split('\n') if l.startswith('bestmove'))
        run.selftest['cases'] += 1
        if nb != 1:
            run.selftest['mismatches'] += 1
            run.selftest['what'].append('`%s`: %d bestmove lines' % ('; '.join(inst), nb))
    run.parallel(worker, jobs)
    if run.selftest['mismatches'] and not run.violations and not run.known:
        run.violation('real engine does not answer small-limit go commands with exactly one bestmove: %s' % run.selftest['what'][:3],
                      {'lines': REAL_INSTANCES[0], 'what': run.selftest['what']})
