"""Symbolic positions, move records, the representation invariant Inv and move-record consistency Cons
(DESIGN.md §4.1, §4.2), and helpers to pull components out of executor values."""
import z3

from mirsym.values import *
from mirsym.harness import bb

# MIR variant indices (checked against the source scan in `check_layout`)
PAWN, KING, QUEEN, ROOK, BISHOP, KNIGHT = 0, 1, 2, 3, 4, 5
KIND_NAMES = ['Pawn', 'King', 'Queen', 'Rook', 'Bishop', 'Knight']
WHITE, BLACK = 0, 1

# PieceBitboards field order
BB_FIELDS = ['white_pawns', 'white_king', 'white_queens', 'white_rooks', 'white_knights', 'white_bishops',
             'black_pawns', 'black_king', 'black_queens', 'black_rooks', 'black_knights', 'black_bishops',
             'white_pieces', 'black_pieces', 'all_pieces']
BOARD_FIELDS = ['current_turn', 'fullmove_counter', 'en_passant_file', 'history', 'position_history', 'bitboards', 'zkey']
PLY_FIELDS = ['start', 'dest', 'piece', 'captured_piece', 'promoted_to', 'is_castles', 'en_passant',
              'is_double_pawn_push', 'halfmove_clock', 'castling_rights']
RIGHTS_FIELDS = ['white_kingside', 'white_queenside', 'black_kingside', 'black_queenside']


PH_KIND = ['set']   # 'set' (HashSet<ZKey>) or 'vec' (Vec<ZKey>): read from the source by check_layout


def check_layout(prog):
    from mirsym import rustsrc
    t = rustsrc.FIELD_TYPES.get(('board::Board', 'position_history'), '')
    if 'HashSet' in t:
        PH_KIND[0] = 'set'
    elif t.startswith('Vec<'):
        PH_KIND[0] = 'vec'
    else:
        return False
    return _check_layout(prog)


SEARCH_LAYOUT = {
    'search::Search': ['running', 'board', 'original_board', 'limits', 'info'],
    'search::info::Info': ['best_move', 'best_score', 'nodes', 'depth', 'seldepth', 'killers'],
    'search::limits::SearchLimits': ['depth', 'nodes', 'movetime', 'white_time', 'black_time', 'white_increment', 'black_increment', 'time_management_timer'],
    'board::transposition_table::TTEntry': ['score', 'depth', 'bound', 'best_ply'],
}
UCI_LAYOUT = {'uci::Uci': ['board', 'search_running', 'join_handle']}


def layout_mismatch(prog, which):
    """names of the structs / enums whose layout differs from what a harness hard-codes (values are built as positional
    tuples): a harness that would feed misaligned fields to the executor must answer inconclusive, never a verdict"""
    bad = [k for k, v in which.items() if prog.structs.get(k) != v]
    if which is SEARCH_LAYOUT:
        if [v[0] for v in prog.enums.get('board::transposition_table::Bounds', [])] != ['Exact', 'Lower', 'Upper']:
            bad.append('board::transposition_table::Bounds')
    if which is UCI_LAYOUT:
        if [v[0] for v in prog.enums.get('uci::uci_command::UCICommand', [])] != ['Uci', 'IsReady', 'UCINewGame', 'SetOption', 'Position', 'Go', 'Stop', 'Quit']:
            bad.append('uci::uci_command::UCICommand')
        if [v[0] for v in prog.enums.get('uci::uci_command::PositionKind', [])] != ['StartPos', 'Fen']:
            bad.append('uci::uci_command::PositionKind')
    return bad


def _check_layout(prog):
    """the harness' idea of the data layout must match the source; otherwise the check is inconclusive"""
    s = prog.structs
    ok = (s.get('board::piece_bitboards::PieceBitboards') == BB_FIELDS and s.get('board::Board') == BOARD_FIELDS
          and s.get('board::ply::Ply') == PLY_FIELDS and s.get('board::ply::castling::CastlingRights') == RIGHTS_FIELDS
          and s.get('board::square::Square') == ['rank', 'file']
          and [v[0] for v in prog.enums.get('board::piece::Kind', [])] == KIND_NAMES
          and [v[0] for v in prog.enums.get('board::piece::Color', [])] == ['White', 'Black']
          and [v[0] for v in prog.enums.get('board::ply::castling::CastlingStatus', [])] == ['Available', 'Unavailable'])
    return ok


def bb_field(kind, color):
    """index into BB_FIELDS of the piece set for (kind, colour)"""
    name = ('white_' if color == WHITE else 'black_') + {PAWN: 'pawns', KING: 'king', QUEEN: 'queens', ROOK: 'rooks',
                                                         BISHOP: 'bishops', KNIGHT: 'knights'}[kind]
    return BB_FIELDS.index(name)


def color_v(c):
    if isinstance(c, int):
        return Enum(c, {0: (), 1: ()})
    return Enum(c, {0: (), 1: ()})


def kind_v(k, c):
    return Enum(k, {k: (color_v(c),)})


def opt_kind_v(k, c):
    if k is None:
        return Enum(0, {0: ()})
    return Enum(1, {1: (kind_v(k, c),), 0: ()})


def status_v(avail):
    """CastlingStatus from a z3 Bool / python bool 'is available'"""
    if isinstance(avail, bool):
        return Enum(0 if avail else 1, {0: (), 1: ()})
    return Enum(z3.If(avail, z3.BitVecVal(0, 64), z3.BitVecVal(1, 64)), {0: (), 1: ()})


def opt_u8_v(is_some, val):
    if isinstance(is_some, bool):
        return Enum(1, {1: (val,), 0: ()}) if is_some else Enum(0, {0: ()})
    return Enum(z3.If(is_some, z3.BitVecVal(1, 64), z3.BitVecVal(0, 64)), {1: (val,), 0: ()})


class PrefixSentinel:
    """stands for the unread older part of Board.history"""

    def __repr__(self):
        return '<history prefix>'


PREFIX = PrefixSentinel()


class SymPly:
    """a move record with named z3 components"""

    def __init__(self, tag, piece=None, color=None, captured=None, cap_color=None, promoted=None,
                 castles=False, en_passant=False, double=False, free_flags=False):
        self.tag = tag
        v = lambda n, w: z3.BitVec('%s_%s' % (tag, n), w)
        self.sr, self.sf, self.dr, self.df = v('sr', 8), v('sf', 8), v('dr', 8), v('df', 8)
        self.piece, self.color = piece, color
        self.captured, self.cap_color, self.promoted = captured, cap_color, promoted
        self.castles, self.en_passant, self.double = castles, en_passant, double
        if free_flags:
            self.castles = z3.Bool(tag + '_castles')
            self.en_passant = z3.Bool(tag + '_ep')
            self.double = z3.Bool(tag + '_dpp')
        self.hmc = v('hmc', 16)
        self.rights = [z3.Bool('%s_r%d' % (tag, i)) for i in range(4)]   # True = Available

    def value(self):
        piece = kind_v(self.piece, self.color)
        return ((self.sr, self.sf), (self.dr, self.df), piece,
                opt_kind_v(self.captured, self.cap_color),
                opt_kind_v(self.promoted, self.color),
                self.castles, self.en_passant, self.double, self.hmc,
                tuple(status_v(r) for r in self.rights))

    def in_range(self):
        return [z3.ULT(x, 8) for x in (self.sr, self.sf, self.dr, self.df)]

    def start_idx(self):
        return z3.ZeroExt(56, self.sr) * 8 + z3.ZeroExt(56, self.sf)

    def dest_idx(self):
        return z3.ZeroExt(56, self.dr) * 8 + z3.ZeroExt(56, self.df)


class SymBoard:
    def __init__(self, tag, turn, ep='sym'):
        """turn: WHITE/BLACK concrete (case split).  ep: 'sym' -> symbolic Option<u8>"""
        self.tag = tag
        self.turn = turn
        self.pcs = [z3.BitVec('%s_%s' % (tag, n), 64) for n in BB_FIELDS[:12]]
        self.white = self.pcs[0] | self.pcs[1] | self.pcs[2] | self.pcs[3] | self.pcs[4] | self.pcs[5]
        self.black = self.pcs[6] | self.pcs[7] | self.pcs[8] | self.pcs[9] | self.pcs[10] | self.pcs[11]
        self.all = self.white | self.black
        self.fullmove = z3.BitVec(tag + '_fullmove', 16)
        self.ep_some = z3.Bool(tag + '_ep_some')
        self.ep_file = z3.BitVec(tag + '_ep_file', 8)
        self.zkey = z3.BitVec(tag + '_zkey', 64)
        self.ph = z3.Array(tag + '_ph', z3.BitVecSort(64), z3.BoolSort())
        # last history record: arbitrary previous move (colour of the side not to move is NOT assumed: FEN loading fabricates one)
        self.prev = SymPly(tag + '_prev', piece=None, free_flags=True)
        self.prev_piece_kind = z3.BitVec(tag + '_prev_kind', 64)
        self.prev_piece_color = z3.BitVec(tag + '_prev_color', 64)
        self.prev_cap_some = z3.Bool(tag + '_prev_cap_some')
        self.prev_cap_kind = z3.BitVec(tag + '_prev_capkind', 64)
        self.prev_cap_color = z3.BitVec(tag + '_prev_capcolor', 64)
        self.prev_promo_some = z3.Bool(tag + '_prev_promo_some')
        self.prev_promo_kind = z3.BitVec(tag + '_prev_promokind', 64)
        self.prev_promo_color = z3.BitVec(tag + '_prev_promocolor', 64)

    def bbset(self, kind, color):
        return self.pcs[bb_field(kind, color)]

    def prev_value(self):
        p = self.prev
        kindv = lambda k, c: Enum(k, {i: (color_v(c),) for i in range(6)})
        optk = lambda some, k, c: Enum(z3.If(some, z3.BitVecVal(1, 64), z3.BitVecVal(0, 64)), {1: (kindv(k, c),), 0: ()})
        return ((p.sr, p.sf), (p.dr, p.df), kindv(self.prev_piece_kind, self.prev_piece_color),
                optk(self.prev_cap_some, self.prev_cap_kind, self.prev_cap_color),
                optk(self.prev_promo_some, self.prev_promo_kind, self.prev_promo_color),
                p.castles, p.en_passant, p.double, p.hmc, tuple(status_v(r) for r in p.rights))

    def value(self):
        bbs = tuple(bb(x) for x in self.pcs) + (bb(self.white), bb(self.black), bb(self.all))
        hist = Seq.of([PREFIX, self.prev_value()])
        if not hasattr(self, '_ph_n0'):
            self._ph_n0 = z3.BitVec(self.tag + '_ph_older_len', 64)
        ph = SetV(self.ph) if PH_KIND[0] == 'set' else KeyLog(self.ph, (), self._ph_n0)
        return (color_v(self.turn), self.fullmove, opt_u8_v(self.ep_some, self.ep_file), hist, ph, bbs, (self.zkey,))

    def domain(self):
        """well-formedness of the symbolic enum encodings (not chess rules)"""
        c = []
        for d in (self.prev_piece_kind, self.prev_cap_kind, self.prev_promo_kind):
            c.append(z3.ULT(d, 6))
        for d in (self.prev_piece_color, self.prev_cap_color, self.prev_promo_color):
            c.append(z3.ULT(d, 2))
        c.append(z3.Implies(self.ep_some, z3.ULT(self.ep_file, 8)))
        return c

    # ---- Inv
    def inv(self, with_kings=True):
        c = list(self.domain())
        # I1 pairwise disjoint
        acc = self.pcs[0]
        for x in self.pcs[1:]:
            c.append((acc & x) == 0)
            acc = acc | x
        # I2 exactly one king per colour
        if with_kings:
            for k in (self.pcs[1], self.pcs[7]):
                c.append(k != 0)
                c.append((k & (k - 1)) == 0)
        # I3 en-passant file <-> last record is a double push onto that file
        c.append(self.ep_some == self.prev.double)
        c.append(z3.Implies(self.ep_some, self.ep_file == self.prev.df))
        c += [z3.ULT(self.prev.df, 8), z3.ULT(self.prev.dr, 8), z3.ULT(self.prev.sr, 8), z3.ULT(self.prev.sf, 8)]
        # the pawn that just double-pushed stands on the 4th/5th rank of that file with the two squares behind it empty
        opp_pawns = self.bbset(PAWN, 1 - self.turn)
        for f in range(8):
            if self.turn == WHITE:   # black just pushed: pawn on rank 4 (index), rank 5 and 6 empty
                pawn_sq, e1, e2 = 4 * 8 + f, 5 * 8 + f, 6 * 8 + f
            else:
                pawn_sq, e1, e2 = 3 * 8 + f, 2 * 8 + f, 1 * 8 + f
            c.append(z3.Implies(z3.And(self.ep_some, self.ep_file == f),
                                z3.And(z3.Extract(pawn_sq, pawn_sq, opp_pawns) == 1,
                                       z3.Extract(e1, e1, self.all) == 0, z3.Extract(e2, e2, self.all) == 0)))
        # I4 castling rights imply king and rook at home
        wk, wr, bk, br = self.pcs[1], self.pcs[3], self.pcs[7], self.pcs[9]
        r = self.prev.rights
        c.append(z3.Implies(r[0], z3.And(z3.Extract(4, 4, wk) == 1, z3.Extract(7, 7, wr) == 1)))
        c.append(z3.Implies(r[1], z3.And(z3.Extract(4, 4, wk) == 1, z3.Extract(0, 0, wr) == 1)))
        c.append(z3.Implies(r[2], z3.And(z3.Extract(60, 60, bk) == 1, z3.Extract(63, 63, br) == 1)))
        c.append(z3.Implies(r[3], z3.And(z3.Extract(60, 60, bk) == 1, z3.Extract(56, 56, br) == 1)))
        # I5 counters in range
        c.append(z3.ULE(self.prev.hmc, 65534))
        c.append(z3.And(z3.UGE(self.fullmove, 1), z3.ULE(self.fullmove, 65534)))
        # I8 no pawns on the first / eighth rank
        edge = z3.BitVecVal(0xff000000000000ff, 64)
        c.append((self.pcs[0] & edge) == 0)
        c.append((self.pcs[6] & edge) == 0)
        return c


def bit_at(x, idx64):
    """Bool: bit number idx64 (64-bit term) of x is set"""
    return (z3.LShR(x, idx64) & 1) == 1


def cons(S, m):
    """Cons(S, mv) for a concrete move *shape* m (SymPly with concrete discriminants): list of z3 constraints"""
    c = m.in_range()
    me, opp = m.color, 1 - m.color
    assert me == S.turn
    si, di = m.start_idx(), m.dest_idx()
    own = S.white if me == WHITE else S.black
    c.append(z3.Or(m.sr != m.dr, m.sf != m.df))
    c.append(bit_at(S.bbset(m.piece, me), si))
    fwd = 1 if me == WHITE else -1
    home = 1 if me == WHITE else 6
    last = 7 if me == WHITE else 0
    ep_rank = 4 if me == WHITE else 3
    if m.en_passant:
        # pawn on its fifth rank, dest diagonal-forward on the en-passant file, captured = enemy pawn next to it
        assert m.piece == PAWN and m.captured == PAWN
        c += [m.sr == ep_rank, m.dr == ep_rank + fwd, S.ep_some, m.df == S.ep_file,
              z3.Or(m.df == m.sf + 1, m.df + 1 == m.sf)]
        c.append(z3.Not(bit_at(S.all, di)))
        return c
    if m.captured is None:
        c.append(z3.Not(bit_at(S.all, di)))
    else:
        c.append(bit_at(S.bbset(m.captured, opp), di))
    if m.piece == PAWN:
        if m.double:
            c += [m.sr == home, m.dr == home + 2 * fwd, m.df == m.sf]
            mid = z3.ZeroExt(56, z3.BitVecVal(home + fwd, 8)) * 8 + z3.ZeroExt(56, m.sf)
            c.append(z3.Not(bit_at(S.all, mid)))
        else:
            c.append(m.dr == m.sr + z3.BitVecVal(fwd & 0xff, 8))
            if m.captured is None:
                c.append(m.df == m.sf)
            else:
                c.append(z3.Or(m.df == m.sf + 1, m.df + 1 == m.sf))
        if m.promoted is not None:
            c.append(m.dr == last)
        else:
            c.append(m.dr != last)
    if m.castles:
        assert m.piece == KING
        rank = 0 if me == WHITE else 7
        c += [m.sr == rank, m.sf == 4, m.dr == rank, z3.Or(m.df == 6, m.df == 2)]
        ks, qs = (0, 1) if me == WHITE else (2, 3)
        r = S.prev.rights
        base = rank * 8
        c.append(z3.Implies(m.df == 6, z3.And(r[ks], (S.all & z3.BitVecVal(0x60 << base, 64)) == 0)))
        c.append(z3.Implies(m.df == 2, z3.And(r[qs], (S.all & z3.BitVecVal(0x0e << base, 64)) == 0)))
    return c


def move_shapes(colors=(WHITE, BLACK)):
    """the finite case split over enum discriminants of a move record"""
    out = []
    caps = [None, PAWN, QUEEN, ROOK, BISHOP, KNIGHT]
    for me in colors:
        for cap in caps:
            out.append(dict(color=me, piece=PAWN, captured=cap, name='pawn'))
            if cap == PAWN:
                continue   # a promotion cannot capture a pawn: no pawn stands on the last rank (I8)
            for pr in (QUEEN, ROOK, BISHOP, KNIGHT):
                out.append(dict(color=me, piece=PAWN, captured=cap, promoted=pr, name='pawn-promo'))
        out.append(dict(color=me, piece=PAWN, captured=None, double=True, name='pawn-double'))
        out.append(dict(color=me, piece=PAWN, captured=PAWN, en_passant=True, name='pawn-ep'))
        for cap in caps:
            out.append(dict(color=me, piece=KING, captured=cap, name='king'))
        out.append(dict(color=me, piece=KING, captured=None, castles=True, name='king-castles'))
        for pc in (QUEEN, ROOK, BISHOP, KNIGHT):
            for cap in caps:
                out.append(dict(color=me, piece=pc, captured=cap, name=KIND_NAMES[pc].lower()))
    return out


def shape_name(sh):
    s = '%s-%s' % ('w' if sh['color'] == WHITE else 'b', sh['name'])
    if sh.get('captured') is not None:
        s += '-x' + KIND_NAMES[sh['captured']].lower()
    if sh.get('promoted') is not None:
        s += '=' + KIND_NAMES[sh['promoted']].lower()
    return s


def shape_ply(sh, tag='mv'):
    return SymPly(tag, piece=sh['piece'], color=sh['color'], captured=sh.get('captured'),
                  cap_color=1 - sh['color'], promoted=sh.get('promoted'), castles=sh.get('castles', False),
                  en_passant=sh.get('en_passant', False), double=sh.get('double', False))


# ------------------------------------------------------------------ extracting components from executor values

def enum_d(e):
    return bv(e.d)


def board_parts(b):
    """dict of comparable z3 terms from a Board value"""
    out = {}
    out['turn'] = enum_d(b[0])
    out['fullmove'] = bv(b[1])
    ep = b[2]
    out['ep_some'] = enum_d(ep)
    out['ep_file'] = bv(ep.pay[1][0]) if 1 in ep.pay and ep.pay[1][0] is not None else None
    out['history'] = b[3]
    out['ph'] = b[4]
    for i, n in enumerate(BB_FIELDS):
        out[n] = bv(b[5][i][0])
    out['zkey'] = bv(b[6][0])
    return out


def ply_terms(p):
    """flat list of (name, z3 term) for a Ply value"""
    out = []
    out += [('start.rank', bv(p[0][0])), ('start.file', bv(p[0][1])), ('dest.rank', bv(p[1][0])), ('dest.file', bv(p[1][1]))]
    out += kind_terms('piece', p[2])
    out += optkind_terms('captured', p[3])
    out += optkind_terms('promoted', p[4])
    out += [('is_castles', zb(p[5])), ('en_passant', zb(p[6])), ('double', zb(p[7])), ('hmc', bv(p[8]))]
    for i, n in enumerate(RIGHTS_FIELDS):
        out.append(('rights.' + n, enum_d(p[9][i])))
    return out


def kind_terms(name, k):
    # colour payload may differ per variant; select by discriminant
    d = enum_d(k)
    col = None
    for i in sorted(k.pay):
        if not k.pay[i]:
            continue
        c = enum_d(k.pay[i][0])
        col = c if col is None else z3.If(d == i, c, col)
    return [(name + '.kind', d), (name + '.color', col)]


def optkind_terms(name, o):
    d = enum_d(o)
    out = [(name + '.some', d)]
    if 1 in o.pay and o.pay[1] and o.pay[1][0] is not None:
        inner = kind_terms(name, o.pay[1][0])
        out += [(n, z3.If(d == 1, t, z3.BitVecVal(0, 64))) for n, t in inner]
    return out


def ph_differs(a, b):
    """z3 Bool: two records of earlier positions differ (as sets for HashSet, as sequences for Vec)"""
    if isinstance(a, SetV) and isinstance(b, SetV):
        return a.arr != b.arr
    if isinstance(a, KeyLog) and isinstance(b, KeyLog):
        if len(a.ents) != len(b.ents):
            return z3.BoolVal(True)
        return z3.Or(a.base != b.base, a.n0 != b.n0, *[x != y for x, y in zip(a.ents, b.ents)])
    raise Unsupported('comparing position records of different kinds')


def ph_contains(ph, k):
    if isinstance(ph, SetV):
        return z3.Select(ph.arr, k)
    return zb(ph.contains(k))
