"""Abstract strings for the UCI front end (DESIGN.md §3.3).

A token (one whitespace-separated word of an input line) is TokV(kind, num):
  kind : free 8-bit value.  Comparing a token with a string literal asks `kind == id(literal)`; ids are handed
         out on first use, so every literal the code ever compares against is distinguishable, and every other kind
         value behaves as an unknown word (junk).  NUM (255) marks a decimal number.
  num  : the number's value (136-bit, wider than any parsed type) when kind == NUM.
`parse::<T>()` is Ok(v) iff kind == NUM and v fits T (std contract of FromStr for unsigned integers).
Joined / formatted strings are AbsStr(empty: Bool) — only their emptiness is ever inspected.
"""
import z3

from mirsym.values import *
from mirsym import executor as X
from mirsym.models import StrV, ok, err, as_str

NUM = 255
NUMW = 136


class Vocab:
    def __init__(self):
        self.ids = {}

    def id(self, s):
        if s not in self.ids:
            if len(self.ids) >= 250:
                raise Unsupported('too many string literals')
            self.ids[s] = len(self.ids) + 1
        return self.ids[s]

    def word(self, kind, num):
        if kind == NUM:
            return str(num)
        for s, i in self.ids.items():
            if i == kind:
                return s
        return 'zz%d' % kind


VOCAB = Vocab()


class TokV:
    __slots__ = ('kind', 'num')

    def __init__(self, kind, num):
        self.kind, self.num = kind, num

    @staticmethod
    def fresh(tag):
        return TokV(z3.BitVec(tag + '_kind', 8), z3.BitVec(tag + '_num', NUMW))

    def ite_with(self, g, o):
        return TokV(z3.If(g, bv(self.kind), bv(o.kind)), z3.If(g, bv(self.num), bv(o.num)))

    def eq_model(self, ctx, other):
        other = as_str(ctx, other)
        if isinstance(other, StrV):
            return lift(z3.simplify(bv(self.kind) == VOCAB.id(other.s)))
        if isinstance(other, TokV):
            return z3.And(bv(self.kind) == bv(other.kind), z3.Or(bv(self.kind) != NUM, bv(self.num) == bv(other.num)))
        raise Unsupported('token compared with %r' % (other,))

    def parse_model(self, ctx, t):
        w, signed = X.INT_TYPES[t]
        if signed:
            raise Unsupported('parse to a signed type')
        fits = z3.And(bv(self.kind) == NUM, z3.ULT(bv(self.num), z3.BitVecVal(1 << w, NUMW)))
        d = z3.If(fits, z3.BitVecVal(0, 64), z3.BitVecVal(1, 64))
        return Enum(d, {0: (z3.Extract(w - 1, 0, bv(self.num)),), 1: (Opaque('ParseIntError'),)})

    def is_empty_model(self, ctx):
        return False     # split_whitespace never yields an empty word

    def length(self):
        raise Unsupported('length of an abstract token')

    def ite_mixed(self, g, other, self_is_then):
        if isinstance(other, StrV):
            o = TokV(CI(VOCAB.id(other.s), 8), CI(0, NUMW))
            return self.ite_with(g, o) if self_is_then else o.ite_with(g, self)
        raise Unsupported('ite of token with %r' % (other,))

    def __repr__(self):
        return 'TokV'


class AbsStr:
    """a String of which only emptiness is tracked"""
    __slots__ = ('empty', 'what')

    def __init__(self, empty, what=''):
        self.empty, self.what = empty, what

    def ite_with(self, g, o):
        return AbsStr(ite(g, self.empty, o.empty), self.what)

    def is_empty_model(self, ctx):
        return self.empty

    def ite_mixed(self, g, other, self_is_then):
        if isinstance(other, StrV):
            o = AbsStr(len(other.s) == 0, 'literal')
        elif hasattr(other, 'cases') and hasattr(other, 'empty'):
            o = AbsStr(other.empty, 'choice')
        elif isinstance(other, TokV):
            o = AbsStr(False, 'token')
        else:
            raise Unsupported('ite of abstract string with %r' % (other,))
        return self.ite_with(g, o) if self_is_then else o.ite_with(g, self)

    def eq_model(self, ctx, other):
        raise Unsupported('comparison of an abstract joined string')

    def __repr__(self):
        return 'AbsStr(%s)' % self.what


def install(ex):
    def join(ctx, p, sep):
        n = ctx.ex.slice_len(p, ctx.st)
        return AbsStr(ctx.ex.binop('Eq', n, CI(0, 64), 'usize'), 'join')
    ex.model(r'^std::slice::<impl \[.*\]>::join::<&str>$', join)

    def to_lowercase(ctx, s):
        s = as_str(ctx, s)
        if isinstance(s, StrV):
            return StrV(s.s.lower())
        return s
    ex.model(r'^std::str::<impl str>::to_lowercase$', to_lowercase)

    def display_to_string(ctx, p):
        return AbsStr(False, 'Display')
    ex.model(r'^<board::(ply::Ply|square::Square|piece::Kind) as std::string::ToString>::to_string$', display_to_string)

    def fmt_format(ctx, args):
        return AbsStr(False, 'format!')
    ex.model(r'^std::fmt::format$', fmt_format)

    def string_clone(ctx, p):
        return ctx.deref(p)
    ex.model(r'^<std::string::String as std::clone::Clone>::clone$', string_clone)

    def str_display_arg(ctx, *a):
        return Opaque('fmt::Argument')
    ex.model(r'^core::fmt::rt::Argument(::<.*>)?::new_(display|debug)::<.*>$', str_display_arg)

    def from_str_into_string(ctx, s):
        return as_str(ctx, s)
    ex.model(r'^<(std::string::String|&str|str) as std::convert::(Into|From)<(std::string::String|&str)>>::(into|from)$', from_str_into_string)
    ex.model(r'^<&str as std::convert::Into<std::string::String>>::into$', from_str_into_string)
    ex.model(r'^<impl Into<String> as std::convert::Into<std::string::String>>::into$', from_str_into_string)
