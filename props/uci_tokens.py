"""Abstract strings for the UCI front end (DESIGN.md §3.3).

A token (one whitespace-separated word of an input line) is TokV(kind, num):
  kind : free 8-bit value.  Comparing a token with a string literal asks `kind == id(literal)`; ids are handed
         out on first use, so every literal the code ever compares against is distinguishable, and every other kind
         value behaves as an unknown word (junk).  NUM (255) marks a decimal number.
  num  : the number's value (136-bit, wider than any parsed type) when kind == NUM.
`parse::<T>()` is Ok(v) iff kind == NUM and v fits T (std contract of FromStr for unsigned integers).
Joined / formatted strings are AbsStr(empty: Bool) — only their emptiness is ever inspected.
"""
import z3

from mirsym.values import *
from mirsym import executor as X
from mirsym.executor import NOT_HANDLED, DIVERGE
from mirsym.models import StrV, ok, err, as_str

NUM = 255
NUMW = 136


class Vocab:
    def __init__(self):
        self.ids = {}

    def id(self, s):
        if s not in self.ids:
            if len(self.ids) >= 250:
                raise Unsupported('too many string literals')
            self.ids[s] = len(self.ids) + 1
        return self.ids[s]

    def word(self, kind, num):
        if kind == NUM:
            return str(num)
        for s, i in self.ids.items():
            if i == kind:
                return s
        return 'zz%d' % kind


VOCAB = Vocab()


TOK_LEN = z3.Function('token_byte_length', z3.BitVecSort(8), z3.BitVecSort(NUMW), z3.BitVecSort(64))
TOK_ASCII = z3.Function('token_is_ascii', z3.BitVecSort(8), z3.BitVecSort(NUMW), z3.BoolSort())


class TokV:
    __slots__ = ('kind', 'num')

    def __init__(self, kind, num):
        self.kind, self.num = kind, num

    @staticmethod
    def fresh(tag):
        return TokV(z3.BitVec(tag + '_kind', 8), z3.BitVec(tag + '_num', NUMW))

    def ite_with(self, g, o):
        return TokV(z3.If(g, bv(self.kind), bv(o.kind)), z3.If(g, bv(self.num), bv(o.num)))

    def eq_model(self, ctx, other):
        other = as_str(ctx, other)
        if isinstance(other, StrV):
            return lift(z3.simplify(bv(self.kind) == VOCAB.id(other.s)))
        if isinstance(other, TokV):
            return z3.And(bv(self.kind) == bv(other.kind), z3.Or(bv(self.kind) != NUM, bv(self.num) == bv(other.num)))
        raise Unsupported('token compared with %r' % (other,))

    def parse_model(self, ctx, t):
        w, signed = X.INT_TYPES[t]
        if signed:
            raise Unsupported('parse to a signed type')
        fits = z3.And(bv(self.kind) == NUM, z3.ULT(bv(self.num), z3.BitVecVal(1 << w, NUMW)))
        d = z3.If(fits, z3.BitVecVal(0, 64), z3.BitVecVal(1, 64))
        return Enum(d, {0: (z3.Extract(w - 1, 0, bv(self.num)),), 1: (Opaque('ParseIntError'),)})

    def is_empty_model(self, ctx):
        return False     # split_whitespace never yields an empty word

    def len_model(self, ctx):
        # byte length of the word: an uninterpreted function of the word, 1 .. 65535 (a line is far shorter: stated bound)
        n = TOK_LEN(bv(self.kind), bv(self.num))
        ctx.ex.assume(z3.And(z3.UGE(n, 1), z3.ULE(n, 65535)))
        return n

    def length(self):
        raise Unsupported('length of an abstract token')

    def ite_mixed(self, g, other, self_is_then):
        if isinstance(other, StrV):
            o = TokV(CI(VOCAB.id(other.s), 8), CI(0, NUMW))
            return self.ite_with(g, o) if self_is_then else o.ite_with(g, self)
        raise Unsupported('ite of token with %r' % (other,))

    def __repr__(self):
        return 'TokV'


class AbsStr:
    """a String of which only emptiness is tracked"""
    __slots__ = ('empty', 'what')

    def __init__(self, empty, what=''):
        self.empty, self.what = empty, what

    def ite_with(self, g, o):
        return AbsStr(ite(g, self.empty, o.empty), self.what)

    def is_empty_model(self, ctx):
        return self.empty

    def ite_mixed(self, g, other, self_is_then):
        if isinstance(other, StrV):
            o = AbsStr(len(other.s) == 0, 'literal')
        elif hasattr(other, 'cases') and hasattr(other, 'empty'):
            o = AbsStr(other.empty, 'choice')
        elif isinstance(other, TokV):
            o = AbsStr(False, 'token')
        else:
            raise Unsupported('ite of abstract string with %r' % (other,))
        return self.ite_with(g, o) if self_is_then else o.ite_with(g, self)

    def eq_model(self, ctx, other):
        raise Unsupported('comparison of an abstract joined string')

    def __repr__(self):
        return 'AbsStr(%s)' % self.what


def install(ex):
    def join(ctx, p, sep):
        n = ctx.ex.slice_len(p, ctx.st)
        return AbsStr(ctx.ex.binop('Eq', n, CI(0, 64), 'usize'), 'join')
    ex.model(r'^std::slice::<impl \[.*\]>::join::<&str>$', join)

    def to_lowercase(ctx, s):
        s = as_str(ctx, s)
        if isinstance(s, StrV):
            return StrV(s.s.lower())
        return s
    ex.model(r'^std::str::<impl str>::to_lowercase$', to_lowercase)

    def display_to_string(ctx, p):
        return AbsStr(False, 'Display')
    ex.model(r'^<board::(ply::Ply|square::Square|piece::Kind) as std::string::ToString>::to_string$', display_to_string)

    def fmt_format(ctx, args):
        return AbsStr(False, 'format!')
    ex.model(r'^std::fmt::format$', fmt_format)

    # a String built piecewise (with_capacity / write! / push_str / push): only its emptiness is tracked
    def abs_of(ctx, v):
        v = as_str(ctx, v) if not isinstance(v, (AbsStr, StrV, TokV)) else v
        if isinstance(v, AbsStr):
            return v
        if isinstance(v, StrV):
            return AbsStr(len(v.s) == 0, 'literal')
        if isinstance(v, TokV):
            return AbsStr(False, 'token')
        if hasattr(v, 'empty'):
            return AbsStr(v.empty, 'choice')
        raise Unsupported('abstract string of %r' % (v,))
    ex.model(r'^std::string::String::with_capacity$', lambda ctx, n: AbsStr(True, 'with_capacity'))
    wctr = [0]

    def string_write_fmt(ctx, p, args):
        wctr[0] += 1
        cur = abs_of(ctx, ctx.deref(p))
        # what is written may be empty (e.g. "{}" of an empty string): emptiness stays only if it was empty and nothing came
        ctx.write(p, AbsStr(b_and(cur.empty, z3.Bool('write_%d_wrote_nothing' % wctr[0])), 'write!'))
        return Enum(0, {0: (UNIT,)})
    ex.model(r'^<std::string::String as std::fmt::Write>::write_fmt$', string_write_fmt)
    ex.model(r'^std::fmt::Write::write_fmt::<std::string::String>$', string_write_fmt)

    def string_push_str(ctx, p, s2):
        cur = ctx.deref(p)
        if isinstance(cur, StrV) and isinstance(as_str(ctx, s2), StrV):
            return NOT_HANDLED
        ctx.write(p, AbsStr(b_and(abs_of(ctx, cur).empty, abs_of(ctx, s2).empty), 'push_str'))
        return UNIT
    ex.model(r'^std::string::String::push_str$', string_push_str)

    def string_push(ctx, p, c):
        cur = ctx.deref(p)
        if isinstance(cur, StrV) and isinstance(c, CI):
            return NOT_HANDLED
        ctx.write(p, AbsStr(False, 'push'))
        return UNIT
    ex.model(r'^std::string::String::push$', string_push)

    def str_index_range_to(ctx, s_, r):
        # &lit[..n] with a symbolic n: a prefix, empty iff n == 0 (n > len panics)
        v = as_str(ctx, s_)
        n = r[0] if isinstance(r, tuple) else r
        if isinstance(v, StrV) and isinstance(n, CI):
            return NOT_HANDLED
        if not isinstance(v, StrV):
            raise Unsupported('range index of %r' % (v,))
        if not ctx.panic_if(ctx.ex.binop('Gt', n, CI(len(v.s.encode()), 64), 'usize'), 'byte index out of bounds of the string'):
            return DIVERGE
        return AbsStr(ctx.ex.binop('Eq', n, CI(0, 64), 'usize'), 'prefix')
    ex.model(r'^core::str::traits::<impl std::ops::Index<std::ops::RangeTo<usize>> for str>::index$', str_index_range_to)
    ex.model(r'^<str as std::ops::Index<std::ops::RangeTo<usize>>>::index$', str_index_range_to)

    # byte-level handling of a word that only exists as an abstract token: its bytes stay opaque, what is built from them is a
    # String of which emptiness is tracked
    def tok_is_ascii(ctx, s_):
        v = as_str(ctx, s_)
        if not isinstance(v, TokV):
            return NOT_HANDLED
        return TOK_ASCII(bv(v.kind), bv(v.num))
    ex.model(r'^core::str::<impl str>::is_ascii$', tok_is_ascii)

    def tok_bytes(ctx, s_):
        v = as_str(ctx, s_)
        if not isinstance(v, TokV):
            return NOT_HANDLED
        return Opaque('bytes-of-a-token', False)
    ex.model(r'^core::str::<impl str>::(bytes|chars)$', tok_bytes)

    def opaque_adaptor(ctx, it, *a):
        if isinstance(it, Opaque) and it.tag == 'bytes-of-a-token':
            return it
        return NOT_HANDLED
    ex.model(r'^<std::str::(Bytes|Chars)(<.*>)? as std::iter::Iterator>::(map|filter|copied|cloned)(::<.*>)?$', opaque_adaptor)
    ex.model(r'^<std::iter::(Map|Filter|Copied|Cloned)<std::str::(Bytes|Chars).* as std::iter::(Iterator|IntoIterator)>::(map|filter|copied|cloned|into_iter)(::<.*>)?$', opaque_adaptor)

    def string_extend(ctx, p, it):
        cur = abs_of(ctx, ctx.deref(p))
        if isinstance(it, Opaque) and it.tag == 'bytes-of-a-token':
            ctx.write(p, AbsStr(False, 'extend'))        # a word is never empty
            return UNIT
        if isinstance(ctx.deref(p), StrV):
            return NOT_HANDLED
        from mirsym.models_extra import _ents, _as_iter
        gs = [g for g, _ in _ents(ctx, _as_iter(ctx, it))]
        ctx.write(p, AbsStr(b_and(cur.empty, *[b_not(g) for g in gs]), 'extend'))
        return UNIT
    ex.model(r'^<std::string::String as std::iter::Extend<.*>>::extend::<.*>$', string_extend)

    def string_clone(ctx, p):
        return ctx.deref(p)
    ex.model(r'^<std::string::String as std::clone::Clone>::clone$', string_clone)

    def str_display_arg(ctx, *a):
        return Opaque('fmt::Argument')
    ex.model(r'^core::fmt::rt::Argument(::<.*>)?::new_(display|debug)::<.*>$', str_display_arg)

    def from_str_into_string(ctx, s):
        return as_str(ctx, s)
    ex.model(r'^<(std::string::String|&str|str) as std::convert::(Into|From)<(std::string::String|&str)>>::(into|from)$', from_str_into_string)
    ex.model(r'^<&str as std::convert::Into<std::string::String>>::into$', from_str_into_string)
    ex.model(r'^<impl Into<String> as std::convert::Into<std::string::String>>::into$', from_str_into_string)
