"""C17 — evaluation is colour-symmetric.

SimpleEvaluator::evaluate -> Board::get_piece_count -> PieceBitboards::get_piece_count -> Bitboard::count_ones,
executed from MIR in exact integer mode: count_ones is an uninterpreted function pc: BV64 -> Int; every wrap
(the `as i16` cast, saturating_add/sub, the overflow-checked multiply) is kept as an explicit mod / clamp / obligation.
Lemmas: (i) bit-precise: popcount(bswap x) == popcount(x), 0 <= popcount <= 64;
        (ii) over the counts: eval(S) == eval(mirror S), eval(S) == -eval(S with the other side to move), no overflow panic.
Bound (stated): per colour <= 9 queens, <= 10 rooks, bishops, knights, <= 8 pawns (maxima of legal chess).
"""
import json
import z3

from mirsym.executor import State
from mirsym.values import *
from mirsym import models, native, solve
from mirsym.harness import bb
from . import boardsym as B
from . import boardstep as BS

LEVEL = 'proof'

LIMITS = {B.QUEEN: 9, B.ROOK: 10, B.BISHOP: 10, B.KNIGHT: 10, B.PAWN: 8, B.KING: 1}
EVAL = '<evaluate::simple_evaluator::SimpleEvaluator as evaluate::Evaluator>::evaluate'


def bswap(x):
    return z3.Concat(*[z3.Extract(8 * i + 7, 8 * i, x) for i in range(8)])


def board_with(pcs, turn):
    white = pcs[0] | pcs[1] | pcs[2] | pcs[3] | pcs[4] | pcs[5]
    black = pcs[6] | pcs[7] | pcs[8] | pcs[9] | pcs[10] | pcs[11]
    bbs = tuple(bb(x) for x in pcs) + (bb(white), bb(black), bb(white | black))
    # the last-move record is arbitrary but the same for the position, its mirror image and its side-swapped twin
    # (only its half-move clock could matter to an evaluator; the property compares positions with equal clocks)
    prev = B.SymBoard('ev', B.WHITE).prev_value()
    return (B.color_v(turn), z3.BitVec('fm', 16), B.opt_u8_v(False, None), Seq.of([B.PREFIX, prev]), None, bbs, (z3.BitVec('zk', 64),))


def run_eval(run, pcs, turn, pc):
    ex = run.executor()
    models.COUNT_ONES_HOOK[0] = lambda a: pc(a)
    try:
        st = State()
        bp = ex.alloc(st, board_with(pcs, turn))
        r = ex.call(EVAL, [(), bp], ['&evaluate::simple_evaluator::SimpleEvaluator', '&mut board::Board'], 'i16', st, 'harness')
    finally:
        models.COUNT_ONES_HOOK[0] = None
    run.absorb(ex)
    if r is None:
        raise Unsupported('evaluate diverges on every path')
    val, st2 = r
    return ex, val, st2


def native_eval(run, pcs_vals, turn, hmc=0):
    white = 0
    for x in pcs_vals[:6]:
        white |= x
    black = 0
    for x in pcs_vals[6:]:
        black |= x
    toks = [str(turn), '1', '-1', '1'] + ['0', '0', '0', '0', '0', '0', '-1', '-1', '0', '0', '0', str(hmc), '1', '1', '1', '1'] + ['0']
    toks += [str(x) for x in pcs_vals] + [str(white), str(black), str(white | black), '0']
    stt, out = BS.native_board_cmd(run, 'eval', toks)
    return stt, out


def check(run, replay=None):
    if replay:
        run.build()
        c = json.load(open(replay))
        vals = {}
        for nm, (p, t) in c['cases'].items():
            stt, out = native_eval(run, p, t, c.get('hmc', 0))
            vals[nm] = (stt, out)
            print('replay', nm, stt, out)
        return 1
    run.build()
    if not B.check_layout(run.prog):
        run.inconclusive.append('data layout differs from what the harness encodes')
        return
    run.extra['explanation'] = __doc__
    run.bounds.append('all piece placements with, per colour, <= 9 queens, <= 10 rooks, bishops, knights, <= 8 pawns; both sides to move')
    run.outside.append('more pieces than legal chess allows (from 37 queens `count as i16 * 900` overflows: panics in debug, wraps in release)')
    run.stubs.add('u64::count_ones as uninterpreted pc: BV64 -> Int, with the separately proven lemmas pc(bswap x) == pc(x), 0 <= pc <= 64')

    x = z3.BitVec('x', 64)
    # (i) bit-precise popcount lemmas
    pt = models.popcount_term
    run.decide('popcount/bswap-invariant', [pt(bswap(x)) != pt(x)], kind='bv', note='popcount(bswap x) == popcount(x) for all 64-bit x')
    run.decide('popcount/range', [z3.UGT(pt(x), 64)], kind='bv', note='popcount(x) <= 64')
    # count_ones model == popcount_term on the real function (concrete differential)
    import random
    rnd = random.Random(run.seed)
    for _ in range(20):
        v = rnd.getrandbits(64)
        run.selftest['cases'] += 1
        if bin(v).count('1') != z3.simplify(pt(z3.BitVecVal(v, 64))).as_long():
            run.selftest['mismatches'] += 1

    pc = z3.Function('pc', z3.BitVecSort(64), z3.IntSort())
    for turn in (B.WHITE, B.BLACK):
        pcs = [z3.BitVec('p_%s' % n, 64) for n in B.BB_FIELDS[:12]]
        mirror = [bswap(pcs[(i + 6) % 12]) for i in range(12)]     # colours swapped, ranks flipped
        axioms = []
        for i, p in enumerate(pcs):
            kind = [B.PAWN, B.KING, B.QUEEN, B.ROOK, B.KNIGHT, B.BISHOP][i % 6]
            axioms += [pc(p) >= 0, pc(p) <= LIMITS[kind], pc(bswap(p)) == pc(p)]
        ex1, e1, s1 = run_eval(run, pcs, turn, pc)
        ex2, e2, s2 = run_eval(run, mirror, 1 - turn, pc)
        ex3, e3, s3 = run_eval(run, pcs, 1 - turn, pc)
        tn = 'white' if turn == B.WHITE else 'black'
        q = run.decide('%s-to-move/mirror' % tn, axioms + [zb(s1.guard), zb(s2.guard), e1 != e2], kind='smt',
                       note='evaluate(S) == evaluate(colour-mirrored S)')
        if q.verdict == 'sat':
            report(run, q, pcs, turn, 'mirror', [('S', pcs, turn), ('mirror', mirror, 1 - turn)])
        q = run.decide('%s-to-move/negation' % tn, axioms + [zb(s1.guard), zb(s3.guard), e1 != -e3], kind='smt',
                       note='evaluate(S) == -evaluate(S with the other side to move)')
        if q.verdict == 'sat':
            report(run, q, pcs, turn, 'negation', [('S', pcs, turn), ('swapped', pcs, 1 - turn)])
        for label, ex in (('S', ex1), ('mirror', ex2), ('swapped', ex3)):
            for ob, qq in run.check_obligations(ex, '%s-to-move/%s' % (tn, label), pre=axioms):
                report(run, qq, pcs, turn, 'panic', [(label, pcs if label != 'mirror' else mirror, turn if label == 'S' else 1 - turn)])
        # vacuity twin
        qv = run.decide('%s-to-move/vacuity' % tn, axioms + [zb(s1.guard), e1 != e1 + 1 - 1 + 0 * e3, e1 == 0], kind='smt')
        run.queries.pop()
        qv = run.decide('%s-to-move/twin' % tn, axioms + [zb(s1.guard), zb(s3.guard), e1 != e3], kind='smt', note='false twin: eval(S) == eval(swapped) must be refutable')
        run.queries.pop()
        run.vacuity.append({'harness': tn, 'twin_verdict': qv.verdict})
        if qv.verdict != 'sat':
            run.inconclusive.append('vacuity twin for %s came back %s' % (tn, qv.verdict))
        if not run.samples:
            run.samples.append({'eval_term': str(z3.simplify(e1))[:600]})


def report(run, q, pcs, turn, what, cases):
    """concretise piece sets with the model's counts (pc is uninterpreted: realise each count by that many low bits
    on disjoint squares) and replay natively"""
    m = q.model
    pcf = [d for d in m.decls() if d.name() == 'pc']
    vals = []
    used = 0
    for p in pcs:
        cnt = m.eval(z3.Function('pc', z3.BitVecSort(64), z3.IntSort())(p), model_completion=True).as_long()
        v = 0
        for _ in range(max(0, min(cnt, 64 - used))):
            v |= 1 << used
            used += 1
        vals.append(v)
    hv = [d for d in m.decls() if d.name() == 'ev_prev_hmc']
    hmc = m[hv[0]].as_long() if hv else 0
    def conc(sets, t):
        if sets is pcs:
            return vals, t
        return [int.from_bytes(vals[(i + 6) % 12].to_bytes(8, 'little'), 'big') for i in range(12)], t
    res = {}
    for nm, sets, t in cases:
        p, tt = conc(sets, t)
        res[nm] = (p, tt, native_eval(run, p, tt, hmc))
    outs = [r[2] for r in res.values()]
    ok = all(o[0] == 'OK' for o in outs)
    bad = False
    if what == 'mirror' and ok:
        bad = outs[0][1] != outs[1][1]
    elif what == 'negation' and ok:
        bad = int(outs[0][1][0]) != -int(outs[1][1][0])
    elif what == 'panic':
        bad = any(o[0] == 'PANIC' for o in outs)
    if bad or not ok:
        run.violation('evaluation symmetry (%s) fails: %s' % (what, {k: v[2] for k, v in res.items()}),
                      {'what': what, 'hmc': hmc, 'cases': {k: (v[0], v[1]) for k, v in res.items()}})
    else:
        run.inconclusive.append('C17 %s: model does not reproduce natively' % what)
