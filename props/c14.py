"""C14 — search progress reports are truthful and well-formed.

Uses the iteration step of C09 (real search / iter_deep / log_uci_info from MIR, alpha_beta_start by its contract) and a
separate step for get_pv:
  ORDER   the k-th info line carries depth k; an info line for depth k+1 implies one for depth k (no gaps, no repeats);
  DEPTH-N with only a depth limit N (no node / time limit), every depth 1..N is reported before the bestmove line;
  PV      the real get_pv on an abstract game with an arbitrary transposition table (any subset of nodes present, any
          stored move): every move of the returned line is a legal move of the node it is played from, the line starts at
          the searched position, the position is restored, no panic;
  SCORE   log_uci_info itself runs without panic for every score / pv length (cp vs mate thresholds as coded).
Byte-level syntax of the info line beyond its format template is outside.
"""
import itertools
import json
import re
import z3

from mirsym.executor import State, NOT_HANDLED
from mirsym.values import *
from mirsym.models import some, NONE
from . import absgame as A
from . import boardsym as B
from . import searchstep as SS
from . import c09
from .c11 import report

LEVEL = 'other'


def order_and_depth(run, cfg):
    res = c09.step_iter(run, cfg)
    if res is None or res.get('final') is None:
        return
    name = 'ITER/%s' % cfg
    # the bestmove obligations of C09 were re-decided by step_iter; keep only what C14 is about
    infos, env, ex = res['infos'], res['env'], res['env'].ex
    depths = [simp(i['depth']) for i in infos]
    okd = all(isinstance(d, CI) and d.v == k + 1 for k, d in enumerate(depths))
    q = run.decide('%s/info-depths-are-1-2-3' % name, [z3.BoolVal(not okd)], kind='smt', note='the k-th info line reports depth k')
    if not okd:
        run.violation('info lines report depths %s instead of 1, 2, 3, ...' % depths, {'depths': [str(d) for d in depths]})
    gaps = [z3.And(zb(infos[k + 1]['guard']), z3.Not(zb(infos[k]['guard']))) for k in range(len(infos) - 1)]
    if gaps:
        q = run.decide('%s/no-gaps' % name, ex.pre + [z3.Or(*gaps)], kind='smt', note='an info line for depth k+1 implies one for depth k')
        if q.verdict == 'sat':
            report(run, q, name, 'an iteration is reported although the previous one was not')
    # an iteration that was cut short is never reported
    iters = res['iters']
    cutrep = [z3.And(zb(infos[k]['guard']), zb(iters[k]['cut'])) for k in range(min(len(infos), len(iters)))]
    if cutrep:
        q = run.decide('%s/no-report-for-a-cut-iteration' % name, ex.pre + [z3.Or(*cutrep)], kind='smt',
                       note='an info line is printed only for an iteration that completed (stop, node budget, movetime or clock budget did not cut it)')
        if q.verdict == 'sat':
            import os
            if os.environ.get('VERIF_DEBUG'):
                print('DEBUG evals', [(k, str(q.model.eval(zb(infos[k]['guard']), model_completion=True)), str(q.model.eval(zb(iters[k]['cut']), model_completion=True)), str(iters[k]['depth'])) for k in range(min(len(infos), len(iters)))], len(infos), len(iters))
                print('DEBUG guard0', str(z3.simplify(zb(infos[0]['guard'])))[:1500])
                print('DEBUG model', {str(d): str(q.model[d]) for d in q.model.decls() if not str(d).startswith(('kl', 'g0_', 'g1_', 'g2_', 'v_child'))})
            c09.real_report_check(run, 'an iteration cut short by a limit is still reported in an info line')
    if cfg == 'max-depth-from-go':
        L = lambda n: z3.Bool('lim_%s_some' % n)
        no_other = z3.Not(z3.Or(L('nodes'), L('movetime'), L('wtime'), L('btime'), L('winc'), L('binc')))
        dl = z3.BitVec('lim_depth', 8)
        missing = [z3.And(z3.UGE(dl, k + 1), z3.Not(zb(infos[k]['guard']))) for k in range(len(infos))]
        if len(infos) < res['D']:
            run.violation('only %d info call sites executed for up to %d iterations' % (len(infos), res['D']), {})
        fin = z3.Or(*[zb(s.guard) for s in res['final']])
        q = run.decide('%s/every-depth-up-to-N' % name, ex.pre + [no_other, fin, z3.Or(*missing)], kind='smt',
                       note='with only a depth limit N every depth 1..N is reported before bestmove')
        if q.verdict == 'sat':
            k = c09.known_ids(run)
            if 'S5' in k:
                run.known_finding('S5 go depth N does not report depth N')
            else:
                report(run, q, name, 'with only a depth limit N, some depth <= N is never reported')
    # keep C09's bestmove queries out of C14's evidence? they are obligations about the same run: left in, labelled ITER/*


def pv_case(run, picks):
    name = 'PV/picks-%s' % ''.join(map(str, picks))
    A.INT_MODE[0] = True
    G = A.Game(2, 2, ext_plies=(), qplies=0)
    inner = [n for n in G.nodes if n['moves']]
    ex = run.executor()
    env = {'cache': True}
    A.install(ex, G, env)
    ex.int_types = {'i16'}
    for c in G.pre:
        ex.assume(c)
    # arbitrary table: each inner node may have an entry naming one of its moves (which may be illegal)
    d = {}
    pres = {}
    for n, pk in zip(inner, picks):
        pres[n['id']] = z3.Bool('tt_has_%d' % n['id'])
        entry = (z3.Int('tt_score_%d' % n['id']), z3.BitVec('tt_depth_%d' % n['id'], 8), Enum(z3.BitVec('tt_bound_%d' % n['id'], 64), {0: (), 1: (), 2: ()}),
                 G.ply_value(n['id'], pk))
        ex.assume(z3.ULT(bv(entry[2].d), 3))
        d[n['key']] = (pres[n['id']], entry)
    ex.static_values['board::transposition_table::TRANSPOSITION_TABLE'] = A.MapV(d)
    st = State()
    sp = ex.alloc(st, A.search_value(ex, st, G, None))
    length = z3.BitVec('pv_length', 8)
    ex.assume(z3.ULE(length, 4))
    ex.enable_pruning(timeout_ms=2000)
    callee = [n for n, it in run.prog.items.items() if it.kind == 'fn' and n.startswith('search::<impl') and n.endswith('::get_pv')][0]
    r = ex.call(callee, [sp, length], ['&mut search::Search', 'u8'], 'std::vec::Vec<board::ply::Ply>', st, 'harness')
    run.absorb(ex)
    if r is None:
        run.inconclusive.append('%s: get_pv diverges' % name)
        return
    pv, st2 = r
    S = ex.load(st2, sp.root, ())
    if S[2][1].resolve(ex, st2.guard) != 0:
        run.violation('%s: get_pv leaves the original board on node %s' % (name, S[2][1]), {})
    # expected line: follow picks while an entry is present and its move legal, at most `length` moves
    node = G.nodes[0]
    cond = z3.BoolVal(True)
    expected = []
    k = 0
    while node['moves'] and node['id'] in pres:
        pk = picks[inner.index(node)]
        cond = z3.And(cond, pres[node['id']], node['moves'][pk]['legal'], z3.UGT(length, k))
        expected.append((cond, node['id'], pk))
        node = G.nodes[node['children'][pk]]
        k += 1
    ents = [e for e in pv.ents if e[0] is not False]
    bad = []
    # the returned vector is a guarded sequence (paths of different length were joined): compare as sets of
    # (condition, move): every returned move is an expected chain move under its condition and vice versa, no duplicates
    for g, mv in ents:
        bad.append(z3.And(zb(g), z3.Not(z3.Or(*[z3.And(c, c09.ply_eq(mv, G.ply_value(nid, pk))) for c, nid, pk in expected]) if expected else z3.BoolVal(True))))
    for c, nid, pk in expected:
        bad.append(z3.And(c, z3.Not(z3.Or(*[z3.And(zb(g), c09.ply_eq(mv, G.ply_value(nid, pk))) for g, mv in ents]) if ents else z3.BoolVal(True))))
    for i in range(len(ents)):
        for j in range(i + 1, len(ents)):
            bad.append(z3.And(zb(ents[i][0]), zb(ents[j][0]), c09.ply_eq(ents[i][1], ents[j][1])))
    q = run.decide('%s/line-is-legal-chain' % name, ex.pre + [zb(st2.guard), z3.Or(*bad)] if bad else [z3.BoolVal(False)], kind='smt',
                   note='get_pv returns exactly the chain of stored moves from the root while present and legal, up to the requested length')
    if q.verdict == 'sat':
        report(run, q, name, 'principal variation is not the legal chain of stored moves')
    for ob, qq in run.check_obligations(ex, name):
        report(run, qq, name, 'panic reachable in get_pv: %s %s' % (ob.where.split('::')[-1], ob.msg[:80]))


def score_format(run):
    """log_uci_info with arbitrary score, pv length, time: no panic"""
    name = 'SCORE'
    env = SS.StepEnv(run, 2, 'root', ply_concrete=0)
    ex = env.ex
    st = State()
    sv = list(env.search_value(st))
    info = list(sv[4])
    sc = z3.Int('score')
    ex.assume(z3.And(sc >= SS.MIN16, sc <= SS.MAX16))
    has = z3.Bool('score_some')
    info[1] = Enum(z3.If(has, z3.BitVecVal(1, 64), z3.BitVecVal(0, 64)), {1: (sc,), 0: ()})
    sv[4] = tuple(info)
    sp = ex.alloc(st, tuple(sv))
    t_some = z3.Bool('time_some')
    t = z3.BitVec('time_ms', 128)
    ex.assume(z3.ULT(t, 1 << 64))
    tv = Enum(z3.If(t_some, z3.BitVecVal(1, 64), z3.BitVecVal(0, 64)), {1: (t,), 0: ()})
    templates = []
    records = []
    cur = [0]

    def new_arg(ctx, p):
        m_ = re.search(r'new_(\w+)::<(.*)>$', ctx.callee)
        return ('fmtarg', m_.group(1), m_.group(2), p)
    ex.model(r'^core::fmt::rt::Argument(::<.*>)?::new_\w+::<.*>$', new_arg)

    def fmt_args(ctx, *a):
        # which format template is used on which path, and with which argument values (the strings themselves stay opaque)
        from mirsym.models import as_str, StrV
        t = as_str(ctx, a[0]) if a else None
        if isinstance(t, StrV):
            templates.append((ctx.st.guard, t.s))
            vals = []
            if len(a) > 1:
                try:
                    for arg in ctx.deref(a[1]):
                        if isinstance(arg, tuple) and arg and arg[0] == 'fmtarg':
                            v = ctx.deref(arg[3])
                            if arg[2] in ('&str', 'str', 'std::string::String') or arg[2].startswith('&'):
                                try:
                                    v = as_str(ctx, v)
                                except Exception:
                                    pass
                            vals.append((arg[2], v))
                except Unsupported:
                    vals = None
            records.append((ctx.st.guard, t.s, vals, cur[0]))
        return Opaque('fmt::Arguments', None)
    ex.model(r'^std::fmt::Arguments(::<.*>)?::(new|from_str|from_str_nonconst|new_const|new_v1).*$', fmt_args)
    for npv in (0, 1, 2, 3, 4):
        cur[0] = npv
        pvp = ex.alloc(st, Seq.of([env.G.ply_value(0, 0)] * npv))
        callee = env.item('log_uci_info')
        r = ex.call(callee, [sp, z3.BitVec('depth', 8), tv, pvp], ['&search::Search', 'u8', 'std::option::Option<u128>', '&[board::ply::Ply]'], '()', st, 'harness')
    run.absorb(ex)
    for ob, qq in run.check_obligations(ex, name):
        report(run, qq, name, 'panic reachable in log_uci_info: %s %s' % (ob.where.split('::')[-1], ob.msg[:80]))
    run.decide('%s/reached' % name, [z3.BoolVal(len(env.env['events']) < 5)], kind='smt', note='log_uci_info produced a line for each of the five pv lengths')
    # cp vs mate: a mate score (MIN + ply or its negation, ply <= 255) is reported as `score mate`, a static-evaluation
    # score (|s| <= 30000) as `score cp`
    mate_t = b_or(*[g for g, t in templates if 'score mate' in t])
    cp_t = b_or(*[g for g, t in templates if 'score cp' in t])
    is_mate = z3.Or(sc <= SS.MIN16 + 255, sc >= SS.MAX16 - 254)
    is_eval = z3.And(sc >= -30000, sc <= 30000)
    if not [1 for _, t in templates if 'score' in t]:
        run.inconclusive.append('%s: no score template seen in log_uci_info' % name)
    else:
        q = run.decide('%s/mate-scores-as-mate-eval-scores-as-cp' % name, ex.pre + [has, z3.Or(z3.And(is_mate, z3.Not(zb(mate_t))), z3.And(is_eval, z3.Not(zb(cp_t))),
                                                                                              z3.And(is_eval, zb(mate_t)), z3.And(is_mate, zb(cp_t)))], kind='smt',
                       note='score <= MIN+255 or >= MAX-254 (mate in <= 255 plies) is printed as mate; |score| <= 30000 as cp')
        if q.verdict == 'sat':
            v = q.model.eval(sc, model_completion=True)
            report(run, q, name, 'score %s is reported with the wrong unit (cp / mate)' % v)
        # moves-to-mate: with a principal variation that runs to the mate (k plies), `mate N` must say N = ceil(k/2), negative
        # exactly when the side to move is the one being mated
        bad, seen = [], 0
        for g, tpl, vals, k in records:
            if 'score mate' not in tpl:
                continue
            if vals is None:
                run.inconclusive.append('%s: the arguments of the mate template could not be read' % name)
                continue
            seen += 1
            ints = [v for ty, v in vals if ty in ('usize', 'u8', 'u16', 'u32', 'u64', 'u128', 'i16', 'i32', 'i64', 'isize')]
            strs = [v for ty, v in vals if ty not in ('usize', 'u8', 'u16', 'u32', 'u64', 'u128', 'i16', 'i32', 'i64', 'isize')]
            if len(ints) != 1:
                run.inconclusive.append('%s: mate template with %d integer arguments' % (name, len(ints)))
                continue
            n = ints[0]
            nt = z3.BV2Int(bv(n)) if not (z3.is_expr(n) and z3.is_int(n)) else n
            if 'mate -' in tpl:
                sign = z3.BoolVal(True)
            elif strs:
                e = strs[0]
                emp = e.empty if hasattr(e, 'empty') else (len(e.s) == 0 if hasattr(e, 's') else None)
                if emp is None:
                    run.inconclusive.append('%s: sign argument of the mate template is %r' % (name, e))
                    continue
                sign = z3.Not(zb(emp))
            else:
                sign = z3.BoolVal(False)
            bad.append(z3.And(zb(g), z3.Or(nt != (k + 1) // 2, sign != (sc < 0))))
        if seen:
            q = run.decide('%s/moves-to-mate' % name, ex.pre + [has, is_mate, z3.Or(*bad) if bad else z3.BoolVal(False)], kind='smt',
                           note='pv of k plies to the mate (k = 0..4): the line says mate ceil(k/2), with a minus sign iff the score is negative')
            if q.verdict == 'sat':
                v = q.model.eval(sc, model_completion=True)
                report(run, q, name, 'a mate score (%s) is reported with the wrong number of moves to mate or the wrong sign' % v)


def worker(run, job):
    kind, arg = job
    if kind == 'ITER':
        order_and_depth(run, arg)
    elif kind == 'PV':
        pv_case(run, arg)
    elif kind == 'ROOT':
        # the iteration contract used by ITER (what alpha_beta_start records and hands back) is discharged here as well,
        # so that this check does not silently rely on C09
        c09.step_root(run, arg)
    elif kind == 'LIM':
        # justifies the iteration contract's "a cut needs a node/time limit" (depth limits never cut)
        def on_sat(facts):
            inst = ['position startpos moves e2e4 d7d5', 'go depth 3']
            out, err = c09.real_engine(run, inst, wait=4.0)
            depths = [l.split()[2] for l in out.split('\n') if l.startswith('info depth')]
            if depths != ['1', '2', '3']:
                if 'S5' in c09.known_ids(run):
                    run.known_finding('S5 go depth N does not report depth N (reported: %s)' % depths)
                else:
                    run.violation('after `%s` the engine reports depths %s instead of 1, 2, 3 (limits_exceeded fires for: %s)' % ('; '.join(inst), depths, facts),
                                  {'lines': inst, 'depths': depths})
            else:
                run.inconclusive.append('limits_exceeded counterexample not reproduced by the real engine: %s' % facts)
        c09.lemma_limits(run, on_sat)
    else:
        score_format(run)


def check(run, replay=None):
    if replay:
        c = json.load(open(replay))
        if 'lines' in c:
            run.build()
            out, err = c09.real_engine(run, c['lines'], wait=4.0)
            depths = [l.split()[2] for l in out.split('\n') if l.startswith('info depth')]
            print('replay %r: reported depths %s' % (c['lines'], depths))
            return 1 if depths != ['1', '2', '3'] else 0
        print('C14 counterexamples are assignments of abstract facts; see the replay file')
        return 1
    run.build()
    if not B.check_layout(run.prog):
        run.inconclusive.append('data layout differs')
        return
    lm = B.layout_mismatch(run.prog, B.SEARCH_LAYOUT)
    if lm:
        run.inconclusive.append('data layout differs from what the harness encodes: %s' % ', '.join(lm))
        return
    run.extra['explanation'] = __doc__
    jobs = [('LIM', 0), ('ROOT', 1), ('ROOT', 2), ('ITER', 'max-depth-from-go'), ('ITER', 'node-or-time-limits'), ('SCORE', 0)] + [('PV', p) for p in itertools.product((0, 1), repeat=3)]
    run.bounds.append('up to 3 iterations; every limit combination and cut point; PV: abstract game with branching 2 and 3 levels, every table content (8 stored-move cases x symbolic presence/legality), length <= 4')
    run.outside += ['byte-level syntax of the info line (format template only)', 'the real-time fields (time, nps) beyond absence of panics']
    run.stubs |= {'iteration contract for alpha_beta_start', 'abstract game', 'transposition table: arbitrary finite map', 'format!/Display opaque'}
    run.parallel(worker, jobs)
