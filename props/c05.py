"""C05 — different positions get different keys (every single-component perturbation changes the key).

Concrete Zobrist table (native dump of the real ZTable::init).  F(B) := `impl From<&Board> for ZKey` run from MIR.
 Lemma A (structure of F, decided by z3 per summand, for all B with pairwise disjoint piece sets and consistent unions):
     the XOR-summands of F(B) are exactly, per square i, the table word of the content of square i (0 if empty),
     per castling right its word iff available, the en-passant word of the file iff present, the side word iff White to move.
 Lemma B (properties of the table, decided by z3 over symbolic indices with the table as a mux tree):
     for every square the 12 piece words and 0 are pairwise different; the side word is non-zero; every non-empty
     combination of castling words is non-zero; en-passant words are non-zero and pairwise different; and for equal
     placement all 2 x 16 x 9 (side, rights, en-passant) states have pairwise different keys.
 From A and B, by XOR regrouping: two positions that differ in exactly one component have different keys.
Not claimed (and false for any 64-bit Zobrist scheme as a universal statement): all pairs of arbitrary positions.
"""
import json
import z3

from mirsym.executor import State, mux
from mirsym.values import *
from mirsym import solve
from . import boardsym as B
from . import boardstep as BS
from .c04 import xor_all, free_vars

LEVEL = 'proof'


def extract_indices(t):
    """set of bit indices i such that Extract(i,i,<piece set>) occurs in t"""
    out = set()
    seen = set()
    stack = [t]
    while stack:
        x = stack.pop()
        if x.get_id() in seen:
            continue
        seen.add(x.get_id())
        if z3.is_app_of(x, z3.Z3_OP_EXTRACT):
            hi, lo = x.params()
            if hi == lo and z3.is_const(x.arg(0)):
                out.add(hi)
        for k in range(x.num_args()):
            stack.append(x.arg(k))
    return out


def table_word(tb, c, k, sq):
    return tb['z_pieces'][c * 384 + k * 64 + sq]


def native_key(run, pcs_vals, turn, rights, ep):
    """from-scratch key of a bare position, natively"""
    white = 0
    for x in pcs_vals[:6]:
        white |= x
    black = 0
    for x in pcs_vals[6:]:
        black |= x
    ply = ['0', '0', '0', '0', '0', '0', '-1', '-1', '0', '0', '1' if ep >= 0 else '0', '0'] + [('0' if r else '1') for r in rights]
    toks = [str(turn), '1', str(ep), '1'] + ply + ['0'] + [str(x) for x in pcs_vals] + [str(white), str(black), str(white | black), '0']
    stt, out = BS.native_board_cmd(run, 'zkey_from', toks)
    return int(out[0]) if stt == 'OK' else None


def check(run, replay=None):
    if replay:
        run.build()
        c = json.load(open(replay))
        k1 = native_key(run, c['a']['pcs'], c['a']['turn'], c['a']['rights'], c['a']['ep'])
        k2 = native_key(run, c['b']['pcs'], c['b']['turn'], c['b']['rights'], c['b']['ep'])
        print('replay: keys of the two positions: %s %s' % (k1, k2))
        if 'expected_xor' in c:
            print('replay: xor of the keys %#x, table word %#x' % (k1 ^ k2, c['expected_xor']))
            return 1 if (k1 ^ k2) != c['expected_xor'] else 0
        if 'expected' in c:
            return 1 if k1 != c['expected'] else 0
        return 1 if k1 == k2 else 0
    run.build()
    if not B.check_layout(run.prog):
        run.inconclusive.append('data layout differs from what the harness encodes')
        return
    run.extra['explanation'] = __doc__
    tb = run.tables
    Z = lambda v: z3.BitVecVal(v, 64)
    zero = Z(0)
    run.bounds.append('all positions with pairwise disjoint piece sets (no other assumption); every single-component perturbation; the real seed-fixed table')
    run.outside.append('pairs of positions differing in several components (collisions exist for any 64-bit scheme); ChaCha8 is run natively, not symbolically')

    # ---------------- Lemma A
    for turn in (B.WHITE, B.BLACK):
        tn = 'white' if turn == B.WHITE else 'black'
        S = B.SymBoard('S', turn)
        ex = run.executor(zobrist='concrete')
        st = State()
        bp = ex.alloc(st, S.value())
        r = ex.call(BS.ZKEY_FROM, [bp], [BS.T_BOARD_REF], 'board::zkey::ZKey', st, 'harness')
        run.absorb(ex)
        F = bv(r[0][0])
        fv = free_vars(F)
        allowed = set(str(x) for x in S.pcs) | set(str(x) for x in S.prev.rights) | {str(S.ep_some), str(S.ep_file)}
        if fv - allowed:
            run.violation('from-scratch key reads components outside the position: %s' % sorted(fv - allowed), {'extra': sorted(fv - allowed)})
        T = [t for t in xor_summands(F) if not (z3.is_bv_value(t) and t.as_long() == 0)]
        per_sq, rest = {}, []
        for t in T:
            idx = extract_indices(t)
            if len(idx) == 1 and not (free_vars(t) - set(str(x) for x in S.pcs)):
                per_sq.setdefault(idx.pop(), []).append(t)
            else:
                rest.append(t)
        if set(per_sq) != set(range(64)) or any(len(v) != 1 for v in per_sq.values()):
            run.inconclusive.append('from-scratch key (%s to move) does not have one XOR-summand per square: %s' % (tn, sorted(per_sq)))
            continue
        run.decide('%s/flatten' % tn, [F != xor_all(T)], kind='bv', note='F == XOR of its extracted summands')
        inv1 = []
        acc = S.pcs[0]
        for x in S.pcs[1:]:
            inv1.append((acc & x) == 0)
            acc = acc | x
        for i in range(64):
            ref = zero
            for c in (0, 1):
                for k in range(6):
                    ref = ref ^ z3.If(z3.Extract(i, i, S.bbset(k, c)) == 1, Z(table_word(tb, c, k, i)), zero)
            q = run.decide('%s/square%d' % (tn, i), inv1 + [per_sq[i][0] != ref], kind='bv',
                           note='summand of square %d == table word of its content (12 cases, empty = 0)' % i)
            if q.verdict == 'sat':
                pv = [solve.model_int(q.model, x) for x in S.pcs]
                k_with = native_key(run, pv, turn, [False] * 4, -1)
                pv2 = [x & ~(1 << i) for x in pv]
                k_without = native_key(run, pv2, turn, [False] * 4, -1)
                content = [(kk, cc) for cc in (0, 1) for kk in range(6) if pv[B.bb_field(kk, cc)] >> i & 1]
                want = table_word(tb, content[0][1], content[0][0], i) if content else 0
                if k_with is not None and k_without is not None and (k_with ^ k_without) != want:
                    run.violation('key contribution of square %d (content %s) is %#x, table word is %#x' % (i, content, k_with ^ k_without, want),
                                  {'a': {'pcs': pv, 'turn': turn, 'rights': [False] * 4, 'ep': -1},
                                   'b': {'pcs': pv2, 'turn': turn, 'rights': [False] * 4, 'ep': -1}, 'square': i, 'expected_xor': want})
                else:
                    run.inconclusive.append('%s square %d: model does not reproduce natively' % (tn, i))
        # non-square summands
        ref_rest = zero
        for i in range(4):
            ref_rest = ref_rest ^ z3.If(S.prev.rights[i], Z(tb['z_castling'][i]), zero)
        ep_word = zero
        for f in range(8):
            ep_word = z3.If(S.ep_file == f, Z(tb['z_en_passant'][f]), ep_word)
        ref_rest = ref_rest ^ z3.If(S.ep_some, ep_word, zero)
        if turn == B.WHITE:
            ref_rest = ref_rest ^ Z(tb['z_white_turn'])
        q = run.decide('%s/rights-ep-turn' % tn, S.domain() + [xor_all(rest) != ref_rest], kind='bv',
                       note='remaining summands == castling words of available rights ^ en-passant word ^ side word')
        if q.verdict == 'sat':
            rights = [z3.is_true(q.model.eval(x, model_completion=True)) for x in S.prev.rights]
            eps = z3.is_true(q.model.eval(S.ep_some, model_completion=True))
            epf = solve.model_int(q.model, S.ep_file) if eps else -1
            k = native_key(run, [0] * 12, turn, rights, epf)
            want = 0
            for i in range(4):
                if rights[i]:
                    want ^= tb['z_castling'][i]
            if epf >= 0:
                want ^= tb['z_en_passant'][epf]
            if turn == B.WHITE:
                want ^= tb['z_white_turn']
            if k is not None and k != want:
                run.violation('key of the empty board with rights %s, ep %d, %s to move is %#x, table says %#x' % (rights, epf, tn, k, want),
                              {'a': {'pcs': [0] * 12, 'turn': turn, 'rights': rights, 'ep': epf},
                               'b': {'pcs': [0] * 12, 'turn': turn, 'rights': rights, 'ep': epf}, 'expected': want})
            else:
                run.inconclusive.append('%s rights/ep/turn: model does not reproduce natively' % tn)
        if not run.samples:
            run.samples.append({'summand_square_0': str(per_sq[0][0])[:500]})

    # ---------------- Lemma B: the table
    sq = z3.BitVec('sq', 64)
    c1, c2 = z3.BitVec('c1', 64), z3.BitVec('c2', 64)    # content codes 0..12: 0 empty, 1 + colour*6 + kind
    def word_of(code):
        rows = []
        for code_v in range(13):
            if code_v == 0:
                rows.append(tuple(CI(0, 64) for _ in range(64)))
            else:
                c, k = divmod(code_v - 1, 6)
                rows.append(tuple(CI(table_word(tb, c, k, s), 64) for s in range(64)))
        per_code = [bv(mux(sq, list(r))) for r in rows]
        w = per_code[0]
        for v in range(1, 13):
            w = z3.If(code == v, per_code[v], w)
        return w
    q = run.decide('table/square-words-distinct', [z3.ULT(sq, 64), z3.ULT(c1, 13), z3.ULT(c2, 13), c1 != c2, word_of(c1) == word_of(c2)],
                   kind='bv', note='for every square: the 12 piece words and 0 are pairwise different')
    if q.verdict == 'sat':
        s_, a, b_ = (solve.model_int(q.model, x) for x in (sq, c1, c2))
        def board_for(code):
            pcs = [0] * 12
            if code:
                c, k = divmod(code - 1, 6)
                pcs[B.bb_field(k, c)] = 1 << s_
            return pcs
        ka, kb = native_key(run, board_for(a), 1, [False] * 4, -1), native_key(run, board_for(b_), 1, [False] * 4, -1)
        if ka is not None and ka == kb:
            run.violation('two positions that differ only in the content of square %d (codes %d / %d) have the same key %#x' % (s_, a, b_, ka),
                          {'a': {'pcs': board_for(a), 'turn': 1, 'rights': [False] * 4, 'ep': -1},
                           'b': {'pcs': board_for(b_), 'turn': 1, 'rights': [False] * 4, 'ep': -1}})
        else:
            run.inconclusive.append('table distinctness model does not reproduce natively')
    # (side, rights, ep) states pairwise different for equal placement
    def state_vars(tag):
        return z3.Bool(tag + '_white'), [z3.Bool('%s_r%d' % (tag, i)) for i in range(4)], z3.Bool(tag + '_eps'), z3.BitVec(tag + '_epf', 8)

    def state_key(w, r, eps, epf):
        k = z3.If(w, Z(tb['z_white_turn']), zero)
        for i in range(4):
            k = k ^ z3.If(r[i], Z(tb['z_castling'][i]), zero)
        e = zero
        for f in range(8):
            e = z3.If(epf == f, Z(tb['z_en_passant'][f]), e)
        return k ^ z3.If(eps, e, zero)
    A_, B_ = state_vars('a'), state_vars('b')
    differ = z3.Or(A_[0] != B_[0], *[x != y for x, y in zip(A_[1], B_[1])], A_[2] != B_[2], z3.And(A_[2], A_[3] != B_[3]))
    q = run.decide('table/side-rights-ep-states-distinct',
                   [z3.ULT(A_[3], 8), z3.ULT(B_[3], 8), differ, state_key(*A_) == state_key(*B_)], kind='bv',
                   note='for equal placement, all 2 x 16 x 9 (side, rights, en-passant) states have pairwise different keys')
    if q.verdict == 'sat':
        def conc(V):
            w = z3.is_true(q.model.eval(V[0], model_completion=True))
            r = [z3.is_true(q.model.eval(x, model_completion=True)) for x in V[1]]
            eps = z3.is_true(q.model.eval(V[2], model_completion=True))
            return {'pcs': [0] * 12, 'turn': 0 if w else 1, 'rights': r, 'ep': solve.model_int(q.model, V[3]) if eps else -1}
        a, b_ = conc(A_), conc(B_)
        ka, kb = (native_key(run, x['pcs'], x['turn'], x['rights'], x['ep']) for x in (a, b_))
        if ka is not None and ka == kb:
            run.violation('two positions with equal placement but different side/rights/en-passant state have the same key %#x: %s vs %s' % (ka, a, b_),
                          {'a': a, 'b': b_})
        else:
            run.inconclusive.append('state distinctness model does not reproduce natively')
    # vacuity twin: with one word duplicated the distinctness query must be sat
    tb2 = dict(tb)
    zp = list(tb['z_pieces'])
    zp[5] = zp[64 + 5]
    saved = tb['z_pieces']
    tb['z_pieces'] = zp
    qv = run.decide('table/twin', [z3.ULT(sq, 64), z3.ULT(c1, 13), z3.ULT(c2, 13), c1 != c2, word_of(c1) == word_of(c2)], kind='bv')
    tb['z_pieces'] = saved
    run.queries.pop()
    run.vacuity.append({'harness': 'table distinctness', 'twin_verdict': qv.verdict})
    if qv.verdict != 'sat':
        run.inconclusive.append('vacuity twin (duplicated table word) came back %s' % qv.verdict)
