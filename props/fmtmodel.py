"""Byte-level model of the format machinery the compiler emits for format!/write! (rustc 1.97 nightly):

  core::fmt::rt::Argument::new_display::<T>(&T)           -> (T, pointer)
  std::fmt::Arguments::new::<N, M>(template, &[Argument; M])
        template bytes:  n (< 0x80) followed by n literal bytes | 0xC0 = next argument, default spec | 0x00 = end
        (any other byte - width / fill / precision / positional specs - is reported as unsupported, never guessed)
  std::fmt::format(args) -> String ;  Formatter::write_fmt(f, args) appends to the String under construction
  <T as Display>::fmt for crate types is executed from the crate's MIR; char appends its (ASCII) byte; unsigned
  integers append their decimal digits, up to 3 digits (u8), each digit a term.

A string is a SymStr: a guarded sequence of byte terms (the same sparse representation as Vec), so strings whose length
depends on the path (promotion suffix) merge.
"""
import re
import z3

from mirsym.executor import State
from mirsym.values import *
from mirsym.models import StrV, as_str, Seq
from mirsym import models


class SymStr:
    __slots__ = ('ents',)

    def __init__(self, ents):
        self.ents = tuple(ents)

    def ite_with(self, g, o):
        m = seq_ite(g, Seq(self.ents), Seq(o.ents))
        return SymStr(m.ents)

    def ite_mixed(self, g, other, self_is_then):
        if isinstance(other, StrV):
            o = SymStr(tuple((True, CI(ord(c), 8)) for c in other.s))
            return self.ite_with(g, o) if self_is_then else o.ite_with(g, self)
        raise Unsupported('ite of a byte string with %r' % (other,))

    def push_model(self, ctx, c):
        if isinstance(c, CI):
            if c.v >= 128:
                raise Unsupported('String::push of a non-ASCII char')
            b = CI(c.v, 8)
        else:
            ctx.ex.oblige('model-limit', b_and(ctx.st.guard, z3.UGE(bv(c), 128)), ctx.where, 'non-ASCII char pushed')
            b = z3.Extract(7, 0, bv(c))
        return SymStr(self.ents + ((True, b),))

    def append(self, guard, byte):
        return SymStr(self.ents + ((guard, byte),))

    def is_empty_model(self, ctx):
        return b_not(b_or(*[g for g, _ in self.ents]))

    def eq_model(self, ctx, other):
        from mirsym.models import as_str
        other = as_str(ctx, other)
        if isinstance(other, StrV):
            other = SymStr(tuple((True, CI(ord(c), 8)) for c in other.s))
        if not isinstance(other, SymStr):
            raise Unsupported('byte string compared with %r' % (other,))
        n = max(len(self.ents), len(other.ents))
        la, a = self.bytes_at(n)
        lb, b = other.bytes_at(n)
        return z3.And(la == lb, *[x == y for x, y in zip(a, b)])

    def as_bytes_model(self, ctx):
        if not all(g is True for g, _ in self.ents):
            raise Unsupported('as_bytes of a string of symbolic length')
        return ctx.ex.alloc(ctx.st, Seq.of([b for _, b in self.ents]))

    def bytes_model(self, ctx):
        from mirsym.models import IterV
        return IterV(self.ents)

    def chars_model(self, ctx):
        from mirsym.models import IterV
        return IterV(tuple((g, CI(b.v, 32) if isinstance(b, CI) else z3.ZeroExt(24, bv(b))) for g, b in self.ents))

    def bytes_at(self, maxlen):
        """(length term (Int), [byte term at position k for k < maxlen] (BV8; 0 beyond the end))"""
        cnt = z3.IntVal(0)
        at = [z3.BitVecVal(0, 8) for _ in range(maxlen)]
        for g, b in self.ents:
            g = zb(g)
            for k in range(maxlen):
                at[k] = z3.If(z3.And(g, cnt == k), bv(b), at[k])
            cnt = cnt + z3.If(g, 1, 0)
        return cnt, at


def install(ex):
    bufs = {'n': 0}

    def new_arg(ctx, p):
        t = re.search(r'new_(\w+)::<(.*)>$', ctx.callee)
        return ('fmtarg', t.group(1), t.group(2), p)
    ex.model(r'^core::fmt::rt::Argument(::<.*>)?::new_\w+::<.*>$', new_arg)

    def arguments_new(ctx, template, argsp):
        t = as_str(ctx, template)
        arr = ctx.deref(argsp)
        return ('fmtargs', t.s, tuple(arr))
    ex.model(r'^std::fmt::Arguments(::<.*>)?::new::<\d+, \d+>$', arguments_new)

    def arguments_str(ctx, s):
        t = as_str(ctx, s)
        return ('fmtstr', t.s)
    ex.model(r'^std::fmt::Arguments(::<.*>)?::(from_str|from_str_nonconst|new_const)(::<.*>)?$', arguments_str)

    def emit(ctx, bufp, args):
        if args[0] == 'fmtstr':
            for c in args[1]:
                put(ctx, bufp, CI(ord(c), 8))
            return
        _, tpl, argv = args
        i = 0
        nxt = 0
        while True:
            if i >= len(tpl):
                raise Unsupported('format template without terminator')
            b = ord(tpl[i])
            if b == 0:
                break
            if b == 0xC0:
                display(ctx, bufp, argv[nxt])
                nxt += 1
                i += 1
            elif b < 0x80:
                for c in tpl[i + 1:i + 1 + b]:
                    put(ctx, bufp, CI(ord(c), 8))
                i += 1 + b
            else:
                raise Unsupported('format spec byte 0x%02x (width/fill/precision) is not modelled' % b)

    def put(ctx, bufp, byte, guard=True):
        s = ctx.deref(bufp)
        ctx.write(bufp, s.append(guard, byte))

    def display(ctx, bufp, arg):
        _, how, ty, p = arg
        if how != 'display':
            raise Unsupported('format trait %s' % how)
        if ty == 'char':
            c = ctx.deref(p)
            if isinstance(c, CI):
                if c.v >= 128:
                    raise Unsupported('non-ASCII char')
                put(ctx, bufp, CI(c.v, 8))
            else:
                ctx.ex.oblige('model-limit', b_and(ctx.st.guard, z3.UGE(bv(c), 128)), ctx.where, 'non-ASCII char formatted')
                put(ctx, bufp, z3.Extract(7, 0, bv(c)))
            return
        if ty in ('u8', 'u16', 'u32', 'u64', 'usize', 'u128'):
            v = ctx.deref(p)
            if isinstance(v, CI):
                for ch in str(v.v):
                    put(ctx, bufp, CI(ord(ch), 8))
                return
            v = bv(v)
            w = v.size()
            nd = len(str((1 << w) - 1))
            for i in reversed(range(nd)):
                p10 = z3.BitVecVal(10 ** i, w)
                d = z3.Extract(7, 0, z3.URem(z3.UDiv(v, p10), 10)) + 48
                put(ctx, bufp, d, True if i == 0 else z3.UGE(v, p10))
            return
        if ty in ('&str', 'str', 'std::string::String'):
            s = as_str(ctx, ctx.deref(p) if ty == '&str' else p)
            if isinstance(s, StrV):
                for c in s.s:
                    put(ctx, bufp, CI(ord(c), 8))
                return
            if isinstance(s, SymStr):
                for g, b in s.ents:
                    put(ctx, bufp, b, g)
                return
            raise Unsupported('Display of %r' % (s,))
        # crate type: run its Display impl from the MIR
        callee = '<%s as std::fmt::Display>::fmt' % ty
        ctx.ex.call(callee, [p, ('formatter', bufp)], ['&' + ty, None],
                    'std::result::Result<(), std::fmt::Error>', ctx.st, ctx.where)

    def write_fmt(ctx, f, args):
        emit(ctx, f[1], args)
        return Enum(0, {0: (UNIT,)})
    ex.model(r'^std::fmt::Formatter::<\'_>::write_fmt$', write_fmt)
    ex.model(r'^std::fmt::Formatter(::<.*>)?::write_fmt$', write_fmt)

    def write_str(ctx, f, s):
        emit(ctx, f[1], ('fmtstr', as_str(ctx, s).s))
        return Enum(0, {0: (UNIT,)})
    ex.model(r'^std::fmt::Formatter(::<.*>)?::write_str$', write_str)

    def fmt_format(ctx, args):
        bufp = ctx.ex.alloc(ctx.st, SymStr(()))
        emit(ctx, bufp, args)
        return ctx.deref(bufp)
    ex.model(r'^std::fmt::format$', fmt_format)


# ------------------------------------------------------------------ C08 (d): Ply::to_notation

def notation_case(run):
    from . import boardsym as B
    name = 'NOTATION'
    ex = run.executor()
    install(ex)
    ex.enable_pruning(timeout_ms=2000)
    ex.prune_mode = 'all'
    ply = B.SymPly('n', piece=B.KNIGHT, color=0, free_flags=True)
    v = list(ply.value())
    kind = z3.BitVec('n_kind', 64)
    promo_some = z3.Bool('n_promotes')
    promo_kind = z3.BitVec('n_promo_kind', 64)
    v[4] = Enum(z3.If(promo_some, z3.BitVecVal(1, 64), z3.BitVecVal(0, 64)),
                {1: (Enum(promo_kind, {i: (B.color_v(z3.BitVec('n_promo_col', 64)),) for i in range(6)}),), 0: ()})
    ex.assume(z3.And(z3.UGE(promo_kind, 2), z3.ULE(promo_kind, 5)))          # Queen, Rook, Bishop, Knight (what generation produces; C01)
    sq = lambda s: (bv(s[0]), bv(s[1]))        # (rank, file)
    (sr, sf), (dr, df) = sq(v[0]), sq(v[1])
    for x in (sr, sf, dr, df):
        ex.assume(z3.ULT(x, 8))
    callee = [n for n, it in run.prog.items.items() if it.kind == 'fn' and n.endswith('::to_notation') and n.startswith('board::ply::')][0]
    st = State()
    r = ex.call(callee, [tuple(v)], ['board::ply::Ply'], 'std::string::String', st, 'harness')
    run.absorb(ex)
    res, st2 = r
    if not isinstance(res, SymStr):
        run.inconclusive.append('%s: to_notation did not produce a byte string: %r' % (name, res))
        return
    ln, at = res.bytes_at(6)
    B8 = lambda n: z3.BitVecVal(n, 8)
    suffix = z3.If(promo_kind == 2, B8(113), z3.If(promo_kind == 3, B8(114), z3.If(promo_kind == 4, B8(98), B8(110))))      # q r b n
    exp = [sf + 97, sr + 49, df + 97, dr + 49]
    bad = [ln != z3.If(promo_some, 5, 4)] + [at[k] != exp[k] for k in range(4)] + [z3.And(promo_some, at[4] != suffix)]
    q = run.decide('%s/coordinate-string' % name, ex.pre + [zb(st2.guard), z3.Or(*bad)], kind='smt',
                   note='to_notation(ply) == file letter, rank digit, file letter, rank digit [+ q|r|b|n], for all in-range squares and promotion pieces')
    if q.verdict == 'sat':
        m = q.model
        vals = {k: m.eval(t, model_completion=True) for k, t in (('sr', sr), ('sf', sf), ('dr', dr), ('df', df), ('promo', promo_some), ('kind', promo_kind))}
        run.violation('to_notation does not produce the coordinate string for %s' % vals, {'case': name, 'model': str(vals)})
    # injectivity of the coordinate encoding itself (so equal strings <=> same start, dest, promotion)
    a = [z3.BitVec('ia%d' % i, 8) for i in range(5)]
    b_ = [z3.BitVec('ib%d' % i, 8) for i in range(5)]
    enc = lambda x: [x[1] + 97, x[0] + 49, x[3] + 97, x[2] + 49, x[4]]
    rng = [z3.ULT(x, 8) for x in a[:4] + b_[:4]]
    q2 = run.decide('%s/injective' % name, rng + [z3.And(*[p == q_ for p, q_ in zip(enc(a), enc(b_))]), z3.Or(*[p != q_ for p, q_ in zip(a, b_)])], kind='smt',
                    note='the coordinate encoding is injective')
    for ob, qq in run.check_obligations(ex, name, kinds=('panic', 'unwind', 'unreachable', 'model-limit')):
        run.violation('to_notation can panic / leaves the modelled fragment: %s' % (ob,), {'case': name})
