"""C06 — attack tables are exact for every square and every occupancy.

Executed symbolically (from MIR): <Rook|Bishop as Magic>::get_attacks, Queen::get_attacks,
<Knight|King as Precomputed>::get_attacks, <Pawn as PrecomputedColor>::get_attacks, Kind::get_attacks
and everything they call (Square::u8, Bitboard operator impls, From/Into impls).
Symbolic: the whole 64-bit occupancy (sliders, one query per square); rank and file (leapers, pawns).
Oracle: ray walk with first blocker / delta tables with explicit range tests (props/chessref.py).
"""
import z3

from mirsym.harness import Run, bb
from mirsym.executor import State
from mirsym.values import *
from mirsym import native, solve
from . import chessref as R

SQ_T = 'board::square::Square'
BB_T = 'board::bitboard::Bitboard'
KIND_T = 'board::piece::Kind'

SLIDERS = {
    'rook': ('<board::piece::rook::Rook as board::piece::Magic>::get_attacks', R.ROOK_DIRS),
    'bishop': ('<board::piece::bishop::Bishop as board::piece::Magic>::get_attacks', R.BISHOP_DIRS),
}


def sq_val(sq):
    return (CI(sq >> 3, 8), CI(sq & 7, 8))


def ref_concrete(sq, occ, dirs):
    res = 0
    r0, f0 = divmod(sq, 8)
    for dr, df in dirs:
        r, f = r0 + dr, f0 + df
        while 0 <= r < 8 and 0 <= f < 8:
            s = r * 8 + f
            res |= 1 << s
            if occ >> s & 1:
                break
            r += dr
            f += df
    return res


def native_slider(run, which, sq, occ):
    rc, out, err = native.run_helper(run.helper, ['board', 'slider', which, str(sq), str(occ)])
    out = out.strip()
    if out.startswith('OK '):
        return int(out[3:])
    return out or ('rc=%d %s' % (rc, err[-200:]))


def sliders(run, occ, prefix=''):
    """rook and bishop lookup == ray walk, every square, every occupancy (also discharged inside C01 as its lemma L1)"""
    for which, (callee, dirs) in SLIDERS.items():
        for sq in range(64):
            ex = run.executor()
            st = State()
            r = ex.call(callee, [sq_val(sq), bb(occ)], [SQ_T, BB_T], BB_T, st, 'harness')
            run.absorb(ex)
            if r is None:
                run.inconclusive.append('%s sq %d: every path diverges' % (which, sq))
                continue
            val, st2 = r
            term = bv(val[0])
            ref = R.slider_ref(sq, occ, dirs)
            q = run.decide(prefix + '%s/sq%d/exact' % (which, sq), [zb(st2.guard), term != ref],
                           note='get_attacks(%s,sq=%d,occ) != ray-walk reference' % (which, sq))
            if len(run.samples) < 3:
                run.samples.append({'obligation': q.qid, 'formula': 'exists occ. lookup(occ) != raywalk(occ)', 'verdict': q.verdict,
                                    'seconds': round(q.seconds, 3)})
            if q.verdict == 'sat':
                o = solve.model_int(q.model, occ)
                nat = native_slider(run, which, sq, o)
                want = ref_concrete(sq, o, dirs)
                if nat != want:
                    run.violation('%s attacks from square %d with occupancy %#x: engine %s, rules %#x' % (which, sq, o, nat, want),
                                  {'piece': which, 'square': sq, 'occupancy': o, 'expected': want, 'native': nat})
                else:
                    run.inconclusive.append('model for %s sq %d does not reproduce natively (encoder bug?)' % (which, sq))
            for ob, qq in run.check_obligations(ex, prefix + '%s/sq%d' % (which, sq), pre=[]):
                o = solve.model_int(qq.model, occ)
                nat = native_slider(run, which, sq, o)
                if isinstance(nat, str) and nat.startswith('PANIC'):
                    run.violation('%s lookup panics for square %d occupancy %#x: %s' % (which, sq, o, nat),
                                  {'piece': which, 'square': sq, 'occupancy': o, 'expected': ref_concrete(sq, o, dirs), 'native': nat})
                else:
                    run.inconclusive.append('panic model for %s sq %d does not reproduce natively: %s' % (which, sq, ob))
        # vacuity witness: a deliberately false twin must be sat
        ex = run.executor()
        r = ex.call(callee, [sq_val(27), bb(occ)], [SQ_T, BB_T], BB_T, State(), 'harness')
        q = run.decide(prefix + '%s/vacuity-twin' % which, [bv(r[0][0]) != R.slider_ref(28, occ, dirs)], note='false twin (wrong square) must be sat')
        run.vacuity.append({'harness': which, 'twin_verdict': q.verdict})
        run.queries.pop()
        if q.verdict != 'sat':
            run.inconclusive.append('vacuity witness for %s came back %s' % (which, q.verdict))



def check(run, replay=None):
    if replay:
        import json
        run.build()
        c = json.load(open(replay))
        got = native_slider(run, c['piece'], c['square'], c['occupancy'])
        want = c['expected']
        print('replay %s sq=%d occ=%#x: native=%s reference=%s' % (c['piece'], c['square'], c['occupancy'], got, want))
        return 1 if got != want else 0
    run.build()
    run.bounds.append('sliders: every square 0..63 (one query each), occupancy = free 64-bit vector (all 2^64 values)')
    run.bounds.append('leapers/pawns: rank and file free 8-bit values constrained to 0..7; both pawn colours')
    run.outside.append('table *initialisers* are run natively, not symbolically; their result is what is checked')
    run.extra['explanation'] = ('For each square the real lookup code (mask, magic multiply, shift, table index) is executed '
                                'symbolically from MIR over a free 64-bit occupancy and compared by z3 with a ray-walk reference; '
                                'unsat = the lookup is exact for all 2^64 occupancies of that square. Index-out-of-bounds and '
                                'overflow panics are separate obligations.')
    occ = z3.BitVec('occ', 64)

    # ---- translator self-test: concrete execution through mirsym vs the native build
    import random
    rnd = random.Random(run.seed)
    for which, (callee, dirs) in SLIDERS.items():
        for _ in range(6):
            sq = rnd.randrange(64)
            o = rnd.getrandbits(64) & rnd.getrandbits(64)
            ex = run.executor()
            r = ex.call(callee, [sq_val(sq), bb(o)], [SQ_T, BB_T], BB_T, State(), 'selftest')
            run.selftest['cases'] += 1
            got = r[0][0]
            nat = native_slider(run, which, sq, o)
            if not (isinstance(got, CI) and got.v == nat):
                run.selftest['mismatches'] += 1
                run.selftest['what'].append('%s sq=%d occ=%#x mirsym=%r native=%r' % (which, sq, o, got, nat))
    if run.selftest['mismatches']:
        run.inconclusive.append('translator self-test mismatch: %s' % run.selftest['what'][:3])
        return

    sliders(run, occ)

    # ---- queen = rook | bishop, per square
    for sq in range(64):
        ex = run.executor()
        r = ex.call('board::piece::queen::Queen::get_attacks', [sq_val(sq), bb(occ)], [SQ_T, BB_T], BB_T, State(), 'harness')
        run.absorb(ex)
        val, st2 = r
        ref = R.slider_ref(sq, occ, R.ROOK_DIRS + R.BISHOP_DIRS)
        q = run.decide('queen/sq%d/exact' % sq, [zb(st2.guard), bv(val[0]) != ref])
        if q.verdict == 'sat':
            o = solve.model_int(q.model, occ)
            nat = native_slider(run, 'queen', sq, o)
            want = ref_concrete(sq, o, R.ROOK_DIRS + R.BISHOP_DIRS)
            if nat != want:
                run.violation('queen attacks from square %d with occupancy %#x: engine %s, rules %#x' % (sq, o, nat, want),
                              {'piece': 'queen', 'square': sq, 'occupancy': o, 'expected': want, 'native': nat})
            else:
                run.inconclusive.append('queen model sq %d does not reproduce natively' % sq)
        for ob, qq in run.check_obligations(ex, 'queen/sq%d' % sq, pre=[]):
            run.inconclusive.append('queen panic obligation sat at sq %d: %s' % (sq, ob))

    # ---- leapers and pawns through Kind::get_attacks (symbolic square; board only provides all_pieces)
    rank = z3.BitVec('rank', 8)
    file = z3.BitVec('file', 8)
    pre = [z3.ULT(rank, 8), z3.ULT(file, 8)]
    sqv = (rank, file)
    board = fake_board(run, occ)
    cases = [('knight', 5, 0, R.KNIGHT_DELTAS), ('king', 1, 0, R.KING_DELTAS),
             ('pawn-white', 0, 0, R.pawn_attack_deltas(True)), ('pawn-black', 0, 1, R.pawn_attack_deltas(False)),
             ('knight-black', 5, 1, R.KNIGHT_DELTAS), ('king-black', 1, 1, R.KING_DELTAS)]
    for name, kidx, cidx, deltas in cases:
        ex = run.executor()
        for p in pre:
            ex.assume(p)
        st = State()
        bp = ex.alloc(st, board)
        kind = Enum(kidx, {kidx: (Enum(cidx, {cidx: ()}),)})
        r = ex.call('board::piece::Kind::get_attacks', [kind, sqv, bp], [KIND_T, SQ_T, '&board::Board'], BB_T, st, 'harness')
        run.absorb(ex)
        val, st2 = r
        ref = R.leaper_ref_sym(rank, file, deltas)
        q = run.decide('%s/exact' % name, pre + [zb(st2.guard), bv(val[0]) != ref],
                       note='Kind::get_attacks(%s, (rank,file), board) != delta reference for symbolic square' % name)
        if q.verdict == 'sat':
            rk, fl = solve.model_int(q.model, rank), solve.model_int(q.model, file)
            rc, out, err = native.run_helper(run.helper, ['board', 'attacks', str(kidx), str(cidx), str(rk), str(fl), '0'])
            want = R.leaper_ref(rk * 8 + fl, deltas)
            if out.strip() != 'OK %d' % want:
                run.violation('%s attacks from rank %d file %d: engine %s, rules %#x' % (name, rk, fl, out.strip(), want),
                              {'piece': name, 'kind': kidx, 'color': cidx, 'rank': rk, 'file': fl, 'expected': want, 'native': out.strip()})
            else:
                run.inconclusive.append('%s model does not reproduce natively' % name)
        for ob, qq in run.check_obligations(ex, name, pre=pre):
            run.inconclusive.append('%s panic obligation sat: %s' % (name, ob))

    # ---- Kind::get_attacks dispatch for sliders: passes the square and board.all_pieces unchanged
    for name, kidx, target in [('rook', 3, 'rook'), ('bishop', 4, 'bishop'), ('queen', 2, 'queen')]:
        for cidx in (0, 1):
            ex = run.executor()
            for p in pre:
                ex.assume(p)
            uf = {w: z3.Function('UF_' + w, z3.BitVecSort(8), z3.BitVecSort(8), z3.BitVecSort(64), z3.BitVecSort(64)) for w in ('rook', 'bishop')}

            def mk(w):
                return lambda ctx, sq, blockers: (uf[w](bv(sq[0]), bv(sq[1]), bv(blockers[0])),)
            ex.override(SLIDERS['rook'][0], mk('rook'))
            ex.override(SLIDERS['bishop'][0], mk('bishop'))
            st = State()
            bp = ex.alloc(st, board)
            kind = Enum(kidx, {kidx: (Enum(cidx, {cidx: ()}),)})
            r = ex.call('board::piece::Kind::get_attacks', [kind, sqv, bp], [KIND_T, SQ_T, '&board::Board'], BB_T, st, 'harness')
            run.absorb(ex)
            val, st2 = r
            if target == 'queen':
                ref = uf['rook'](rank, file, occ) | uf['bishop'](rank, file, occ)
            else:
                ref = uf[target](rank, file, occ)
            run.decide('dispatch/%s/%d' % (name, cidx), pre + [zb(st2.guard), bv(val[0]) != ref], kind='smt',
                       note='Kind::get_attacks forwards (square, all_pieces) to the slider lookup (lookups uninterpreted)')
            q = run.queries[-1]
            if q['verdict'] == 'sat':
                run.violation('Kind::get_attacks(%s) does not forward square/all_pieces to the %s lookup' % (name, target),
                              {'piece': name, 'note': 'dispatch lemma'})
    run.stubs.add('dispatch lemma: Rook/Bishop lookups replaced by uninterpreted functions (their exactness is the per-square obligation)')


def fake_board(run, occ):
    """a Board value of which only bitboards.all_pieces is meaningful"""
    st = run.prog.structs
    nb = len(st['board::piece_bitboards::PieceBitboards'])
    bbs = [bb(z3.BitVec('bbx%d' % i, 64)) for i in range(nb)]
    bbs[st['board::piece_bitboards::PieceBitboards'].index('all_pieces')] = bb(occ)
    fields = [None] * len(st['board::Board'])
    fields[st['board::Board'].index('bitboards')] = tuple(bbs)
    return tuple(fields)
