"""Concrete differential self-test of the encoder (DESIGN.md §3.5): the same MIR executor, fed concrete
inputs taken from the repository's own test/bench FENs, must reproduce what the natively compiled crate does."""
import os
import random
import re
import z3

from mirsym.executor import State
from mirsym.values import *
from mirsym.harness import bb
from mirsym import native
from . import boardsym as B
from . import boardstep as BS

FEN_RX = re.compile(r'"([1-8pnbrqkPNBRQK/]{15,} [wb] [KQkq-]{1,4} [a-h1-8-]{1,2}(?: \d+ \d+)?)"')


def repo_fens():
    out = []
    for dp, _, fns in os.walk(os.path.join(native.REPO, 'src')):
        for fn in sorted(fns):
            if fn.endswith('.rs'):
                for m in FEN_RX.finditer(open(os.path.join(dp, fn)).read()):
                    if m.group(1) not in out:
                        out.append(m.group(1))
    return out


def kind_value(k, c):
    return B.kind_v(k, c)


def ply_value(p):
    cap = B.opt_kind_v(p['cap'] if p['cap'] >= 0 else None, p['cap_color'])
    pro = B.opt_kind_v(p['promo'] if p['promo'] >= 0 else None, p['promo_color'])
    return ((CI(p['sr'], 8), CI(p['sf'], 8)), (CI(p['dr'], 8), CI(p['df'], 8)), kind_value(p['kind'], p['color']), cap, pro,
            bool(p['castles']), bool(p['ep']), bool(p['double']), CI(p['hmc'], 16),
            tuple(B.status_v(r == 0) for r in p['rights']))


def board_value(d):
    arr = z3.K(z3.BitVecSort(64), z3.BoolVal(False))
    if B.PH_KIND[0] == 'set':
        for k in d['ph']:
            arr = z3.Store(arr, z3.BitVecVal(k, 64), z3.BoolVal(True))
        phv = SetV(arr)
    else:
        phv = KeyLog(arr, tuple(z3.BitVecVal(k, 64) for k in d['ph']))
    ep = B.opt_u8_v(d['ep'] >= 0, CI(max(d['ep'], 0), 8))
    return (B.color_v(d['turn']), CI(d['fullmove'], 16), ep, Seq.of([ply_value(p) for p in d['history']]), phv,
            tuple(bb(x) for x in d['bb']), (CI(d['zkey'], 64),))


def cint(x):
    x = simp(x)
    if isinstance(x, CI):
        return x.v
    if isinstance(x, bool):
        return int(x)
    raise ValueError('not concrete: %r' % (x,))


def kind_of_value(k):
    d = cint(k.d)
    return d, cint(k.pay[d][0].d)


def ply_dict(v):
    cap = (-1, None) if cint(v[3].d) == 0 else kind_of_value(v[3].pay[1][0])
    pro = (-1, None) if cint(v[4].d) == 0 else kind_of_value(v[4].pay[1][0])
    k, c = kind_of_value(v[2])
    return {'sr': cint(v[0][0]), 'sf': cint(v[0][1]), 'dr': cint(v[1][0]), 'df': cint(v[1][1]), 'kind': k, 'color': c,
            'cap': cap[0], 'cap_color': cap[1], 'promo': pro[0], 'promo_color': pro[1], 'castles': cint(v[5]), 'ep': cint(v[6]),
            'double': cint(v[7]), 'hmc': cint(v[8]), 'rights': [cint(v[9][i].d) for i in range(4)]}


def board_dict(v, ph_probe):
    ep = -1 if cint(v[2].d) == 0 else cint(v[2].pay[1][0])
    if isinstance(v[4], SetV):
        ph = sorted(k for k in set(ph_probe) if z3.is_true(z3.simplify(z3.Select(v[4].arr, z3.BitVecVal(k, 64)))))
    else:
        ph = [cint(lift(z3.simplify(e))) for e in v[4].ents]
    return {'turn': cint(v[0].d), 'fullmove': cint(v[1]), 'ep': ep, 'history': [ply_dict(x) for x in v[3].values()], 'ph': ph,
            'bb': [cint(x[0]) for x in v[5]], 'zkey': cint(v[6][0])}


def parse_plies(toks):
    n = int(toks[0])
    it = iter(toks[1:])
    out = []
    raw = []
    for _ in range(n):
        start = []
        for _ in range(6):
            start.append(next(it))
        cap = next(it)
        start.append(cap)
        if int(cap) >= 0:
            start.append(next(it))
        pro = next(it)
        start.append(pro)
        if int(pro) >= 0:
            start.append(next(it))
        for _ in range(8):
            start.append(next(it))
        raw.append(start)
    return raw


def ply_from_tokens(toks):
    it = iter(toks)
    nx = lambda: int(next(it))
    p = [nx() for _ in range(6)]
    cap = nx()
    capc = nx() if cap >= 0 else None
    pro = nx()
    proc = nx() if pro >= 0 else None
    rest = [nx() for _ in range(8)]
    return {'sr': p[0], 'sf': p[1], 'dr': p[2], 'df': p[3], 'kind': p[4], 'color': p[5], 'cap': cap, 'cap_color': capc,
            'promo': pro, 'promo_color': proc, 'castles': rest[0], 'ep': rest[1], 'double': rest[2], 'hmc': rest[3], 'rights': rest[4:8]}


def selftest_make_unmake(run, n_fens=6, n_moves=4):
    rnd = random.Random(run.seed + 17)
    fens = repo_fens()
    if not fens:
        run.inconclusive.append('self-test: no FEN strings found in the repository sources')
        return
    rnd.shuffle(fens)
    for fen in fens[:n_fens]:
        stt, btoks = BS.native_board_cmd(run, 'fen', [], fen.split())
        if stt != 'OK':
            continue
        stt, mv = BS.native_board_cmd(run, 'allmoves', btoks)
        if stt != 'OK':
            continue
        plies = parse_plies(mv)
        rnd.shuffle(plies)
        d0 = BS.parse_board_tokens(btoks)
        for ptoks in plies[:n_moves]:
            ex = run.executor(zobrist='concrete')
            st = State()
            bp = ex.alloc(st, board_value(d0))
            pv = ply_value(ply_from_tokens(ptoks))
            r = ex.call('board::Board::make_move', [bp, pv], [BS.T_BOARD_MUT, BS.T_PLY], '()', st, 'selftest')
            run.selftest['cases'] += 1
            stt, out = BS.native_board_cmd(run, 'make', btoks, ptoks)
            if r is None or stt != 'OK':
                if not (r is None and stt == 'PANIC'):
                    run.selftest['mismatches'] += 1
                    run.selftest['what'].append('make %s %s: mirsym %s native %s' % (fen, ptoks, 'diverges' if r is None else 'ok', stt))
                continue
            nat = BS.parse_board_tokens(out)
            got = board_dict(ex.load(r[1], bp.root, ()), nat['ph'] + d0['ph'] + [d0['zkey']])
            if got != nat:
                run.selftest['mismatches'] += 1
                diff = [k for k in nat if nat[k] != got[k]]
                run.selftest['what'].append('make %s %s differs in %s' % (fen, ' '.join(ptoks), diff))
                continue
            r2 = ex.call('board::Board::unmake_move', [bp], [BS.T_BOARD_MUT], '()', r[1], 'selftest')
            run.selftest['cases'] += 1
            got2 = board_dict(ex.load(r2[1], bp.root, ()), nat['ph'] + d0['ph'] + [d0['zkey']])
            stt, out2 = BS.native_board_cmd(run, 'makeunmake', btoks, ptoks)
            nat2 = BS.parse_board_tokens(out2)
            if got2 != nat2:
                run.selftest['mismatches'] += 1
                run.selftest['what'].append('make;unmake %s %s differs in %s' % (fen, ' '.join(ptoks), [k for k in nat2 if nat2[k] != got2[k]]))
            # from-scratch key
            r3 = ex.call(BS.ZKEY_FROM, [bp], [BS.T_BOARD_REF], 'board::zkey::ZKey', r2[1], 'selftest')
            stt, kf = BS.native_board_cmd(run, 'zkey_from', btoks)
            run.selftest['cases'] += 1
            if stt != 'OK' or cint(r3[0][0]) != int(kf[0]):
                run.selftest['mismatches'] += 1
                run.selftest['what'].append('ZKey::from %s: mirsym %s native %s' % (fen, r3[0][0], kf))
    if run.selftest['mismatches']:
        run.inconclusive.append('translator self-test mismatch: %s' % run.selftest['what'][:3])
