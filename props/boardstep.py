"""One symbolic board step: arbitrary position S |= Inv, move record mv |= Cons(S, mv) of a fixed *shape*
(enum discriminants concrete, every 64-bit / square / counter component symbolic), executed through the real
MIR of make_move / unmake_move / is_legal_move / ZKey::from.  Shared by C02, C03, C04."""
import z3

from mirsym.executor import State
from mirsym.values import *
from mirsym import native, solve
from . import boardsym as B

T_BOARD_MUT = '&mut board::Board'
T_BOARD_REF = '&board::Board'
T_PLY = 'board::ply::Ply'
ZKEY_FROM = '<board::zkey::ZKey as std::convert::From<&board::Board>>::from'


class Step:
    def __init__(self, run, shape, zobrist='uf', tag='S', prune=False):
        self.run = run
        self.shape = shape
        self.name = B.shape_name(shape)
        self.S = B.SymBoard(tag, shape['color'])
        self.m = B.shape_ply(shape)
        self.ex = run.executor(zobrist=zobrist)
        self.pre = self.S.inv() + B.cons(self.S, self.m)
        for c in self.pre:
            self.ex.assume(c)
        if prune:
            self.ex.enable_pruning()
        self.st = State()
        self.bp = self.ex.alloc(self.st, self.S.value())
        self.board0 = self.S.value()

    def board(self, st=None):
        return self.ex.load(st or self.st, self.bp.root, ())

    def call(self, callee, args, argtypes, dtype='()'):
        r = self.ex.call(callee, args, argtypes, dtype, self.st, 'harness')
        if r is None:
            raise Unsupported('%s diverges on every path for shape %s' % (callee, self.name))
        v, self.st = r
        return v

    def make(self):
        self.call('board::Board::make_move', [self.bp, self.m.value()], [T_BOARD_MUT, T_PLY])
        return self.board()

    def unmake(self):
        self.call('board::Board::unmake_move', [self.bp], [T_BOARD_MUT])
        return self.board()

    def is_legal(self):
        return self.call('board::Board::is_legal_move', [self.bp, self.m.value()], [T_BOARD_MUT, T_PLY],
                         'std::result::Result<board::ply::Ply, &str>')

    def zkey_from(self):
        v = self.call(ZKEY_FROM, [self.bp], [T_BOARD_REF], 'board::zkey::ZKey')
        return bv(v[0])

    def guard(self):
        return zb(self.st.guard)


# ------------------------------------------------------------------ model -> concrete native case

def mint(model, t):
    return solve.model_int(model, t)


def ply_tokens_from_model(model, p, kind=None, color=None, cap=None, cap_color=None, promo=None):
    """tokens of a SymPly under a model.  kind/color etc: concrete ints, or z3 terms to evaluate"""
    ev = lambda x: x if isinstance(x, (int, bool)) or x is None else mint(model, x)
    toks = [ev(p.sr), ev(p.sf), ev(p.dr), ev(p.df), ev(kind), ev(color)]
    if cap is None:
        toks += [-1]
    else:
        toks += [ev(cap), ev(cap_color)]
    if promo is None:
        toks += [-1]
    else:
        toks += [ev(promo), ev(color)]
    toks += [int(bool(ev(p.castles))), int(bool(ev(p.en_passant))), int(bool(ev(p.double))), ev(p.hmc)]
    toks += [0 if ev(r) else 1 for r in p.rights]
    return [str(int(t)) for t in toks]


def shape_ply_tokens(model, m):
    return ply_tokens_from_model(model, m, m.piece, m.color, m.captured, m.cap_color, m.promoted)


def prev_ply_tokens(model, S):
    p = S.prev
    cap = S.prev_cap_kind if mint(model, z3.If(S.prev_cap_some, z3.BitVecVal(1, 8), z3.BitVecVal(0, 8))) else None
    promo = S.prev_promo_kind if mint(model, z3.If(S.prev_promo_some, z3.BitVecVal(1, 8), z3.BitVecVal(0, 8))) else None
    ev = lambda x: mint(model, x)
    toks = [ev(p.sr), ev(p.sf), ev(p.dr), ev(p.df), ev(S.prev_piece_kind), ev(S.prev_piece_color)]
    toks += [-1] if cap is None else [ev(cap), ev(S.prev_cap_color)]
    toks += [-1] if promo is None else [ev(promo), ev(S.prev_promo_color)]
    b = lambda x: mint(model, z3.If(x, z3.BitVecVal(1, 8), z3.BitVecVal(0, 8))) if not isinstance(x, bool) else int(x)
    toks += [b(p.castles), b(p.en_passant), b(p.double), ev(p.hmc)]
    toks += [0 if b(r) else 1 for r in p.rights]
    return [str(int(t)) for t in toks]


def board_tokens_from_model(model, S, ph_keys=None):
    ev = lambda x: mint(model, x)
    ep_some = mint(model, z3.If(S.ep_some, z3.BitVecVal(1, 8), z3.BitVecVal(0, 8)))
    toks = [S.turn, ev(S.fullmove), ev(S.ep_file) if ep_some else -1, 1]
    toks = [str(int(t)) for t in toks] + prev_ply_tokens(model, S)
    keys = list(ph_keys or [])
    toks += [str(len(keys))] + [str(k) for k in keys]
    pcs = [ev(x) for x in S.pcs]
    white = 0
    for x in pcs[:6]:
        white |= x
    black = 0
    for x in pcs[6:]:
        black |= x
    toks += [str(x) for x in pcs] + [str(white), str(black), str(white | black)]
    toks.append(str(ev(S.zkey)))
    return toks


def parse_board_tokens(toks):
    """inverse of the helper's board_str: dict of fields"""
    it = iter(toks)
    nxt = lambda: int(next(it))
    d = {'turn': nxt(), 'fullmove': nxt(), 'ep': nxt()}
    nh = nxt()
    hist = []
    for _ in range(nh):
        p = [nxt() for _ in range(6)]
        cap = nxt()
        capc = nxt() if cap >= 0 else None
        pro = nxt()
        proc = nxt() if pro >= 0 else None
        rest = [nxt() for _ in range(8)]
        hist.append({'sr': p[0], 'sf': p[1], 'dr': p[2], 'df': p[3], 'kind': p[4], 'color': p[5], 'cap': cap, 'cap_color': capc,
                     'promo': pro, 'promo_color': proc, 'castles': rest[0], 'ep': rest[1], 'double': rest[2], 'hmc': rest[3],
                     'rights': rest[4:8]})
    d['history'] = hist
    np_ = nxt()
    d['ph'] = [nxt() for _ in range(np_)]
    d['bb'] = [nxt() for _ in range(15)]
    d['zkey'] = nxt()
    return d


def native_board_cmd(run, cmd, board_toks, extra=()):
    rc, out, err = native.run_helper(run.helper, ['board', cmd] + list(board_toks) + list(extra))
    out = out.strip()
    if out.startswith('OK'):
        return 'OK', out[2:].split()
    if out.startswith('PANIC'):
        return 'PANIC', out
    return 'ERR', 'rc=%d %s %s' % (rc, out[-200:], err[-300:])


# ------------------------------------------------------------------ Inv over an executor value (post-states)

def inv_of_value(b, turn, include=('I1', 'I2', 'I3', 'I4', 'I8')):
    """list of (name, z3 Bool) that Inv demands of Board value b with side to move `turn` (python int)"""
    P = B.board_parts(b)
    pcs = [P[n] for n in B.BB_FIELDS[:12]]
    out = []
    if 'I1' in include:
        acc = pcs[0]
        dis = []
        for x in pcs[1:]:
            dis.append((acc & x) == 0)
            acc = acc | x
        out.append(('I1.disjoint', z3.And(*dis)))
        w = pcs[0] | pcs[1] | pcs[2] | pcs[3] | pcs[4] | pcs[5]
        k = pcs[6] | pcs[7] | pcs[8] | pcs[9] | pcs[10] | pcs[11]
        out.append(('I1.unions', z3.And(P['white_pieces'] == w, P['black_pieces'] == k, P['all_pieces'] == (w | k))))
    if 'I2' in include:
        for nm, kk in (('white', pcs[1]), ('black', pcs[7])):
            out.append(('I2.one_%s_king' % nm, z3.And(kk != 0, (kk & (kk - 1)) == 0)))
    hist = P['history']
    top = hist.ents[-1][1]
    if 'I3' in include:
        ep_some = P['ep_some'] == 1
        dbl = zb(top[7])
        out.append(('I3.ep_iff_double', ep_some == dbl))
        if P['ep_file'] is not None:
            out.append(('I3.ep_file', z3.Implies(ep_some, P['ep_file'] == bv(top[1][1]))))
            all_ = P['all_pieces']
            opp_pawns = pcs[6] if turn == B.WHITE else pcs[0]
            conds = []
            for f in range(8):
                if turn == B.WHITE:
                    ps, e1, e2 = 32 + f, 40 + f, 48 + f
                else:
                    ps, e1, e2 = 24 + f, 16 + f, 8 + f
                conds.append(z3.Implies(z3.And(ep_some, P['ep_file'] == f),
                                        z3.And(z3.Extract(ps, ps, opp_pawns) == 1, z3.Extract(e1, e1, all_) == 0,
                                               z3.Extract(e2, e2, all_) == 0)))
            out.append(('I3.ep_pawn_placement', z3.And(*conds)))
            out.append(('I3.ep_file_range', z3.Implies(ep_some, z3.ULT(P['ep_file'], 8))))
    if 'I4' in include:
        r = [B.enum_d(top[9][i]) == 0 for i in range(4)]
        wk, wr, bk, br = pcs[1], pcs[3], pcs[7], pcs[9]
        out.append(('I4.rights_home', z3.And(
            z3.Implies(r[0], z3.And(z3.Extract(4, 4, wk) == 1, z3.Extract(7, 7, wr) == 1)),
            z3.Implies(r[1], z3.And(z3.Extract(4, 4, wk) == 1, z3.Extract(0, 0, wr) == 1)),
            z3.Implies(r[2], z3.And(z3.Extract(60, 60, bk) == 1, z3.Extract(63, 63, br) == 1)),
            z3.Implies(r[3], z3.And(z3.Extract(60, 60, bk) == 1, z3.Extract(56, 56, br) == 1)))))
    if 'I8' in include:
        edge = z3.BitVecVal(0xff000000000000ff, 64)
        out.append(('I8.no_edge_pawns', z3.And((pcs[0] & edge) == 0, (pcs[6] & edge) == 0)))
    return out
