"""One iteration of Uci::uci_loop on an abstract input line (C15 b, also used by C08).

Environment: read_line returns either end of input (Ok(0), empty line, persistently) or one line of n abstract tokens.
A second call of read_line ends the exploration of that path (`iterated` event).  Board-level callees of
load_position are summarised (from_fen / find_move / make_move / the start position are opaque), thread::spawn
returns an opaque handle without running the closure."""
import z3

from mirsym.executor import State, DIVERGE, NOT_HANDLED
from mirsym.values import *
from mirsym import models
from mirsym.models import StrV, some, NONE, ok, err, as_str
from . import uci_tokens as U


class LineV:
    """content of the line buffer after read_line: the tokens of the line while `present` holds, empty otherwise
    (so that a buffer cleared on some paths only can be merged)"""
    __slots__ = ('toks', 'present')

    def __init__(self, toks, present=True):
        self.toks, self.present = toks, present

    def ite_with(self, g, o):
        if self.toks is o.toks:
            return LineV(self.toks, ite(g, self.present, o.present) if self.present is not o.present else self.present)
        if not self.toks:
            return LineV(o.toks, b_and(b_not(g), o.present))
        if not o.toks:
            return LineV(self.toks, b_and(g, self.present))
        raise Unsupported('ite of different lines')

    def ite_mixed(self, g, other, self_is_then):
        if isinstance(other, StrV) and other.s == '':
            return LineV(self.toks, b_and(g if self_is_then else b_not(g), self.present))
        raise Unsupported('ite of a line buffer with %r' % (other,))


class Env:
    def __init__(self, ex, tokens, eof):
        self.ex, self.tokens, self.eof = ex, tokens, eof
        self.reads = 0
        self.events = []      # (kind, guard, payload)
        self.board_ctr = 0

    def fresh_board(self, tag):
        self.board_ctr += 1
        return Opaque('Board', '%s#%d' % (tag, self.board_ctr))


def install(ex, env):
    U.install(ex)

    def read_line(ctx, reader, bufp):
        env.reads += 1
        # read_line APPENDS to the buffer: whatever is still in it when the next line is read is parsed again with that line
        try:
            cur = ctx.deref(bufp)
        except Exception:
            cur = None
        stale = cur.present if (isinstance(cur, LineV) and len(cur.toks) > 0) else False
        if env.reads > 1:
            env.events.append(('iterated', ctx.st.guard, None))
            if stale is not False:
                env.events.append(('stale_buffer', b_and(ctx.st.guard, stale), None))
            return DIVERGE
        if cur is not None and not (isinstance(cur, StrV) and cur.s == '') and not (isinstance(cur, LineV) and not cur.toks):
            raise Unsupported('read_line into a buffer that is not known to be empty: %r' % (cur,))
        if env.eof:
            ctx.write(bufp, LineV([]))
            return ok(CI(0, 64))
        ctx.write(bufp, LineV(env.tokens))
        nbytes = z3.BitVec('line_bytes', 64)
        ctx.ex.assume(nbytes != 0)      # read_line contract: 0 bytes <=> end of input
        return ok(nbytes)
    ex.model(r'^<impl BufRead as std::io::BufRead>::read_line$', read_line)

    def string_clear(ctx, p):
        ctx.write(p, StrV(''))
        return UNIT
    ex.model(r'^std::string::String::clear$', string_clear)

    def string_deref(ctx, p):
        v = ctx.deref(p) if isinstance(p, (Ptr, PtrIte)) else p
        return v
    ex.model(r'^<std::string::String as std::ops::Deref>::deref$', string_deref)
    ex.model(r'^std::string::String::as_str$', string_deref)
    ex.model(r'^core::str::<impl str>::trim$', lambda ctx, s: s)
    ex.model(r'^core::str::<impl str>::split_(ascii_)?whitespace$', lambda ctx, s: s)

    def collect_words(ctx, line):
        if isinstance(line, LineV):
            return Seq.of(line.toks)
        return NOT_HANDLED
    ex.model(r'^<std::str::Split(Ascii)?Whitespace as std::iter::Iterator>::collect::<std::vec::Vec<&str>>$', collect_words)

    def log(kind):
        def f(ctx, selfp, msg):
            env.events.append((kind, ctx.st.guard, as_str(ctx, msg) if not isinstance(msg, (U.AbsStr,)) else msg))
            return UNIT
        return f
    ex.model(r'^<uci::Uci as logger::Logger>::log::<.*>$', log('log'))
    ex.model(r'^<uci::Uci as logger::Logger>::elog::<.*>$', log('elog'))

    def unwrap_or_else(ctx, r, clos):
        c = models.res_is_ok(r)
        if c is True:
            return r.pay[0][0]
        v = models.call_under(ctx, b_not(c), clos, [r.pay[1][0]])
        return ite(c, r.pay.get(0, (UNIT,))[0], v) if c is not False else v
    ex.model(r'^std::result::Result::<.*>::unwrap_or_else::<.*>$', unwrap_or_else)

    # ---- board-level summaries
    ex.model(r'^board::boardbuilder::BoardBuilder::(construct_starting_board|default)$', lambda ctx: Opaque('BoardBuilder', 'start'))
    ex.model(r'^board::Board::builder$', lambda ctx: Opaque('BoardBuilder', 'start'))

    def build(ctx, bp):
        return Opaque('Board', 'startpos')
    ex.model(r'^board::boardbuilder::BoardBuilder::build$', build)

    def from_fen(ctx, fen):
        env.events.append(('from_fen', ctx.st.guard, fen))
        return env.fresh_board('fen')
    ex.model(r'^board::(serialize::<impl board::Board>|Board)::from_fen$', from_fen)

    def find_move(ctx, bp, notation):
        i = len([e for e in env.events if e[0] == 'find_move'])
        accept = z3.Bool('find_move_ok_%d' % i)
        env.events.append(('find_move', ctx.st.guard, (as_str(ctx, notation), accept)))
        d = z3.If(accept, z3.BitVecVal(0, 64), z3.BitVecVal(1, 64))
        return Enum(d, {0: (Opaque('Ply', 'move%d' % i),), 1: (StrV('Move not found'),)})
    ex.model(r'^board::Board::find_move$', find_move)

    def make_move(ctx, bp, mv):
        b = ctx.deref(bp)
        env.events.append(('make_move', ctx.st.guard, mv))
        ctx.write(bp, Opaque('Board', (b.data, mv.data if isinstance(mv, Opaque) else '?')))
        return UNIT
    ex.model(r'^board::Board::make_move$', make_move)
    ex.model(r'^<board::Board as std::clone::Clone>::clone$', lambda ctx, p: ctx.deref(p))

    # ---- search / threads
    def search_new(ctx, bp, limits):
        return Opaque('Search', None)
    ex.model(r'^search::Search::new$', search_new)
    ex.model(r'^<std::sync::Arc<.*> as std::clone::Clone>::clone$', lambda ctx, p: Opaque('Arc<AtomicBool>'))

    def spawn(ctx, clos):
        env.events.append(('spawn', ctx.st.guard, None))
        return Opaque('JoinHandle')
    ex.model(r'^std::thread::spawn::<.*>$', spawn)

    def is_finished(ctx, p):
        return z3.Bool('previous_search_finished')
    ex.model(r'^std::thread::JoinHandle::<.*>::is_finished$', is_finished)
    def atomic_store(ctx, p, v, o):
        env.events.append(('flag_store', ctx.st.guard, v))
        return UNIT
    ex.model(r'^std::sync::atomic::Atomic::<bool>::store$', atomic_store)

    def join(ctx, h):
        # JoinHandle::join blocks until the search thread ends; a search that was not told to stop may never end
        # (go infinite / no limits): the event is judged by the check
        told = b_or(*[b_and(e[1], b_not(e[2]) if not isinstance(e[2], bool) else (not e[2])) for e in env.events if e[0] == 'flag_store'])
        env.events.append(('join', ctx.st.guard, told))
        return ok(UNIT)
    ex.model(r'^std::thread::JoinHandle::<.*>::join$', join)
    ex.model(r'^<std::sync::Arc<.*> as std::ops::Deref>::deref$', lambda ctx, p: p)

    def vec_string_next(ctx, p):
        return models._iter_next(ctx, p)
    ex.model(r'^<std::vec::IntoIter<std::string::String> as std::iter::Iterator>::next$', vec_string_next)


UCI_LOOP = 'uci::Uci::uci_loop'


def uci_value(search_state='none', run=None, ex=None, st=None):
    """a Uci session value.  With run/ex/st given it is built by the real Uci::new() (so that added fields get their real
    initial values) and the named fields are then set; otherwise the positional layout { board, search_running, join_handle }
    is used, which is only right while the struct has exactly these fields (guarded by layout_mismatch in the callers)."""
    if run is not None:
        fields = run.prog.structs.get('uci::Uci')
        new = [n for n, it in run.prog.items.items() if it.kind == 'fn' and n.startswith('uci::<impl') and n.endswith('::new')]
        if fields and new and all(f in fields for f in ('board', 'search_running', 'join_handle')):
            r = ex.call(new[0], [], [], 'uci::Uci', st, 'harness')
            v = list(r[0])
            v[fields.index('board')] = Opaque('Board', 'session')
            if search_state != 'none':
                v[fields.index('search_running')] = some(Opaque('Arc<AtomicBool>'))
                v[fields.index('join_handle')] = some(Opaque('JoinHandle'))
            return tuple(v)
        raise Unsupported('struct uci::Uci has no board / search_running / join_handle fields any more')
    if search_state == 'none':
        return (Opaque('Board', 'session'), NONE, NONE)
    return (Opaque('Board', 'session'), some(Opaque('Arc<AtomicBool>')), some(Opaque('JoinHandle')))


def run_iteration(run, tokens, eof, search_state='none'):
    ex = run.executor()
    env = Env(ex, tokens, eof)
    install(ex, env)
    st = State()
    up = ex.alloc(st, uci_value(search_state, run, ex, st))
    rp = ex.alloc(st, Opaque('BufRead'))
    r = ex.call(UCI_LOOP, [up, rp], ['&mut uci::Uci', '&mut impl BufRead'], '()', st, 'harness')
    run.absorb(ex)
    return ex, env, r, up


def check_loop(run, eof_hangs, known):
    from .c15 import concretise, classify_site
    from mirsym import native, solve
    # ---- end of input (from a state without and with a search in flight)
    for ss in ('none', 'running'):
        ex, env, r, up = run_iteration(run, [], True, ss)
        it = [e for e in env.events if e[0] == 'iterated']
        g = b_or(*[e[1] for e in it]) if it else False
        q = run.decide('loop/eof-terminates/%s' % ss, [g], kind='smt', note='at end of input the command loop must not start another iteration')
        if q.verdict == 'sat':
            if eof_hangs(run):
                if 'S4' in known:
                    run.known_finding('S4 the command loop spins forever when standard input is closed (read_line returns 0 bytes, loop continues)')
                else:
                    run.violation('with standard input closed the engine does not terminate (busy loop printing parse errors)', {'cmd': 'eof'})
            else:
                run.inconclusive.append('EOF hang model does not reproduce on the real binary')
        # waiting for the search thread without having told it to stop: the main thread is wedged for as long as the search runs
        waits = [e for e in env.events if e[0] == 'join']
        gw = b_or(*[b_and(e[1], b_not(e[2])) for e in waits]) if waits else False
        q = run.decide('loop/eof-does-not-wait-for-an-unstopped-search/%s' % ss, ex.pre + [zb(gw)], kind='smt',
                       note='at end of input the loop does not block on a search that was not told to stop')
        if q.verdict == 'sat':
            if eof_hangs(run, ['position startpos', 'go infinite']):
                run.violation('with a search in flight (`go infinite`) and standard input closed the engine does not terminate: the command loop '
                              'waits for the search thread without stopping it', {'cmd': 'eof', 'lines': ['position startpos', 'go infinite']})
            else:
                run.inconclusive.append('EOF-join hang model does not reproduce on the real binary')
        for ob, qq in run.check_obligations(ex, 'loop/eof/%s' % ss, pre=[]):
            run.inconclusive.append('panic obligation at EOF: %s' % ob)
    # ---- one line of n tokens
    N = 9 if run.tier == 'quick' else 12
    for ss in ('none', 'running'):
        for n in range(0, N + 1):
            toks = [U.TokV.fresh('l%d' % i) for i in range(n)]
            ex, env, r, up = run_iteration(run, toks, False, ss)
            groups = {}
            for ob in ex.obligations:
                groups.setdefault((ob.kind, ob.where, ob.msg), []).append(ob)
            for (kind, where, msg), obs in sorted(groups.items()):
                gg = b_or(*[o.guard for o in obs])
                q = run.decide('loop/%s/len%d/%s@%s' % (ss, n, kind, where.split('::')[-1]), ex.pre + [gg], kind='smt', note='%s: %s' % (where, msg[:80]))
                if q.verdict != 'sat':
                    continue
                words = concretise(q.model, toks)
                fid, role = classify_site(where, msg)
                rc, out, err = native.run_helper(run.helper, ['uci', 'parse'] + words)
                if fid and fid in known and out.startswith('PANIC'):
                    run.known_finding('%s %s (e.g. `%s`)' % (fid, role, ' '.join(words)))
                    continue
                rc2, out2, err2 = native.run_helper(run.helper, ['uci', 'exec'] + words)
                if out.startswith('PANIC') or out2.startswith('PANIC'):
                    run.violation('input line `%s` panics the engine: %s' % (' '.join(words), (out if out.startswith('PANIC') else out2).strip()[:200]),
                                  {'cmd': 'parse', 'tokens': words, 'site': where, 'role': role})
                else:
                    run.inconclusive.append('loop panic model at %s does not reproduce natively: %r' % (where, words))
            if n >= 1:
                t0 = toks[0]
                is_ready = bv(t0.kind) == U.VOCAB.id('isready')
                is_quit = bv(t0.kind) == U.VOCAB.id('quit')
                ready_logged = b_or(*[e[1] for e in env.events if e[0] == 'log' and isinstance(e[2], StrV) and e[2].s == 'readyok'])
                q = run.decide('loop/%s/len%d/isready-answered' % (ss, n), ex.pre + [is_ready, z3.Not(zb(ready_logged))], kind='smt',
                               note='a line starting with isready produces readyok')
                if q.verdict == 'sat':
                    run.violation('isready is not answered with readyok for line %r' % concretise(q.model, toks), {'cmd': 'parse', 'tokens': concretise(q.model, toks)})
                stale = b_or(*[e[1] for e in env.events if e[0] == 'stale_buffer'])
                if stale is not False:
                    q = run.decide('loop/%s/len%d/line-buffer-empty-at-next-read' % (ss, n), ex.pre + [zb(stale)], kind='smt',
                                   note='the line buffer is empty again when the next line is read (read_line appends)')
                    if q.verdict == 'sat':
                        words = concretise(q.model, toks)
                        lines = [' '.join(words), 'isready']
                        import subprocess
                        try:
                            p_ = subprocess.run([run.helper], input=''.join(l + '\n' for l in lines).encode(), capture_output=True, timeout=10)
                            out_ = p_.stdout.decode(errors='replace')
                        except subprocess.TimeoutExpired:
                            out_ = ''
                        if 'readyok' not in out_:
                            run.violation('after the line `%s` the engine no longer answers isready: the rejected text stays in the line buffer and is parsed again with every later line' % lines[0],
                                          {'cmd': 'lines', 'lines': lines})
                        else:
                            run.inconclusive.append('stale line buffer model not reproduced on the real binary: %r' % lines)
                iterated = b_or(*[e[1] for e in env.events if e[0] == 'iterated'])
                returned = r[1].guard if r is not None else False
                q = run.decide('loop/%s/len%d/quit-leaves' % (ss, n), ex.pre + [is_quit, z3.Or(zb(iterated), z3.Not(zb(returned)))], kind='smt',
                               note='a line starting with quit leaves the loop')
                if q.verdict == 'sat':
                    run.violation('quit does not end the command loop for line %r' % concretise(q.model, toks), {'cmd': 'parse', 'tokens': concretise(q.model, toks)})
                q = run.decide('loop/%s/len%d/others-continue' % (ss, n), ex.pre + [z3.Not(is_quit), zb(returned)], kind='smt',
                               note='no other line ends the loop')
                if q.verdict == 'sat':
                    run.violation('line %r ends the command loop' % concretise(q.model, toks), {'cmd': 'parse', 'tokens': concretise(q.model, toks)})
