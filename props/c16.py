"""C16 — a fixed-depth search from a fresh cache is deterministic.

(a) CLOCK: the clock is the only environment input of a search.  It is read only in limits_exceeded, iter_deep (to report
    the elapsed time) and bench (SCAN).  The real limits_exceeded is executed from MIR on an arbitrary search state with
    arbitrary depth / node limits and no time-based limit (the configuration bench and a fixed-depth search use): its
    result and side effects do not depend on the clock (two-run z3 query / clock-free terms); log_uci_info takes &self.
    A whole-search two-run query on small abstract games with the cache active was tried and gave no verdict in 60 s.
(b) BENCH: bench::bench is executed from MIR with from_fen / search summarised: every position gets a fresh Search built by
    Search::new(&board, None) (fresh killers, counters, no limits), searched with Some(MAXDEPTH), and the cache is cleared
    after every position, so no state leaks from one position to the next.
(c) SCAN (syntactic, not a solver verdict): the MIR call graph reachable from Search::search, bench::bench and the Board
    methods they use contains no other source of nondeterminism (iteration over hash containers, RandomState, rand,
    threads, environment, system time, pointer formatting).
Separate processes and machine load are outside; the argument is that nothing but the inputs can influence a
single-threaded, clock-independent computation with a fixed Zobrist seed.
"""
import json
import re
import z3

from mirsym.executor import State
from mirsym.values import *
from mirsym.models import some, NONE
from mirsym import mirparse
from . import absgame as A
from . import boardsym as B
from . import searchfull as SF
from .c04 import free_vars

LEVEL = 'other'


def terms_of(v, out):
    if isinstance(v, (z3.ExprRef,)):
        out.append(v)
    elif isinstance(v, tuple):
        for x in v:
            terms_of(x, out)
    elif isinstance(v, Enum):
        terms_of(v.d, out)
        for p in v.pay.values():
            terms_of(p, out)
    elif isinstance(v, A.MapV):
        for g, e in v.d.values():
            terms_of(g, out)
            terms_of(e, out)
    elif isinstance(v, Seq):
        for g, e in v.ents:
            terms_of(g, out)
            terms_of(e, out)


def clock_lemma(run):
    """(a) with no time-based limit set, limits_exceeded does not depend on the clock; log_uci_info cannot change the search"""
    from . import searchstep as SS
    from .c13 import sym_limits
    name = 'CLOCK'
    lim = list(sym_limits())
    from mirsym.models import NONE
    for i in (2, 3, 4, 5, 6):          # movetime, wtime, btime, winc, binc absent (fixed-depth search / bench configuration)
        lim[i] = NONE
    env = SS.StepEnv(run, 1, 'root', ply_concrete=None, limits=tuple(lim))
    ex = env.ex
    st = State()
    sp = ex.alloc(st, env.search_value(st))
    r = ex.call(env.item('limits_exceeded'), [sp, ('instant',)], ['&search::Search', 'std::time::Instant'], 'bool', st, 'harness')
    run.absorb(ex)
    res, st2 = r
    S2 = ex.load(st2, sp.root, ())
    terms = []
    terms_of((res if not isinstance(res, bool) else z3.BoolVal(res), S2[0], S2[3], S2[4][2]), terms)
    cell = ex.load(st2, S2[0].root, S2[0].path)
    terms_of(cell[1] if not isinstance(cell[1], bool) else z3.BoolVal(cell[1]), terms)
    used = set()
    for t in terms:
        used |= free_vars(z3.simplify(t))
    leak = sorted(v for v in used if v.startswith('elapsed_ms'))
    if leak:
        ren = [(z3.BitVec(v, 64), z3.BitVec(v + '_run2', 64)) for v in leak]
        diff = [t != z3.substitute(t, *ren) for t in terms]
        pre2 = [z3.substitute(p, *ren) for p in ex.pre]
        q = run.decide('%s/limits_exceeded-two-runs-agree' % name, ex.pre + pre2 + [z3.Or(*diff)], kind='smt',
                       note='without movetime / clock limits, two evaluations of limits_exceeded that differ only in the clock agree in result and side effects')
        if q.verdict == 'sat':
            run.violation('limits_exceeded depends on the clock although no time-based limit is set', {'leak': leak})
    else:
        run.decide('%s/limits_exceeded-clock-free' % name, [z3.BoolVal(False)], kind='smt',
                   note='without movetime / clock limits the result and side effects of limits_exceeded contain no clock value (syntactic after simplification)')
    # log_uci_info takes &self (cannot modify the search) and returns ()
    it = run.prog.items[env.item('log_uci_info')]
    t0 = it.locals[it.args[0]]
    ok = t0.strip().startswith('&search::Search') and not t0.strip().startswith('&mut')
    run.decide('%s/log_uci_info-is-read-only' % name, [z3.BoolVal(not ok)], kind='smt', note='log_uci_info(&self, ..) -> (): signature check on the MIR')
    if not ok:
        run.violation('log_uci_info can modify the search state (receiver %s)' % t0, {})


def bench_case(run):
    name = 'BENCH'
    ex = run.executor()
    from . import uci_tokens as U
    U.install(ex)
    log = {'new': [], 'search': [], 'clear': [], 'order': []}
    TT = 'board::transposition_table::TRANSPOSITION_TABLE'
    ex.static_values[TT] = A.MapV({})

    def from_fen(ctx, fen):
        return Opaque('Board', as_text(fen))

    def as_text(x):
        return getattr(x, 's', str(x))
    ex.model(r'^board::(serialize::<impl board::Board>|Board)::from_fen$', from_fen)
    ex.model(r'^<board::Board as std::clone::Clone>::clone$', lambda ctx, p: ctx.deref(p))
    ex.model(r'^std::sync::atomic::Atomic::<bool>::new$', lambda ctx, v: ('atomic', v))
    ex.model(r'^std::sync::Arc::<.*>::new$', lambda ctx, v: ctx.ex.alloc(ctx.st, v))

    def search(ctx, sp, ev, md):
        S = ctx.deref(sp)
        log['search'].append({'search': S, 'max_depth': md, 'tt': ctx.ex.load(ctx.st, ('S', TT), ())})
        log['order'].append('search')
        # a search may leave anything in the cache and the counters
        ctx.ex.store_to(ctx.st, ('S', TT), (), A.MapV({len(log['search']): (True, Opaque('TTEntry'))}))
        return UNIT
    ex.model(r'^search::Search::search::<.*>$', search)
    ex.model(r'^search::Search::get_nodes$', lambda ctx, sp: z3.BitVec('nodes_%d' % len(log['search']), 64))
    ex.model(r'^std::sync::RwLock::<.*>::(read|write)$', lambda ctx, p: models_ok(p))
    def guard_deref(ctx, gp):
        v = ctx.deref(gp)
        return v if isinstance(v, Ptr) else gp
    ex.model(r'^<std::sync::RwLock(Read|Write)Guard<.*> as std::ops::Deref(Mut)?>::deref(_mut)?$', guard_deref)

    def models_ok(p):
        from mirsym.models import ok
        return ok(p)

    def clear(ctx, mp):
        log['clear'].append(len(log['search']))
        log['order'].append('clear')
        ctx.write(mp, A.MapV({}))
        return UNIT
    ex.model(r'^std::collections::HashMap::<.*>::clear$', clear)
    ex.model(r'^std::time::Instant::now$', lambda ctx: ('instant',))
    ex.model(r'^std::time::Instant::elapsed$', lambda ctx, p: ('duration', z3.ZeroExt(88, z3.BitVec('bench_ms_%d' % len(log['search']), 40))))
    ex.model(r'^std::time::Duration::as_millis$', lambda ctx, d: (ctx.deref(d) if isinstance(d, Ptr) else d)[1])
    ex.model(r'^std::io::_print$', lambda ctx, a: UNIT)
    for i in range(80):
        ex.assume(z3.ULT(z3.BitVec('nodes_%d' % i, 64), 1 << 50))
    st = State()
    r = ex.call('bench::bench', [], [], '()', st, 'harness')
    run.absorb(ex)
    n = len(log['search'])
    problems = []
    if n < 2:
        problems.append('bench searches %d positions' % n)
    for k, s in enumerate(log['search']):
        S = s['search']
        info = S[4]
        fresh = (simp(info[0].d) == CI(0, 64) and simp(info[1].d) == CI(0, 64) and simp(info[2]) == CI(0, 64) and simp(info[3]) == CI(0, 8))
        killers_fresh = all(simp(e.d) == CI(0, 64) for row in info[5] for e in row)
        limits_none = all(simp(x.d) == CI(0, 64) for x in S[3])
        tt_empty = not s['tt'].d
        md = s['max_depth']
        md_ok = simp(md.d) == CI(1, 64) and isinstance(simp(md.pay[1][0]), CI)
        if not (fresh and killers_fresh and limits_none and tt_empty and md_ok):
            problems.append('position %d: fresh info %s, fresh killers %s, no limits %s, empty cache %s, fixed depth %s' % (k, fresh, killers_fresh, limits_none, tt_empty, md_ok))
    if log['order'] != ['search', 'clear'] * n:
        problems.append('search/clear calls are not strictly alternating: %s' % log['order'][:8])
    q = run.decide('%s/fresh-search-and-cleared-cache-per-position' % name, [z3.BoolVal(bool(problems))], kind='smt',
                   note='%d positions: each searched by a fresh Search::new(&board, None) at a fixed depth on an empty cache; cache cleared after each' % n)
    if problems:
        run.violation('bench leaks state between positions: %s' % problems[:3], {'problems': problems})
    run.extra['bench_positions'] = n
    for ob, qq in run.check_obligations(ex, name):
        run.violation('bench can panic: %s' % ob, {})


NONDET = [r'std::collections::hash_map::(Iter|Keys|Values|IntoIter|Drain)', r'std::collections::hash_set::(Iter|IntoIter|Drain)',
          r'std::collections::Hash(Map|Set)::<.*>::(iter|keys|values|into_iter|drain|retain)', r'RandomState', r'\brand(_chacha|_core)?::',
          r'std::thread::', r'std::env::', r'std::time::SystemTime', r'std::process::id', r'fmt::Pointer', r'std::ptr::addr', r'std::hash::DefaultHasher']
ALLOWED = [r'std::thread::spawn', r'std::thread::JoinHandle']


def scan(run):
    """(c) reachable call graph scan"""
    prog = run.prog
    roots = [n for n, it in prog.items.items() if it.kind == 'fn' and (n == 'bench::bench' or (n.startswith('search::<impl') and n.endswith('::search')))]
    ex = run.executor()
    seen, work, hits, unresolved = set(), list(roots), [], 0
    while work:
        n = work.pop()
        if n in seen:
            continue
        seen.add(n)
        it = prog.items[n]
        for b, (sts, term) in it.blocks.items():
            if term[0] != 'call':
                continue
            callee = term[2]
            for pat in NONDET:
                if re.search(pat, callee) and not any(re.search(a, callee) for a in ALLOWED):
                    hits.append((n, callee))
            # resolve crate callees by last segment (over-approximation: every same-named crate function)
            parts = mirparse.split_top(re.sub(r'::<[^>]*>$', '', callee), '::')
            last = parts[-1] if parts else ''
            for cand in prog.by_last.get(last, []):
                if cand.name not in seen:
                    work.append(cand.name)
    # clock reads are allowed only where limits are evaluated / reported
    clock_fns = sorted(n.split('::')[-1] for n in seen if any(t[0] == 'call' and 'std::time::Instant' in t[2] for _, (s, t) in prog.items[n].blocks.items()))
    zseed_fixed = any(it.kind == 'const' and n.endswith('::SEED') for n, it in prog.items.items())
    q = run.decide('SCAN/no-nondeterminism-source-reachable', [z3.BoolVal(bool(hits) or not zseed_fixed)], kind='smt',
                   note='syntactic scan of %d reachable functions (not a solver verdict): no hash-container iteration, RandomState, rand, thread, env, system time, pointer formatting; Zobrist seed is a constant' % len(seen))
    run.extra['scan_functions'] = len(seen)
    run.extra['scan_clock_readers'] = clock_fns
    bad_clock = [f for f in clock_fns if f not in ('limits_exceeded', 'iter_deep', 'bench')]
    if hits or not zseed_fixed or bad_clock:
        # The scan is syntactic: it sees that state carried across searches or a nondeterministic input is *reachable*, not that
        # it changes a result (a recycled buffer that is wiped correctly is reachable too).  So it is reported as a violation
        # only together with a concrete search whose (move, score, nodes) differ between runs; otherwise the answer is "no verdict".
        what = 'a source of nondeterminism / cross-search state is reachable from the search: %s %s %s' % (
            hits[:4], '' if zseed_fixed else '(Zobrist seed not constant)', ('clock read in ' + str(bad_clock)) if bad_clock else '')
        from . import searchreplay
        try:
            res = searchreplay.det_battery(run)
        except Exception:
            res = 'unavailable'
        if isinstance(res, list):
            rec = dict(res[1])
            rec.update({'hits': [list(h) for h in hits[:20]], 'clock_readers': clock_fns})
            run.violation('%s; on the real engine: %s' % (what, res[0]), rec)
        else:
            run.inconclusive.append('SCAN: %s -- no run-to-run difference found by the repeat-search battery (%s); syntactic finding only, no verdict' % (what, res))


def worker(run, job):
    kind, arg = job
    if kind == 'CLOCK':
        clock_lemma(run)
    elif kind == 'BENCH':
        bench_case(run)
    else:
        scan(run)


def check(run, replay=None):
    if replay:
        c = json.load(open(replay))
        if isinstance(c, dict) and c.get('cmd') == 'searchdet':
            run.build()
            from . import searchreplay
            return searchreplay.replay_file(run, c)
        print('C16 findings are structural; see the replay file')
        return 1
    run.build()
    if not B.check_layout(run.prog):
        run.inconclusive.append('data layout differs')
        return
    run.extra['explanation'] = __doc__
    jobs = [('SCAN', 0), ('BENCH', 0), ('CLOCK', 0)]
    lm = B.layout_mismatch(run.prog, B.SEARCH_LAYOUT)
    if lm:
        # the scan of the call graph does not depend on the data layout; the two executed steps do
        run.inconclusive.append('BENCH and CLOCK skipped, data layout differs from what the harness encodes: %s' % ', '.join(lm))
        jobs = [('SCAN', 0)]
    run.bounds.append('CLOCK: arbitrary search state, arbitrary depth / node limits, no time-based limit; BENCH: all positions of bench::FENS; SCAN: whole reachable call graph')
    run.outside += ['separate processes / machine load as such', 'hash iteration order inside std (not reachable: checked by SCAN)']
    run.stubs |= {'abstract game', 'clock: fresh non-decreasing values', 'bench: from_fen and Search::search summarised'}
    run.parallel(worker, jobs)
    from . import searchreplay
    if not any('on the real engine' in v['what'] for v in run.violations):
        searchreplay.confirm_on_real_engine(run, 'det')
