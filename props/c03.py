"""C03 — game-state bookkeeping follows the rules along any game.

One inductive step: for every S |= Inv and every mv |= Cons(S, mv) (per move shape), make_move(S, mv) agrees with an
independent FIDE state update in every component: placement (incl. castling rook, en-passant victim, promotion),
side to move, the four castling rights (lost on king move, rook leaving its corner, capture on a corner; never regained),
en-passant file, half-move clock, full-move number, the undo record pushed, and the record of earlier positions
(old record plus exactly the key of S).  With C07 (start position / FEN satisfy Inv) this is an induction over game length.
"""
import json
import z3

from mirsym.values import *
from mirsym import solve
from . import boardsym as B
from . import boardstep as BS

LEVEL = 'proof'

CORNERS = {0: 7, 1: 0, 2: 63, 3: 56}     # right index -> rook home square


def one_hot(idx64):
    return z3.BitVecVal(1, 64) << idx64


def ref_update(S, m):
    """reference post-state components as z3 terms (independent of the engine's code)"""
    me, opp = m.color, 1 - m.color
    si, di = m.start_idx(), m.dest_idx()
    sbit, dbit = one_hot(si), one_hot(di)
    if m.en_passant:
        ci = z3.ZeroExt(56, m.sr) * 8 + z3.ZeroExt(56, m.df)
    else:
        ci = di
    cbit = one_hot(ci)
    landing = m.promoted if m.promoted is not None else m.piece
    sets = {}
    for c in (B.WHITE, B.BLACK):
        for k in range(6):
            x = S.bbset(k, c)
            if c == me and k == m.piece:
                x = x & ~sbit
            if m.captured is not None and c == opp and k == m.captured:
                x = x & ~cbit
            if c == me and k == landing:
                x = x | dbit
            if m.castles and c == me and k == B.ROOK:
                base = 0 if me == B.WHITE else 56
                ks_from, ks_to = z3.BitVecVal(1 << (base + 7), 64), z3.BitVecVal(1 << (base + 5), 64)
                qs_from, qs_to = z3.BitVecVal(1 << base, 64), z3.BitVecVal(1 << (base + 3), 64)
                x = z3.If(m.df == 6, (x & ~ks_from) | ks_to, (x & ~qs_from) | qs_to)
            sets[(k, c)] = x
    out = {'sets': sets}
    out['turn'] = opp
    out['fullmove'] = S.fullmove + (1 if me == B.BLACK else 0)
    out['ep_some'] = bool(m.double)
    out['ep_file'] = m.df
    resets = (m.piece == B.PAWN) or (m.captured is not None)
    out['hmc'] = z3.BitVecVal(0, 16) if resets else S.prev.hmc + 1
    r = S.prev.rights
    rights = []
    for i in range(4):
        owner = B.WHITE if i < 2 else B.BLACK
        keep = z3.And(si != CORNERS[i], di != CORNERS[i])
        if m.piece == B.KING and me == owner:
            keep = z3.BoolVal(False)
        rights.append(z3.And(r[i], keep))
    out['rights'] = rights
    return out


def worker(run, shape):
    name = B.shape_name(shape)
    stp = BS.Step(run, shape, zobrist='uf')
    S, m, ex, pre = stp.S, stp.m, stp.ex, stp.pre
    P0 = B.board_parts(stp.board0)
    b1 = stp.make()
    g = stp.guard()
    P1 = B.board_parts(b1)
    R = ref_update(S, m)

    def on_sat(q, what):
        btoks = BS.board_tokens_from_model(q.model, S, ph_keys=[])
        ptoks = BS.shape_ply_tokens(q.model, m)
        stt, out = BS.native_board_cmd(run, 'make', btoks, ptoks)
        if stt == 'PANIC':
            run.violation('make_move panics on %s: %s' % (name, out), {'cmd': 'make', 'board': btoks, 'ply': ptoks})
            return
        if stt != 'OK':
            run.inconclusive.append('%s/%s: native replay failed: %s' % (name, what, out))
            return
        from . import chessref_concrete as CC
        d0 = BS.parse_board_tokens(btoks)
        d1 = BS.parse_board_tokens(out)
        from .concrete import ply_from_tokens
        exp = CC.ref_make(d0, ply_from_tokens(ptoks))
        diff = CC.diff_state(exp, d1)
        if diff:
            run.violation('after make_move (%s) the engine disagrees with the rules in: %s' % (name, diff),
                          {'cmd': 'make', 'board': btoks, 'ply': ptoks, 'expect': 'reference update', 'differs': diff})
        else:
            run.inconclusive.append('%s/%s: model does not reproduce natively' % (name, what))

    # vacuity
    qv = run.decide('%s/vacuity' % name, pre + [g], note='witness (must be sat)')
    run.queries.pop()
    run.vacuity.append({'shape': name, 'reachable': qv.verdict})
    if qv.verdict != 'sat':
        run.inconclusive.append('shape %s is vacuous (%s)' % (name, qv.verdict))
        return

    # placement
    ne = []
    for c in (B.WHITE, B.BLACK):
        for k in range(6):
            ne.append(P1[B.BB_FIELDS[B.bb_field(k, c)]] != R['sets'][(k, c)])
    w = z3.BitVecVal(0, 64)
    bl = z3.BitVecVal(0, 64)
    for k in range(6):
        w = w | R['sets'][(k, B.WHITE)]
        bl = bl | R['sets'][(k, B.BLACK)]
    ne += [P1['white_pieces'] != w, P1['black_pieces'] != bl, P1['all_pieces'] != (w | bl)]
    q = run.decide('%s/placement' % name, pre + [g, z3.Or(*ne)], note='all 12 piece sets and the 3 unions equal the reference placement update')
    if q.verdict == 'sat':
        on_sat(q, 'placement')
    # scalars
    ne = [P1['turn'] != R['turn'], P1['fullmove'] != R['fullmove']]
    if R['ep_some']:
        ne += [P1['ep_some'] != 1, P1['ep_file'] != R['ep_file'] if P1['ep_file'] is not None else z3.BoolVal(True)]
    else:
        ne += [P1['ep_some'] != 0]
    q = run.decide('%s/turn-counters-ep' % name, pre + [g, z3.Or(*ne)], note='side to move, full-move number, en-passant file')
    if q.verdict == 'sat':
        on_sat(q, 'scalars')
    # pushed record
    h1 = P1['history']
    if len(h1.ents) != 3 or h1.ents[0][1] is not B.PREFIX or not h1.dense():
        run.violation('history after make_move has the wrong shape (%s): %d' % (name, len(h1.ents)), {'shape': name})
    else:
        top = h1.ents[-1][1]
        t_top = dict(B.ply_terms(top))
        t_mv = dict(B.ply_terms(m.value()))
        ne = []
        for k in t_top:
            if k.startswith('rights.') or k == 'hmc':
                continue
            ne.append(t_top[k] != t_mv[k])
        ne.append(t_top['hmc'] != R['hmc'])
        for i, n in enumerate(B.RIGHTS_FIELDS):
            ne.append(t_top['rights.' + n] != z3.If(R['rights'][i], z3.BitVecVal(0, 64), z3.BitVecVal(1, 64)))
        # the older record is untouched
        ne += [a[1] != b[1] for a, b in zip(B.ply_terms(h1.ents[1][1]), B.ply_terms(S.prev_value()))]
        q = run.decide('%s/record-clock-rights' % name, pre + [g, z3.Or(*ne)],
                       note='pushed undo record = the move + reference half-move clock + reference castling rights (monotone)')
        if q.verdict == 'sat':
            on_sat(q, 'record')
    # record of earlier positions: old record plus exactly key(S)
    k = z3.BitVec('probe_key', 64)
    want = z3.Or(B.ph_contains(P0['ph'], k), k == S.zkey)
    q = run.decide('%s/position-record' % name, pre + [g, B.ph_contains(P1['ph'], k) != want], kind='smt',
                   note='for every key k: remembered after make  <=>  remembered before or k == key(S)')
    if q.verdict == 'sat':
        on_sat(q, 'position-record')
    # panics
    for ob, qq in run.check_obligations(ex, '%s/make' % name):
        on_sat(qq, 'panic')
    if len(run.samples) < 1:
        run.samples.append({'shape': name, 'obligation': 'make_move(S,mv) == reference_update(S,mv) componentwise',
                            'queries': [x['id'] for x in run.queries[-5:]]})
    run.absorb(ex)


def check(run, replay=None):
    if replay:
        run.build()
        c = json.load(open(replay))
        from . import chessref_concrete as CC
        from .concrete import ply_from_tokens
        stt, out = BS.native_board_cmd(run, 'make', c['board'], c['ply'])
        if stt != 'OK':
            print('replay make:', stt, out)
            return 1
        exp = CC.ref_make(BS.parse_board_tokens(c['board']), ply_from_tokens(c['ply']))
        diff = CC.diff_state(exp, BS.parse_board_tokens(out))
        print('replay make: components where the engine disagrees with the rules:', diff)
        return 1 if diff else 0
    run.build()
    if not B.check_layout(run.prog):
        run.inconclusive.append('data layout differs from what the harness encodes')
        return
    from . import concrete as C
    C.selftest_make_unmake(run)
    shapes = B.move_shapes()
    run.extra['move_shapes'] = len(shapes)
    run.extra['explanation'] = ('One inductive step from an arbitrary position satisfying Inv: make_move executed from MIR and compared by z3 '
                                'with an independent rules update in every component, per move shape (%d shapes; squares, piece sets, clocks, '
                                'rights, keys symbolic). Induction over the game length composes with C07 (FEN/start satisfy Inv).' % len(shapes))
    run.bounds += ['all S |= Inv (I1-I5, I8), all mv |= Cons(S, mv), %d move shapes' % len(shapes), 'clocks <= 65534 (I5)']
    run.outside += ['that only legal moves are fed to make_move (C01/C08)', 'states violating Inv']
    run.assumptions += ['record of earlier positions modelled as membership predicate of the unknown older part + explicit pushes',
                        'Zobrist words uninterpreted']
    run.parallel(worker, shapes)
