"""One node of the search, executed from the real MIR, with the recursive calls replaced by their contract
(inductive step over the height of the look-ahead tree; DESIGN.md §1 "one inductive step").

Contract of a window search with true value v, window (a, b), result r:
    C(v, a, b, r)  :=  (r <= a  =>  v <= r)  /\\  (r >= b  =>  v >= r)  /\\  (a < r < b  =>  r == v)
(fail-soft: weaker than fail-hard clamping, which the engine's draw / mate returns do not obey, but what a caller needs).
The node under test is node 0 of a one-level abstract game; its children's true values v_i are free integers.
Nested calls of alpha_beta / quiescence return a fresh r with C(v_child, a, b, r) assumed, and havoc the statistics
(nodes, seldepth) and the killer table, which is modelled as arbitrary (UniformRows)."""
import os
import z3

from mirsym.executor import State, NOT_HANDLED, DIVERGE
from mirsym.values import *
from mirsym.models import opt_is_some
from mirsym.models import some, NONE
from . import absgame as A
from . import boardsym as B

MIN16, MAX16 = -32768, 32767


class UniformRows:
    """killer table [[Option<Ply>; 2]; 256] whose rows are all the same arbitrary pair; any write makes it arbitrary again"""
    ctr = [0]

    def __init__(self, row):
        self.row = row

    def index_step(self, idx):
        return self.row

    def set_index_step(self, idx, newrow):
        return UniformRows(fresh_killer_row())

    def ite_with(self, g, o):
        if self.row is o.row:
            return self
        return UniformRows(ite(g, self.row, o.row))


def fresh_killer_row():
    UniformRows.ctr[0] += 1
    k = UniformRows.ctr[0]
    out = []
    for j in range(2):
        p = B.SymPly('kl%d_%d' % (k, j), piece=B.KNIGHT, color=0, free_flags=True)
        v = list(p.value())
        kind = z3.BitVec('kl%d_%d_kind' % (k, j), 64)
        col = z3.BitVec('kl%d_%d_col' % (k, j), 64)
        v[2] = Enum(kind, {i: (B.color_v(col),) for i in range(6)})
        some_ = z3.Bool('kl%d_%d_some' % (k, j))
        out.append(Enum(z3.If(some_, z3.BitVecVal(1, 64), z3.BitVecVal(0, 64)), {1: (tuple(v),), 0: ()}))
    return tuple(out)


def contract(v, a, b, r):
    """fail-soft window contract: a result at or below the window is an upper bound of the true value, a result at or
    above it a lower bound, a result inside it is exact"""
    return z3.And(z3.Implies(r <= a, v <= r), z3.Implies(r >= b, v >= r), z3.Implies(z3.And(a < r, r < b), r == v))


class StepEnv:
    def __init__(self, run, nmoves, kind, ply_concrete=None, abortable=False, limits=None, cache_entry=False, cut_contract='weak'):
        """kind: 'alpha_beta' | 'quiescence' | 'root'"""
        self.run, self.kind, self.n = run, kind, nmoves
        self.timer_field = run.prog.field_index('search::limits::SearchLimits', 'time_management_timer')
        A.INT_MODE[0] = True
        self.G = A.Game(max(nmoves, 1), 1, ext_plies=(), qplies=0)
        if nmoves == 0:
            self.G.nodes[0]['moves'] = []
            self.G.nodes[0]['children'] = []
        n0 = self.G.nodes[0]
        if kind == 'alpha_beta':
            n0['in_check'] = z3.Bool('node_in_check')
            n0['repeated'] = z3.Bool('node_repeated')
            n0['fifty'] = z3.UGE(n0['hmc'], 100)
            self.G.pre = [c for c in self.G.pre if 'g0_hmc' not in str(c)] + [z3.Implies(n0['repeated'], z3.UGE(n0['hmc'], 4))]
        elif kind == 'quiescence':
            n0['in_check'] = z3.Bool('node_in_check')     # not consulted by quiescence
        self.v = [z3.Int('v_child_%d' % i) for i in range(len(n0['children']))]     # true values of the children (their own point of view)
        self.q = z3.Int('q_node')           # true quiescence value of the node itself (used when alpha_beta drops into quiescence)
        self.calls = []
        self.abortable = abortable
        self.cut_contract = cut_contract      # 'strong': every cut clears the running flag; 'weak': a clock-budget cut may leave it set
        self.limits = limits
        self.ex = run.executor()
        self.env = {'cache': False}
        if abortable:
            self.env['stop'] = 'any'
        if cache_entry:
            self.env['cache'] = True
        A.install(self.ex, self.G, self.env)
        self.ex.int_types = {'i16'}
        self.entry = None
        if cache_entry:
            # the cache holds an ARBITRARY entry (or none) for the node under test: any score, depth, bound kind and any
            # of the node's generated moves as stored move; what is assumed about it is stated by the caller
            n0_ = self.G.nodes[0]
            has = z3.Bool('tt_has_entry')
            score = z3.Int('tt_score')
            depth = z3.BitVec('tt_depth', 8)
            bound = z3.BitVec('tt_bound', 64)
            pick = z3.BitVec('tt_move_pick', 8)
            mv = self.G.ply_value(0, 0) if n0_['moves'] else None
            for i in range(1, len(n0_['moves'])):
                mv = ite(pick == i, self.G.ply_value(0, i), mv)
            if mv is None:
                raise Unsupported('cache entry for a node without generated moves')
            self.entry = {'has': has, 'score': score, 'depth': depth, 'bound': bound, 'pick': pick}
            self.G.pre += [z3.ULT(bound, 3), z3.ULT(pick, max(len(n0_['moves']), 1)), score >= MIN16, score <= MAX16]
            self.ex.static_values['board::transposition_table::TRANSPOSITION_TABLE'] = A.MapV(
                {n0_['key']: (has, (score, depth, Enum(bound, {0: (), 1: (), 2: ()}), mv))})
        self.pre = list(self.G.pre)
        for x in self.v + [self.q]:
            self.pre.append(z3.And(x >= MIN16 + 1, x <= MAX16))
        self.ply = z3.BitVec('ply', 8) if ply_concrete is None else CI(ply_concrete, 8)
        if ply_concrete is None:
            self.pre.append(z3.And(z3.UGE(self.ply, 1), z3.ULE(self.ply, 200)))
        for c in self.pre:
            self.ex.assume(c)
        self.level = 0
        self.rctr = 0
        self._install_contracts()

    def _havoc(self, ctx, sp):
        base = sp.path
        k = self.rctr
        nn = z3.BitVec('nodes_after_%d' % k, 64)
        ctx.ex.assume(z3.ULT(nn, 1 << 50))
        ctx.ex.store_to(ctx.st, sp.root, base + (('f', 4), ('f', 2)), nn)
        ctx.ex.store_to(ctx.st, sp.root, base + (('f', 4), ('f', 4)), z3.BitVec('seldepth_after_%d' % k, 8))
        ctx.ex.store_to(ctx.st, sp.root, base + (('f', 4), ('f', 5)), UniformRows(fresh_killer_row()))

    def _install_contracts(self):
        ex = self.ex

        def nested(which):
            def f(ctx, sp, ev, a, b, *rest):
                S = ctx.deref(sp)
                node = S[1][1].n
                self.rctr += 1
                r = z3.Int('r_%s_%d' % (which, self.rctr))
                if which == 'alpha_beta':
                    depth, start = rest
                    if node == 0:
                        raise Unsupported('nested alpha_beta on the node under test')
                    v = self.v[self.G.nodes[node]['idx']]
                else:
                    depth = None
                    v = self.q if node == 0 else self.v[self.G.nodes[node]['idx']]
                A_, B_ = (ex.to_zint(a, 'i16'), ex.to_zint(b, 'i16'))
                self.calls.append({'which': which, 'node': node, 'a': A_, 'b': B_, 'depth': depth, 'guard': ctx.st.guard, 'r': r,
                                   'ply': S[4][3]})
                ex.assume(z3.And(r >= MIN16, r <= MAX16))
                ok_window = z3.And(A_ < B_, A_ >= MIN16 + 1)
                if self.abortable:
                    # the nested search may be cut short (stop / node budget / clock): it then returns 0, the cut is
                    # sticky (modelled by clearing the running flag) and a ghost cell remembers that something below was cut
                    ab = z3.Bool('aborted_%d' % self.rctr)
                    self.calls[-1]['aborted'] = ab
                    ex.assume(z3.Implies(z3.And(ok_window, z3.Not(ab)), contract(v, A_, B_, r)))
                    # what a cut guarantees is no more than what limits_exceeded itself establishes: stop, node budget and
                    # movetime clear the running flag; the clock budget of a clocked search does NOT - the flag stays set, but
                    # the clock has been seen at or beyond the budget and never runs backwards (so a correct re-check fires again)
                    clears = z3.Bool('aborted_%d_clears_flag' % self.rctr)
                    by_clock = z3.And(ab, z3.Not(clears))
                    timer = S[3][self.timer_field]
                    tsome = opt_is_some(timer)
                    tval = timer.pay[1][0] if 1 in timer.pay and timer.pay[1] else None
                    any_clock = z3.Or(*[zb(opt_is_some(S[3][self.run.prog.field_index('search::limits::SearchLimits', f)]))
                                        for f in ('white_time', 'black_time', 'white_increment', 'black_increment')])
                    ex.assume(z3.Implies(by_clock, z3.And(zb(tsome), any_clock)) if (tval is not None and self.cut_contract == 'weak') else z3.Not(by_clock))
                    if tval is not None:
                        self.env.setdefault('clock_floor', []).append((z3.And(by_clock, zb(tsome)), bv(tval)))
                    self.calls[-1]['by_clock'] = by_clock
                    cell = S[0]
                    cur = ctx.deref(cell)
                    ctx.write(cell, ('atomic', b_and(cur[1], b_not(z3.And(ab, clears)))))
                    g = ctx.ex.load(ctx.st, ('G', 'aborted_below'), ())
                    ctx.ex.store_to(ctx.st, ('G', 'aborted_below'), (), b_or(g, ab))
                    self._havoc(ctx, sp)
                    return z3.If(ab, z3.IntVal(0), r)
                ex.assume(z3.Implies(ok_window, contract(v, A_, B_, r)))
                self._havoc(ctx, sp)
                return r
            return f
        ex.model(r'^search::Search::alpha_beta::<.*>$', nested('alpha_beta'))
        ex.model(r'^search::Search::quiescence::<.*>$', nested('quiescence'))

    def search_value(self, st):
        ex = self.ex
        run_cell = ex.alloc(st, ('atomic', True))
        st.store[('G', 'aborted_below')] = False
        lim = self.limits if self.limits is not None else tuple([NONE] * 8)
        n0 = z3.BitVec('nodes0', 64)
        ex.assume(z3.ULT(n0, 1 << 50))      # node counter far from wrapping (stated bound; nodes * 1000 is computed for the nps field)
        info = (NONE, NONE, n0, self.ply, z3.BitVec('seldepth0', 8), UniformRows(fresh_killer_row()))
        return (run_cell, self.G.board_value(0), self.G.board_value(0), lim, info)

    def item(self, method):
        for n, it in self.run.prog.items.items():
            if it.kind == 'fn' and n.endswith('::' + method) and n.startswith('search::<impl'):
                return n
        raise Unsupported('search method %s not found in the MIR' % method)


# ------------------------------------------------------------------ what a cut guarantees (shared by C09, C13, C14)

def sym_limits():
    """SearchLimits with every field an arbitrary Option"""
    def opt(tag, w):
        s = z3.Bool('lim_%s_some' % tag)
        return Enum(z3.If(s, z3.BitVecVal(1, 64), z3.BitVecVal(0, 64)), {1: (z3.BitVec('lim_%s' % tag, w),), 0: ()})
    return (opt('depth', 8), opt('nodes', 64), opt('movetime', 128), opt('wtime', 128), opt('btime', 128), opt('winc', 128),
            opt('binc', 128), opt('timer', 128))



CLOCK_FIELDS = ('white_time', 'black_time', 'white_increment', 'black_increment')


def clock_seen(run, S, reads, nested=()):
    """a clock reading at or beyond a budget of this search was made: movetime, or - for a clocked search - the time-management
    budget.  Any later reading is at least as large (monotone clock), so a correct re-check answers positively again."""
    fi = lambda f: run.prog.field_index('search::limits::SearchLimits', f)
    any_clock = z3.Or(*[zb(opt_is_some(S[3][fi(f)])) for f in CLOCK_FIELDS])
    out = list(nested)
    for fld, extra in (('time_management_timer', any_clock), ('movetime', z3.BoolVal(True))):
        o = S[3][fi(fld)]
        val = o.pay[1][0] if 1 in o.pay and o.pay[1] else None
        if val is not None:
            out += [z3.And(zb(g), extra, zb(opt_is_some(o)), z3.UGE(t, bv(val))) for g, t in reads]
    return z3.Or(*out) if out else z3.BoolVal(False)


def cut_kind(run, record=True):
    """LIM-KIND: what does a positive answer of the real limits_exceeded guarantee?  'strong' = the running flag is cleared
    on every positive answer; 'weak' = it may stay set, but then a clock value was given, a budget exists and a clock
    reading at or beyond it was made (the clock never runs backwards, so a correct re-check fires again).  The contract
    assumed for nested searches is exactly the one established here - never stronger.  None = neither could be shown."""
    env = StepEnv(run, 1, 'alpha_beta', ply_concrete=None, abortable=True, limits=sym_limits())
    ex = env.ex
    st = State()
    sp = ex.alloc(st, env.search_value(st))
    r = ex.call(env.item('limits_exceeded'), [sp, ('instant',)], ['&search::Search', 'std::time::Instant'], 'bool', st, 'harness')
    run.absorb(ex)
    res, st2 = r
    S = ex.load(st2, sp.root, sp.path)
    flag = zb(ex.load(st2, S[0].root, S[0].path)[1])
    base = ex.pre + [zb(st2.guard), zb(res)]
    q1 = run.decide('LIM-KIND/positive-answer-clears-the-flag', base + [flag], kind='smt',
                    note='limits_exceeded() == true with the running flag still set: unsat => strong cut contract')
    run.queries.pop()          # a classification, not an obligation: either answer is fine, it selects the contract
    if record:
        run.extra['LIM-KIND positive answer with the running flag still set'] = q1.verdict
    if q1.verdict == 'unsat':
        return 'strong'
    if q1.verdict != 'sat':
        return None
    seen = clock_seen(run, S, env.env.get('clock_reads', []))
    q2 = run.decide('LIM-KIND/positive-answer-without-clearing-is-a-clock-budget-cut', base + [flag, z3.Not(seen)], kind='smt',
                    note='limits_exceeded() == true with the flag set => the clock was read at or beyond movetime or (clocked search) the time budget')
    if q2.verdict == 'sat' and os.environ.get('VERIF_DEBUG'):
        print('LIM-KIND model:', q2.model)
    if not record:
        run.queries.pop()
    return 'weak' if q2.verdict == 'unsat' else None


