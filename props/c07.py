"""C07 — loading a FEN yields exactly the position the FEN describes.

The reader is decomposed into lemmas, each decided by the solver on the real MIR; composition is by substitution of
equals (from_fen is a straight-line chain of the pieces):

 PLACE   serialize::piece_placement.  (step) one trip round its character loop, started at the loop header from an
         ARBITRARY loop state (12 piece sets, cursor idx, symbolic next character) that is related to the state of an
         independent rank/file reader (idx == 8*(7-r)+f): for every character that is valid at that point (piece letter
         with f<8, digit d with f+d<=8, '/' at the end of a rank) there is no panic and the relation holds again with the
         reference reader's next state (piece added on square 8r+f of exactly the right set).  Induction over the string:
         unbounded length.  (init) executed on "P": white pawn on a8 only (cursor starts at 0, sets start empty).
         (exit) from the loop header with no character left: the 12 sets go to the builder fields of the same name, nothing
         else in the builder changes.
 TURN / CASTLE / EP / CLOCKS   the field readers on symbolic characters (castling field of 1..4 characters from KQkq-):
         side to move, each right Available iff its letter occurs, en-passant file None / letter - 'a', counters as parsed.
 HIST    serialize::history: the fabricated last-move record carries the rights, the half-move clock, is a double pawn push
         iff there is an en-passant file and then ends on that file; nothing else in the builder changes.
 WIRE    Board::from_fen on 4/5/6 abstract fields: the readers are applied to fields 0..3 (+ 4, 5 or the defaults "0", "1")
         in that order, then history, then build.
 BUILD   BoardBuilder::build on an arbitrary builder with one history record: every Board field comes from the builder field
         of the same meaning, the union sets are the unions, the key is ZKey::from(the board built) (what C04 relates to the
         incremental key), the position log starts empty; the two overlap asserts cannot fire when the sets are disjoint.
 INV     for FEN contents that are valid (disjoint by construction, one king each, en-passant pawn in place, rights consistent
         with king/rook placement, no pawns on the edge ranks) the Board built satisfies the representation invariant Inv from
         which C01-C05 start: so legal moves, keys and bookkeeping after loading are those of that position however reached.
Outside: decimal parsing of the counters and whitespace splitting (std), the position log (empty after loading; repetition
history is not part of a FEN).
"""
import json
import z3

from mirsym.executor import State, PATHS
from mirsym.values import *
from mirsym.models import some, NONE, StrV, as_str, IterV
from mirsym import native, models
from . import boardsym as B
from . import uci_tokens as U

LEVEL = 'proof'

SER = 'board::serialize::'
BUILDER = 'board::boardbuilder::BoardBuilder'
PBB = 'board::piece_bitboards::builder::Builder'
PIECE_CHARS = {'P': 'white_pawns', 'K': 'white_king', 'Q': 'white_queens', 'R': 'white_rooks', 'B': 'white_bishops', 'N': 'white_knights',
               'p': 'black_pawns', 'k': 'black_king', 'q': 'black_queens', 'r': 'black_rooks', 'b': 'black_bishops', 'n': 'black_knights'}
SETS = list(PIECE_CHARS.values())


class SymChars:
    """a &str / String given as a list of character terms (BV32 / CI)"""
    def __init__(self, chars):
        self.chars = list(chars)

    def chars_model(self, ctx):
        return IterV(tuple((True, c) for c in self.chars))

    def is_empty_model(self, ctx):
        return len(self.chars) == 0

    def eq_model(self, ctx, other):
        other = as_str(ctx, other)
        if isinstance(other, StrV):
            if len(other.s) != len(self.chars):
                return False
            return b_and(*[(c.v == ord(o)) if isinstance(c, CI) else simp(bv(c) == ord(o)) for c, o in zip(self.chars, other.s)])
        if isinstance(other, SymChars):
            if len(other.chars) != len(self.chars):
                return False
            return b_and(*[simp(bv(a) == bv(b)) for a, b in zip(self.chars, other.chars)])
        raise Unsupported('symbolic string compared with %r' % (other,))

    def len_model(self, ctx):
        return CI(len(self.chars), 64)

    def bytes_model(self, ctx):
        # the FEN alphabet is ASCII (assumed by the harness preconditions): one byte per character
        return IterV(tuple((True, c.v & 0xff if False else (CI(c.v, 8) if isinstance(c, CI) else z3.Extract(7, 0, bv(c)))) for c in self.chars))

    def as_bytes_model(self, ctx):
        return ctx.ex.alloc(ctx.st, Seq.of([CI(c.v, 8) if isinstance(c, CI) else z3.Extract(7, 0, bv(c)) for c in self.chars]))

    def parse_model(self, ctx, t):
        """std's str::parse::<uN> on a string of decimal digits (its contract; the std implementation is not executed):
        Ok(value) iff every character is a digit and the value fits; supported up to 4 characters"""
        n = len(self.chars)
        if n == 0 or n > 4:
            raise Unsupported('parse of a symbolic string of %d characters' % n)
        w = 64 if t in ('u64', 'usize') else {'u8': 8, 'u16': 16, 'u32': 32}[t]
        cs = [bv(c) if not isinstance(c, CI) else z3.BitVecVal(c.v, 32) for c in self.chars]
        isd = z3.And(*[z3.And(z3.UGE(c, 48), z3.ULE(c, 57)) for c in cs])
        val = z3.BitVecVal(0, 32)
        for c in cs:
            val = val * 10 + (c - 48)
        fits = z3.ULT(val, 1 << w) if w < 32 else z3.BoolVal(True)
        v = z3.Extract(w - 1, 0, val) if w < 32 else (z3.ZeroExt(w - 32, val) if w > 32 else val)
        return Enum(z3.If(z3.And(isd, fits), z3.BitVecVal(0, 64), z3.BitVecVal(1, 64)), {0: (simp(v),), 1: (Opaque('ParseIntError'),)})

    def ite_with(self, g, o):
        if len(self.chars) != len(o.chars):
            raise Unsupported('ite of symbolic strings of different length')
        return SymChars([ite(g, a, b) for a, b in zip(self.chars, o.chars)])


def install(ex):
    def char_to_string(ctx, p):
        return SymChars([ctx.deref(p)])
    ex.model(r'^<char as std::string::ToString>::to_string$', char_to_string)


def sym_builder(prog, tag):
    """an arbitrary BoardBuilder value with one history record; returns (value, parts dict of z3 terms)"""
    P = {}
    P['turn'] = z3.BitVec(tag + '_turn', 64)
    P['hmc'] = z3.BitVec(tag + '_hmc', 16)
    P['fmc'] = z3.BitVec(tag + '_fmc', 16)
    P['ep_some'] = z3.Bool(tag + '_ep_some')
    P['ep_file'] = z3.BitVec(tag + '_ep_file', 8)
    for n in SETS:
        P[n] = z3.BitVec('%s_%s' % (tag, n), 64)
    sb = B.SymBoard(tag + '_h', B.WHITE)
    P['ply'] = sb
    ply = sb.prev_value()
    fields = {'current_turn': B.color_v(P['turn']), 'halfmove_clock': P['hmc'], 'fullmove_counter': P['fmc'],
              'en_passant_file': B.opt_u8_v(P['ep_some'], P['ep_file']),
              'bitboards': tuple(P[n] for n in prog.structs[PBB]),
              'history': Seq.of([ply]), 'position_history': Seq.of([])}
    dom = [z3.ULT(P['turn'], 2)] + sb.domain()
    return tuple(fields[n] for n in prog.structs[BUILDER]), P, dom


def builder_parts(prog, v):
    """comparable terms of a BoardBuilder value"""
    f = dict(zip(prog.structs[BUILDER], v))
    out = {'turn': B.enum_d(f['current_turn']), 'hmc': bv(f['halfmove_clock']), 'fmc': bv(f['fullmove_counter']),
           'ep_some': B.enum_d(f['en_passant_file']) == 1}
    ep = f['en_passant_file']
    out['ep_file'] = bv(ep.pay[1][0]) if 1 in ep.pay and ep.pay[1] and ep.pay[1][0] is not None else None
    for n, x in zip(prog.structs[PBB], f['bitboards']):
        out[n] = bv(x)
    out['history'] = f['history']
    out['position_history'] = f['position_history']
    return out


def same_builder(prog, a, b, except_=()):
    """z3 Bool: builder values a, b agree on every component not listed"""
    pa, pb = builder_parts(prog, a), builder_parts(prog, b)
    conds = []
    for k in pa:
        if k in except_ or k in ('history', 'position_history'):
            continue
        if k == 'ep_file':
            if 'ep' in except_:
                continue
            if pa[k] is not None and pb[k] is not None:
                conds.append(z3.Implies(pa['ep_some'], pa[k] == pb[k]))
            continue
        if k == 'ep_some' and 'ep' in except_:
            continue
        conds.append(pa[k] == pb[k])
    if 'history' not in except_:
        ha, hb = pa['history'], pb['history']
        if not (isinstance(ha, Seq) and isinstance(hb, Seq) and ha.dense() and hb.dense() and len(ha.ents) == len(hb.ents)):
            conds.append(z3.BoolVal(False))
        else:
            for (_, x), (_, y) in zip(ha.ents, hb.ents):
                ta, tb = dict(B.ply_terms(x)), dict(B.ply_terms(y))
                conds += [ta[k] == tb[k] for k in ta if ta[k] is not None and tb.get(k) is not None]
    return z3.And(*conds) if conds else z3.BoolVal(True)


# ------------------------------------------------------------------ native replay against an independent reader

def ref_fen(fen):
    """independent FEN reader: dict of what the string says"""
    flds = fen.split()
    out = {n: 0 for n in SETS}
    rank, file = 7, 0
    for ch in flds[0]:
        if ch == '/':
            rank, file = rank - 1, 0
        elif ch.isdigit():
            file += int(ch)
        else:
            out[PIECE_CHARS[ch]] |= 1 << (8 * rank + file)
            file += 1
    out['turn'] = 0 if flds[1] == 'w' else 1
    out['rights'] = [0 if x in flds[2] else 1 for x in 'KQkq']       # 0 = Available
    out['ep'] = -1 if flds[3] == '-' else ord(flds[3][0]) - ord('a')
    out['hmc'] = int(flds[4]) if len(flds) > 4 else 0
    out['fmc'] = int(flds[5]) if len(flds) > 5 else 1
    return out


def native_fen(run, fen):
    """what the real Board::from_fen builds (helper binary); dict in the same shape, or ('PANIC', text)"""
    rc, o, e = native.run_helper(run.helper, ['board', 'fen'] + fen.split())
    o = o.strip()
    if not o.startswith('OK'):
        return ('PANIC', o[:200] or e[-200:])
    t = o[2:].split()
    out = {'turn': int(t[0]), 'fmc': int(t[1]), 'ep': int(t[2]), 'nhist': int(t[3])}
    tail = t[-16:]
    for n, x in zip(B.BB_FIELDS, tail[:15]):
        out[n] = int(x)
    out['zkey'] = int(tail[15])
    rest = t[4:-16]
    nkeys_at = None
    # the position log length follows the history records; with a single record it is the last token when the log is empty
    out['nkeys'] = int(rest[-1]) if rest else -1
    ply = rest[:-1]
    out['rights'] = [int(x) for x in ply[-4:]]
    out['hmc'] = int(ply[-5])
    out['double'] = int(ply[-6])
    out['dest_file'] = int(ply[3])
    # from-scratch key of the very board that was returned
    rc2, o2, e2 = native.run_helper(run.helper, ['board', 'zkey_from'] + t)
    out['zkey_from'] = int(o2.split()[1]) if o2.startswith('OK') else None
    return out


def fen_diff(run, fen):
    """list of differences between the real reader and the reference on one FEN (empty: agree)"""
    want, got = ref_fen(fen), native_fen(run, fen)
    if isinstance(got, tuple):
        return ['panics: ' + got[1]]
    d = []
    for n in SETS:
        if got[n] != want[n]:
            d.append('%s is %#x, the string says %#x' % (n, got[n], want[n]))
    w = 0
    k = 0
    for n in SETS:
        if n.startswith('white'):
            w |= want[n]
        else:
            k |= want[n]
    for n, x in (('white_pieces', w), ('black_pieces', k), ('all_pieces', w | k)):
        if got[n] != x:
            d.append('%s is %#x, expected the union %#x' % (n, got[n], x))
    for n in ('turn', 'ep', 'hmc', 'fmc', 'rights'):
        if got[n] != want[n]:
            d.append('%s is %s, the string says %s' % (n, got[n], want[n]))
    if got['nhist'] != 1:
        d.append('history has %d records' % got['nhist'])
    if got['double'] != (1 if want['ep'] >= 0 else 0):
        d.append('last record double-push flag %d with en-passant file %d' % (got['double'], want['ep']))
    if want['ep'] >= 0 and got['dest_file'] != want['ep']:
        d.append('last record ends on file %d, en-passant file %d' % (got['dest_file'], want['ep']))
    if got['nkeys'] != 0:
        d.append('position log not empty')
    if got['zkey_from'] is not None and got['zkey'] != got['zkey_from']:
        d.append('key %d is not the from-scratch key %d of the board returned' % (got['zkey'], got['zkey_from']))
    return d


BATTERY = ['rnbqkbnr/pppppppp/8/8/8/8/PPPPPPPP/RNBQKBNR w KQkq - 0 1',
           'r3k2r/8/8/3pP3/8/8/8/R3K2R w KQkq d6 12 34', 'r3k2r/8/8/8/3Pp3/8/8/R3K2R b Kq d3 7 9',
           'r3k2r/pbn5/8/8/8/8/PBNQ4/R3K2R w Qk - 150 6000', '4k3/8/8/8/8/8/8/4K3 b - -', 'P7/8/8/8/8/8/8/8 w - - 3']


def report(run, name, what, fens, info=None):
    """replay on the real reader: VIOLATION only if some crafted FEN is read differently from the reference"""
    for fen in fens:
        d = fen_diff(run, fen)
        if d:
            run.violation('%s: %s -- real Board::from_fen("%s"): %s' % (name, what, fen, '; '.join(d[:4])), dict(info or {}, cmd='fen', fen=fen))
            return True
    run.inconclusive.append('%s: %s (solver counterexample), but not reproduced by the real reader on %d crafted FENs' % (name, what, len(fens)))
    return False


def ep_fen(f):
    """white to move, black pawn just double-pushed on file f"""
    row = (str(f) if f else '') + 'p' + (str(7 - f) if f < 7 else '')
    return '4k3/8/8/%s/8/8/8/4K3 w - %s6 0 1' % (row, 'abcdefgh'[f])


def step_fen(ch, r, f):
    """a FEN in which character ch is read at rank r, file f"""
    rows = []
    for rank in range(7, -1, -1):
        if rank != r:
            rows.append('8')
            continue
        row = (str(f) if f else '')
        used = f
        if ch == '/':
            rows.append('8' if f == 8 else row)
            continue
        if ch.isdigit():
            row += ch
            used += int(ch)
        else:
            row += ch
            used += 1
        if used < 8:
            row += str(8 - used)
        rows.append(row)
    return '/'.join(rows) + ' w - - 0 1'


# ------------------------------------------------------------------ PLACE

def place_step(run):
    name = 'PLACE/step'
    prog = run.prog
    item = prog.items[SER + 'piece_placement']
    dbg = prog.debug_names(item)
    cfg = prog.cfg(item)
    headers = list(cfg['body'].keys())
    if len(headers) != 1:
        run.inconclusive.append('%s: piece_placement has %d loops, expected one' % (name, len(headers)))
        return
    header = headers[0]
    ex = run.executor()
    install(ex)
    bv0, _, dom = sym_builder(prog, 'b')
    sets = {n: z3.BitVec('s_' + n, 64) for n in SETS}
    idx = z3.BitVec('idx', 64)
    r, f = z3.BitVec('ref_rank', 64), z3.BitVec('ref_file', 64)
    missing = [n for n in SETS + ['idx', 'iter', 'builder'] if n not in dbg]
    if missing:
        run.inconclusive.append('%s: loop state variables not found in the MIR debug info: %s' % (name, missing))
        return
    # the reader may walk chars or bytes: the element width follows the iterator's type
    ity = item.locals.get(dbg['iter'], '')
    W = 8 if ('Bytes' in ity or 'u8' in ity) else 32
    c = z3.BitVec('chr', W)
    locals_ = {dbg[n]: sets[n] for n in SETS}
    locals_[dbg['idx']] = idx
    locals_[dbg['iter']] = IterV(((True, c),))
    locals_[dbg['builder']] = bv0
    # drop flags (bool locals assigned only constants) are live at the header with value true
    for n, t in item.locals.items():
        if t == 'bool' and n not in locals_:
            locals_[n] = True
    # relation with the reference reader and validity of the next character at that point
    pre = dom + [z3.ULE(r, 7), z3.ULE(f, 8), idx == 8 * (7 - r) + f]
    is_piece = z3.Or(*[c == ord(ch) for ch in PIECE_CHARS])
    is_digit = z3.And(z3.UGE(c, ord('1')), z3.ULE(c, ord('8')))
    d = z3.ZeroExt(64 - W, c) - 48
    valid = z3.Or(z3.And(is_piece, z3.ULT(f, 8)), z3.And(is_digit, z3.ULE(f + d, 8)), z3.And(c == ord('/'), f == 8, z3.UGE(r, 1)))
    pre.append(valid)
    for p in pre:
        ex.assume(p)
    st = State()
    fr, back, exit_ = ex.run_loop_step(item, header, locals_, st)
    run.absorb(ex)
    if back is None:
        report(run, name, 'a valid character never leads back to the loop header', BATTERY)
        return
    # reference reader
    sq = 8 * r + f
    r2 = z3.If(c == ord('/'), r - 1, r)
    f2 = z3.If(c == ord('/'), z3.BitVecVal(0, 64), z3.If(is_piece, f + 1, f + d))
    bad = []
    for ch, n in PIECE_CHARS.items():
        want = z3.If(c == ord(ch), sets[n] | (z3.BitVecVal(1, 64) << sq), sets[n])
        got = back.store.get(('L', fr.fid, dbg[n]))
        bad.append(bv(got) != want)
    got_idx = bv(back.store.get(('L', fr.fid, dbg['idx'])))
    bad.append(got_idx != 8 * (7 - r2) + f2)
    for wname, cond in (('piece', is_piece), ('digit', is_digit), ('slash', c == ord('/'))):
        if not run.witness('%s/%s' % (name, wname), ex.pre + [zb(back.guard), cond]):
            return
    q = run.decide(name + '/simulates-reference-reader', ex.pre + [zb(back.guard), z3.Or(*bad)], kind='smt',
                   note='one character: piece goes to square 8r+f of exactly its own set, cursor relation idx == 8(7-r)+f is kept')
    if q.verdict == 'sat':
        m = q.model
        ch, rr, ff = chr(m.eval(c, model_completion=True).as_long()), m.eval(r, model_completion=True).as_long(), m.eval(f, model_completion=True).as_long()
        report(run, name, 'character %r at rank %d file %d is not read as FEN prescribes' % (ch, rr, ff), [step_fen(ch, rr, ff)] + BATTERY)
    # every valid character continues the loop (no path leaves the function), the iterator is exhausted afterwards
    q2 = run.decide(name + '/always-continues', ex.pre + [z3.Not(zb(back.guard))] + ([z3.Not(zb(exit_.guard))] if exit_ is not None else []), kind='smt',
                    note='no valid character ends the loop early or diverges')
    if q2.verdict == 'sat':
        run.inconclusive.append('%s: some valid character neither continues nor leaves the loop (diverging path): %s' % (name, str(q2.model)[:200]))
    for ob, qq in run.check_obligations(ex, name):
        m = qq.model
        ch, rr, ff = chr(m.eval(c, model_completion=True).as_long()), m.eval(r, model_completion=True).as_long(), m.eval(f, model_completion=True).as_long()
        report(run, name, 'valid character %r at rank %d file %d panics (%s)' % (ch, rr, ff, ob), [step_fen(ch, rr, ff)] + BATTERY)


def place_exit(run):
    name = 'PLACE/exit-wiring'
    prog = run.prog
    item = prog.items[SER + 'piece_placement']
    dbg = prog.debug_names(item)
    header = list(prog.cfg(item)['body'].keys())[0]
    ex = run.executor()
    install(ex)
    bv0, P0, dom = sym_builder(prog, 'b')
    sets = {n: z3.BitVec('s_' + n, 64) for n in SETS}
    locals_ = {dbg[n]: sets[n] for n in SETS}
    locals_[dbg['idx']] = z3.BitVec('idx', 64)
    locals_[dbg['iter']] = IterV(())
    locals_[dbg['builder']] = bv0
    for n, t in item.locals.items():
        if t == 'bool' and n not in locals_:
            locals_[n] = True
    for p in dom:
        ex.assume(p)
    st = State()
    fr, back, exit_ = ex.run_loop_step(item, header, locals_, st)
    run.absorb(ex)
    if exit_ is None or back is not None:
        report(run, name, 'with no character left the loop does not end', BATTERY)
        return
    out = exit_.store.get(('L', fr.fid, 0))
    po = builder_parts(prog, out)
    bad = [po[n] != sets[n] for n in SETS]
    bad.append(z3.Not(same_builder(prog, out, bv0, except_=SETS)))
    if not run.witness(name, ex.pre + [zb(exit_.guard)]):
        return
    q = run.decide(name, ex.pre + [zb(exit_.guard), z3.Or(*bad)], kind='smt', note='the 12 sets reach the builder fields of the same name; turn, counters, en passant, history untouched')
    if q.verdict == 'sat':
        report(run, name, 'a piece set is stored in the wrong builder field', BATTERY)
    for ob, qq in run.check_obligations(ex, name):
        report(run, name, 'panic: %s' % (ob,), BATTERY)


def place_init(run):
    name = 'PLACE/init'
    prog = run.prog
    ex = run.executor()
    install(ex)
    bv0, P0, dom = sym_builder(prog, 'b')
    for p in dom:
        ex.assume(p)
    st = State()
    r = ex.call(SER + 'piece_placement', [bv0, SymChars([CI(ord('P'), 32)])], [BUILDER, '&str'], BUILDER, st, 'harness')
    run.absorb(ex)
    out, st2 = r
    po = builder_parts(prog, out)
    bad = [po[n] != (z3.BitVecVal(1 << 56, 64) if n == 'white_pawns' else z3.BitVecVal(0, 64)) for n in SETS]
    if not run.witness(name, ex.pre + [zb(st2.guard)]):
        return
    q = run.decide(name, ex.pre + [zb(st2.guard), z3.Or(*bad)], kind='smt', note='"P" puts one white pawn on a8 and nothing else: the cursor starts at 0 and the sets start empty')
    if q.verdict == 'sat':
        report(run, name, 'the reader does not start with empty sets at a8', BATTERY[::-1])
    for ob, qq in run.check_obligations(ex, name):
        report(run, name, 'panic: %s' % (ob,), BATTERY)


# ------------------------------------------------------------------ field readers

def field_reader(run, fn, chars, pre, tag='b'):
    prog = run.prog
    ex = run.executor()
    install(ex)
    bv0, P0, dom = sym_builder(prog, tag)
    for p in dom + pre:
        ex.assume(p)
    st = State()
    r = ex.call(SER + fn, [bv0, SymChars(chars)], [BUILDER, '&str'], BUILDER, st, 'harness')
    run.absorb(ex)
    return ex, bv0, P0, r


def turn_case(run):
    name = 'TURN'
    c = z3.BitVec('chr', 32)
    ex, bv0, P0, r = field_reader(run, 'current_turn', [c], [z3.Or(c == ord('w'), c == ord('b'))])
    out, st2 = r
    po = builder_parts(run.prog, out)
    bad = [po['turn'] != z3.If(c == ord('b'), z3.BitVecVal(1, 64), z3.BitVecVal(0, 64)), z3.Not(same_builder(run.prog, out, bv0, except_=('turn',)))]
    for wn, cond in (('w', c == ord('w')), ('b', c == ord('b'))):
        if not run.witness('%s/%s' % (name, wn), ex.pre + [zb(st2.guard), cond]):
            return
    q = run.decide(name, ex.pre + [zb(st2.guard), z3.Or(*bad)], kind='smt', note="'w' -> White to move, 'b' -> Black; nothing else changes")
    if q.verdict == 'sat':
        report(run, name, 'side to move is not read as written', BATTERY)
    for ob, qq in run.check_obligations(ex, name):
        report(run, name, 'panic on a valid field: %s' % (ob,), BATTERY)


def castle_case(run, L):
    name = 'CASTLE/len%d' % L
    cs = [z3.BitVec('chr%d' % i, 32) for i in range(L)]
    # valid castling fields: "-" or a non-empty subsequence of "KQkq" (standard order, no repetition)
    rank = lambda c: z3.If(c == ord('K'), 0, z3.If(c == ord('Q'), 1, z3.If(c == ord('k'), 2, 3)))
    letters = [z3.Or(*[c == ord(x) for x in 'KQkq']) for c in cs]
    if L == 1:
        pre = [z3.Or(cs[0] == ord('-'), letters[0])]
    else:
        pre = letters + [rank(cs[i]) < rank(cs[i + 1]) for i in range(L - 1)]
    ex, bv0, P0, r = field_reader(run, 'castling_rights', cs, pre)
    out, st2 = r
    po = builder_parts(run.prog, out)
    h = po['history']
    bad = []
    if not (isinstance(h, Seq) and h.dense() and len(h.ents) == 1):
        bad.append(z3.BoolVal(True))
    else:
        t = dict(B.ply_terms(h.ents[0][1]))
        for letter, fld in (('K', 'white_kingside'), ('Q', 'white_queenside'), ('k', 'black_kingside'), ('q', 'black_queenside')):
            occurs = z3.Or(*[c == ord(letter) for c in cs])
            bad.append((t['rights.' + fld] == 0) != occurs)          # 0 = Available
        t0 = dict(B.ply_terms(P0['ply'].prev_value()))
        bad += [t[k] != t0[k] for k in t if not k.startswith('rights.') and t[k] is not None and t0.get(k) is not None]
    bad.append(z3.Not(same_builder(run.prog, out, bv0, except_=('history',))))
    if not run.witness(name, ex.pre + [zb(st2.guard)] + ([cs[0] == ord('K')] if L > 0 else [])):
        return
    q = run.decide(name, ex.pre + [zb(st2.guard), z3.Or(*bad)], kind='smt', note='each right is Available iff its letter occurs; the rest of the record and of the builder is unchanged')
    if q.verdict == 'sat':
        m = q.model
        fld = ''.join(chr(m.eval(c, model_completion=True).as_long()) for c in cs)
        report(run, name, 'castling field %r is not read as written' % fld, ['r3k2r/8/8/8/8/8/8/R3K2R w %s - 0 1' % fld] + BATTERY)
    for ob, qq in run.check_obligations(ex, name):
        report(run, name, 'panic on a valid field: %s' % (ob,), BATTERY)


def ep_case(run):
    name = 'EP'
    c, c2 = z3.BitVec('chr', 32), z3.BitVec('chr2', 32)
    for variant, chars, pre in (('dash', [c], [c == ord('-')]), ('square', [c, c2], [z3.UGE(c, ord('a')), z3.ULE(c, ord('h')), z3.Or(c2 == ord('3'), c2 == ord('6'))])):
        ex, bv0, P0, r = field_reader(run, 'en_passant_file', chars, pre)
        out, st2 = r
        po = builder_parts(run.prog, out)
        if variant == 'dash':
            bad = [po['ep_some']]
        else:
            bad = [z3.Not(po['ep_some'])] + ([po['ep_file'] != z3.Extract(7, 0, c - ord('a'))] if po['ep_file'] is not None else [z3.BoolVal(True)])
        bad.append(z3.Not(same_builder(run.prog, out, bv0, except_=('ep',))))
        if not run.witness('%s/%s' % (name, variant), ex.pre + [zb(st2.guard)]):
            return
        q = run.decide('%s/%s' % (name, variant), ex.pre + [zb(st2.guard), z3.Or(*bad)], kind='smt', note="'-' -> no en-passant file; 'a'..'h' + rank -> that file")
        if q.verdict == 'sat':
            report(run, name, 'en-passant field is not read as written', BATTERY + [ep_fen(f_) for f_ in range(8)])
        for ob, qq in run.check_obligations(ex, '%s/%s' % (name, variant)):
            report(run, name, 'panic on a valid field: %s' % (ob,), BATTERY)


def clock_case(run, which, ndigits):
    """the counters as strings of 1..4 symbolic decimal digits (no leading-zero restriction), value <= 6000"""
    name = 'CLOCK/%s/%d-digits' % (which, ndigits)
    prog = run.prog
    ex = run.executor()
    install(ex)
    bv0, P0, dom = sym_builder(prog, 'b')
    cs = [z3.BitVec('digit%d' % i, 32) for i in range(ndigits)]
    val = z3.BitVecVal(0, 32)
    for c in cs:
        val = val * 10 + (c - 48)
    pre = [z3.And(z3.UGE(c, 48), z3.ULE(c, 57)) for c in cs] + [z3.ULE(val, 6000)]
    for p in dom + pre:
        ex.assume(p)
    st = State()
    r = ex.call(SER + which, [bv0, SymChars(cs)], [BUILDER, '&str'], BUILDER, st, 'harness')
    run.absorb(ex)
    if r is None:
        out, st2 = None, None
    else:
        out, st2 = r
    key = 'hmc' if which == 'halfmove_clock' else 'fmc'

    def crafted(m):
        nv = m.eval(val, model_completion=True).as_long() if m is not None else 300
        txt = ''.join(chr(m.eval(c, model_completion=True).as_long()) for c in cs) if m is not None else '300'
        return ['4k3/8/8/8/8/8/8/4K3 w - - %s %s' % ((txt, '1') if key == 'hmc' else ('0', txt))] + BATTERY
    if st2 is not None:
        po = builder_parts(prog, out)
        bad = [po[key] != z3.Extract(15, 0, val), z3.Not(same_builder(prog, out, bv0, except_=(key,)))]
        if not run.witness(name, ex.pre + [zb(st2.guard)]):
            return
        q = run.decide(name, ex.pre + [zb(st2.guard), z3.Or(*bad)], kind='smt', note='the counter is the number written (<= 6000); nothing else changes')
        if q.verdict == 'sat':
            report(run, name, 'counter %s not stored as parsed' % q.model.eval(val, model_completion=True), crafted(q.model))
    for ob, qq in run.check_obligations(ex, name):
        report(run, name, 'panic on a valid counter %s: %s' % (qq.model.eval(val, model_completion=True), ob), crafted(qq.model))


# ------------------------------------------------------------------ HIST, BUILD, INV, WIRE

def valid_content(P, turn):
    """validity of the FEN *content* (what the property calls a valid FEN), on builder parts; turn: python int"""
    pcs = {n: P[n] for n in SETS}
    c = []
    acc = None
    for n in SETS:                      # pairwise disjoint (the reference reader writes each square once)
        if acc is not None:
            c.append((acc & pcs[n]) == 0)
        acc = pcs[n] if acc is None else (acc | pcs[n])
    for k in (pcs['white_king'], pcs['black_king']):
        c += [k != 0, (k & (k - 1)) == 0]
    all_ = acc
    opp_pawns = pcs['black_pawns'] if turn == B.WHITE else pcs['white_pawns']
    c.append(z3.Implies(P['ep_some'], z3.ULT(P['ep_file'], 8)))
    for f in range(8):
        ps, e1, e2 = (32 + f, 40 + f, 48 + f) if turn == B.WHITE else (24 + f, 16 + f, 8 + f)
        c.append(z3.Implies(z3.And(P['ep_some'], P['ep_file'] == f),
                            z3.And(z3.Extract(ps, ps, opp_pawns) == 1, z3.Extract(e1, e1, all_) == 0, z3.Extract(e2, e2, all_) == 0)))
    r = P['ply'].prev.rights
    wk, wr, bk, br = pcs['white_king'], pcs['white_rooks'], pcs['black_king'], pcs['black_rooks']
    c.append(z3.Implies(r[0], z3.And(z3.Extract(4, 4, wk) == 1, z3.Extract(7, 7, wr) == 1)))
    c.append(z3.Implies(r[1], z3.And(z3.Extract(4, 4, wk) == 1, z3.Extract(0, 0, wr) == 1)))
    c.append(z3.Implies(r[2], z3.And(z3.Extract(60, 60, bk) == 1, z3.Extract(63, 63, br) == 1)))
    c.append(z3.Implies(r[3], z3.And(z3.Extract(60, 60, bk) == 1, z3.Extract(56, 56, br) == 1)))
    edge = z3.BitVecVal(0xff000000000000ff, 64)
    c += [(pcs['white_pawns'] & edge) == 0, (pcs['black_pawns'] & edge) == 0]
    c += [z3.ULE(P['hmc'], 150), z3.UGE(P['fmc'], 1), z3.ULE(P['fmc'], 6000)]
    c.append(P['turn'] == turn)
    return c


def hist_case(run):
    name = 'HIST'
    prog = run.prog
    ex = run.executor()
    install(ex)
    bv0, P0, dom = sym_builder(prog, 'b')
    for p in dom + [z3.Implies(P0['ep_some'], z3.ULT(P0['ep_file'], 8))]:
        ex.assume(p)
    st = State()
    r = ex.call(SER + 'history', [bv0], [BUILDER], BUILDER, st, 'harness')
    run.absorb(ex)
    out, st2 = r
    po = builder_parts(prog, out)
    h = po['history']
    bad = []
    if not (isinstance(h, Seq) and len([1 for g, _ in h.ents if g is True]) == len(h.ents) == 1):
        run.inconclusive.append('%s: history is not a single record: %r' % (name, h))
        return
    t = dict(B.ply_terms(h.ents[0][1]))
    t0 = dict(B.ply_terms(P0['ply'].prev_value()))
    bad += [t['rights.' + f_] != t0['rights.' + f_] for f_ in B.RIGHTS_FIELDS]
    bad.append(t['hmc'] != P0['hmc'])
    bad.append(t['double'] != P0['ep_some'])
    bad.append(z3.And(P0['ep_some'], t['dest.file'] != P0['ep_file']))
    bad += [z3.Not(z3.ULT(t[k], 8)) for k in ('start.rank', 'start.file', 'dest.rank', 'dest.file')]
    bad.append(z3.Not(same_builder(prog, out, bv0, except_=('history',))))
    if not run.witness(name, ex.pre + [zb(st2.guard), P0['ep_some']]):
        return
    q = run.decide(name, ex.pre + [zb(st2.guard), z3.Or(*bad)], kind='smt',
                   note='the fabricated last-move record keeps the rights, carries the half-move clock, is a double push iff an en-passant file is set and then ends on that file')
    if q.verdict == 'sat':
        report(run, name, 'the fabricated history record does not carry rights / clock / en-passant file', BATTERY)
    for ob, qq in run.check_obligations(ex, name):
        report(run, name, 'panic: %s' % (ob,), BATTERY)


def build_env(run, tag='b'):
    prog = run.prog
    ex = run.executor()
    install(ex)
    cap = {}

    def zkey_from(ctx, bp):
        cap['board'] = ctx.deref(bp)
        cap['n'] = cap.get('n', 0) + 1
        return (z3.BitVec('key_of_built_board', 64),)
    ex.model(r'^<board::zkey::ZKey as std::convert::From<&board::Board>>::from$', zkey_from)
    return ex, cap


def build_case(run):
    name = 'BUILD'
    prog = run.prog
    ex, cap = build_env(run)
    bv0, P0, dom = sym_builder(prog, 'b')
    pcs = [P0[n] for n in SETS]
    dis = []
    acc = pcs[0]
    for x in pcs[1:]:
        dis.append((acc & x) == 0)
        acc = acc | x
    for p in dom + dis:
        ex.assume(p)
    st = State()
    bp = ex.alloc(st, bv0)
    r = ex.call(BUILDER + '::build', [bp], ['&mut ' + BUILDER], 'board::Board', st, 'harness')
    run.absorb(ex)
    out, st2 = r
    Pb = B.board_parts(out)
    bad = [Pb['turn'] != P0['turn'], Pb['fullmove'] != P0['fmc'], (Pb['ep_some'] == 1) != P0['ep_some']]
    if Pb['ep_file'] is not None:
        bad.append(z3.And(P0['ep_some'], Pb['ep_file'] != P0['ep_file']))
    for n in SETS:
        bad.append(Pb[n] != P0[n])
    w = z3.BitVecVal(0, 64)
    k = z3.BitVecVal(0, 64)
    for n in SETS:
        if n.startswith('white'):
            w = w | P0[n]
        else:
            k = k | P0[n]
    bad += [Pb['white_pieces'] != w, Pb['black_pieces'] != k, Pb['all_pieces'] != (w | k)]
    h = Pb['history']
    if not (isinstance(h, Seq) and h.dense() and len(h.ents) == 1):
        run.inconclusive.append('%s: built history is not a single record' % name)
        return
    t = dict(B.ply_terms(h.ents[0][1]))
    t0 = dict(B.ply_terms(P0['ply'].prev_value()))
    bad.append(t['hmc'] != P0['hmc'])
    bad += [t[x] != t0[x] for x in t if x != 'hmc' and t[x] is not None and t0.get(x) is not None]
    ph = Pb['ph']
    ph_empty = (isinstance(ph, Seq) and len(ph.ents) == 0) or (isinstance(ph, KeyLog) and len(ph.pushed) == 0 and False)
    if isinstance(ph, Seq):
        bad.append(z3.BoolVal(len(ph.ents) != 0))
    else:
        run.inconclusive.append('%s: position log of the built board is %r, expected an empty Vec' % (name, ph))
        return
    # the key is the from-scratch key of exactly the board that is returned
    if cap.get('n') != 1:
        bad.append(z3.BoolVal(True))
    else:
        bad.append(Pb['zkey'] != z3.BitVec('key_of_built_board', 64))
        Pc = B.board_parts(cap['board'])
        for x in Pb:
            if x in ('zkey', 'history', 'ph'):
                continue
            if Pb[x] is None or Pc[x] is None:
                continue
            bad.append(Pb[x] != Pc[x])
        hc = Pc['history']
        tc = dict(B.ply_terms(hc.ents[0][1])) if isinstance(hc, Seq) and len(hc.ents) == 1 else None
        if tc is None:
            bad.append(z3.BoolVal(True))
        else:
            bad += [t[x] != tc[x] for x in t if t[x] is not None and tc.get(x) is not None]
    if not run.witness(name, ex.pre + [zb(st2.guard)]):
        return
    q = run.decide(name, ex.pre + [zb(st2.guard), z3.Or(*bad)], kind='smt',
                   note='every Board field comes from the builder field of the same meaning; unions; key == ZKey::from(the board returned); empty position log')
    if q.verdict == 'sat':
        report(run, name, 'BoardBuilder::build does not assemble the board from the builder fields', BATTERY)
    for ob, qq in run.check_obligations(ex, name):
        report(run, name, 'panic with pairwise disjoint piece sets: %s' % (ob,), BATTERY)


def inv_case(run, turn):
    from .boardstep import inv_of_value
    name = 'INV/%s-to-move' % ('white' if turn == B.WHITE else 'black')
    prog = run.prog
    ex, cap = build_env(run)
    bv0, P0, dom = sym_builder(prog, 'b')
    for p in dom + valid_content(P0, turn):
        ex.assume(p)
    st = State()
    r = ex.call(SER + 'history', [bv0], [BUILDER], BUILDER, st, 'harness')
    b1, st1 = r
    bp = ex.alloc(st1, b1)
    r = ex.call(BUILDER + '::build', [bp], ['&mut ' + BUILDER], 'board::Board', st1, 'harness')
    run.absorb(ex)
    out, st2 = r
    if not run.witness(name, ex.pre + [zb(st2.guard), P0['ep_some']]):
        return
    goals = inv_of_value(out, turn)
    Pb = B.board_parts(out)
    top = Pb['history'].ents[-1][1]
    goals.append(('I5.counters', z3.And(z3.ULE(bv(top[8]), 65534), z3.UGE(Pb['fullmove'], 1), z3.ULE(Pb['fullmove'], 65534))))
    for gname, g in goals:
        q = run.decide('%s/%s' % (name, gname), ex.pre + [zb(st2.guard), z3.Not(g)], kind='smt', note='valid FEN content => the loaded board satisfies Inv (the premise of C01-C05)')
        if q.verdict == 'sat':
            report(run, name, 'a board loaded from valid FEN content violates %s' % gname, BATTERY)
    for ob, qq in run.check_obligations(ex, name):
        report(run, name, 'panic on valid content: %s' % (ob,), BATTERY)


class Chain:
    """builder value in the wiring check: the list of reader applications so far"""
    def __init__(self, steps):
        self.steps = steps


def wire_case(run, nfields):
    name = 'WIRE/%d-fields' % nfields
    prog = run.prog
    ex = run.executor()
    install(ex)
    U.install(ex)
    toks = [U.TokV.fresh('field%d' % i) for i in range(nfields)]
    ex.model(r'^core::str::<impl str>::split_ascii_whitespace$', lambda ctx, s: IterV(tuple((True, t) for t in toks)))
    ex.model(r'^board::(<impl at [^>]*>|Board)::builder$', lambda ctx: Chain([]))
    for fn in ('piece_placement', 'current_turn', 'castling_rights', 'en_passant_file', 'halfmove_clock', 'fullmove_counter'):
        def rd(ctx, b, s, fn=fn):
            if not isinstance(b, Chain):
                raise Unsupported('reader applied to %r' % (b,))
            return Chain(b.steps + [(fn, as_str(ctx, s))])
        ex.override(SER + fn, rd)
    ex.override(SER + 'history', lambda ctx, b: Chain(b.steps + [('history', None)]))
    built = []

    def build(ctx, bp):
        b = ctx.deref(bp)
        built.append(b)
        return Opaque('Board', 'built')
    ex.model(r'^board::boardbuilder::BoardBuilder::build$', build)
    st = State()
    fen = U.AbsStr(False, 'fen')
    callee = [n for n in prog.items if n.startswith(SER + '<impl') and n.endswith('::from_fen')][0]
    r = ex.call(callee, [fen], ['&str'], 'board::Board', st, 'harness')
    run.absorb(ex)
    out, st2 = r
    okw = True
    why = ''
    if len(built) != 1 or not isinstance(built[0], Chain):
        okw, why = False, 'build() is not called exactly once on the chain'
    else:
        steps = built[0].steps
        exp = [('piece_placement', 0), ('current_turn', 1), ('castling_rights', 2), ('en_passant_file', 3), ('halfmove_clock', 4), ('fullmove_counter', 5), ('history', None)]
        if [s_[0] for s_ in steps] != [e[0] for e in exp]:
            okw, why = False, 'readers applied in order %s' % [s_[0] for s_ in steps]
        else:
            for (fn, arg), (_, i) in zip(steps, exp):
                if i is None:
                    continue
                if i < nfields:
                    if arg is not toks[i]:
                        okw, why = False, '%s reads %r instead of field %d' % (fn, arg, i)
                else:
                    dflt = '0' if fn == 'halfmove_clock' else '1'
                    if not (isinstance(arg, StrV) and arg.s == dflt):
                        okw, why = False, '%s default is %r instead of "%s"' % (fn, arg, dflt)
    if not (isinstance(out, Opaque) and out.data == 'built'):
        okw, why = False, 'from_fen does not return the built board'
    q = run.decide(name, [z3.BoolVal(not okw)], kind='smt', note='readers are applied to fields 0..5 (defaults "0", "1") in order, then history, then build')
    if not okw:
        report(run, name, why, BATTERY)
    for ob, qq in run.check_obligations(ex, name):
        report(run, name, 'panic: %s' % (ob,), BATTERY)


def worker(run, job):
    kind = job[0]
    fn = {'PLACE-STEP': place_step, 'PLACE-EXIT': place_exit, 'PLACE-INIT': place_init, 'TURN': turn_case, 'CASTLE': castle_case, 'EP': ep_case,
          'CLOCK': clock_case, 'HIST': hist_case, 'BUILD': build_case, 'INV': inv_case, 'WIRE': wire_case}[kind]
    fn(run, *job[1:])


def check(run, replay=None):
    run.build()
    if replay:
        c = json.load(open(replay))
        d = fen_diff(run, c['fen'])
        print('replay: Board::from_fen("%s") vs independent reader: %s' % (c['fen'], '; '.join(d) if d else 'agree'))
        return 1 if d else 0
    if not B.check_layout(run.prog):
        run.inconclusive.append('data layout differs')
        return
    run.extra['explanation'] = __doc__
    run.bounds += ['piece placement: strings of ANY length (one loop trip from an arbitrary loop state + init + exit wiring: induction over the string)',
                   'castling field of 1..4 characters from KQkq-; side-to-move field w|b; en-passant field - or [a-h][36]',
                   'counters: strings of 1..4 decimal digits with value <= 6000 (the property asks for clocks <= 150 and move numbers <= 6000)',
                   'history / build / Inv link: arbitrary builder contents (all 64-bit sets, flags and counters symbolic)']
    run.outside += ['invalid FEN strings (the property speaks of valid ones)', 'str::parse and split_ascii_whitespace themselves (std, used through their contracts)',
                    'the position log (empty after loading: repetition history is not part of a FEN)',
                    'the composition of the lemmas (substitution of equals along the straight-line chain in from_fen; written in DESIGN.md, not solver-checked)']
    run.stubs |= {'the readers are composed by from_fen in the order checked by WIRE', 'ZKey::from(&Board) as an uninterpreted key of the built board (its relation to the incremental key is C04)',
                  'characters are ASCII (FEN alphabet)'}
    jobs = [('PLACE-STEP',), ('PLACE-EXIT',), ('PLACE-INIT',), ('TURN',), ('EP',)] + [('CLOCK', w_, k_) for w_ in ('halfmove_clock', 'fullmove_counter') for k_ in (1, 2, 3, 4)]
    jobs += [('CASTLE', L) for L in (1, 2, 3, 4)]
    jobs += [('HIST',), ('BUILD',), ('INV', B.WHITE), ('INV', B.BLACK), ('WIRE', 4), ('WIRE', 5), ('WIRE', 6)]
    run.parallel(worker, jobs)
