"""Independent reference rules (DESIGN.md §4.3), written on squares/ranks/files with explicit range tests,
not on the engine's bitboard tricks.  Square index = rank*8 + file (a1 = 0, h1 = 7, a8 = 56)."""
import z3

ROOK_DIRS = [(1, 0), (-1, 0), (0, 1), (0, -1)]
BISHOP_DIRS = [(1, 1), (1, -1), (-1, 1), (-1, -1)]
KNIGHT_DELTAS = [(2, 1), (2, -1), (-2, 1), (-2, -1), (1, 2), (1, -2), (-1, 2), (-1, -2)]
KING_DELTAS = [(1, 0), (-1, 0), (0, 1), (0, -1), (1, 1), (1, -1), (-1, 1), (-1, -1)]

ONE = z3.BitVecVal(1, 64)
ZERO = z3.BitVecVal(0, 64)


def bit(x, s):
    """Bool: bit s (python int) of 64-bit term x"""
    return z3.Extract(s, s, x) == 1


def sqbit(s):
    return z3.BitVecVal(1 << s, 64)


def slider_ref(sq, occ, dirs):
    """squares reached from concrete `sq` sliding along `dirs`, up to and including the first blocker in `occ`"""
    res = ZERO
    r0, f0 = divmod(sq, 8)
    for dr, df in dirs:
        r, f = r0 + dr, f0 + df
        blocked = z3.BoolVal(False)
        while 0 <= r < 8 and 0 <= f < 8:
            s = r * 8 + f
            res = res | z3.If(blocked, ZERO, sqbit(s))
            blocked = z3.Or(blocked, bit(occ, s))
            r += dr
            f += df
    return res


def leaper_ref_sym(rank, file, deltas):
    """attack set of a leaper on symbolic (rank, file) (8-bit terms, assumed < 8): explicit range tests per delta"""
    res = ZERO
    r16 = z3.ZeroExt(8, rank)
    f16 = z3.ZeroExt(8, file)
    for dr, df in deltas:
        nr = r16 + z3.BitVecVal(dr & 0xffff, 16)
        nf = f16 + z3.BitVecVal(df & 0xffff, 16)
        inb = z3.And(nr >= 0, nr < 8, nf >= 0, nf < 8)   # signed compares on 16-bit
        idx = z3.ZeroExt(48, nr * 8 + nf)
        res = res | z3.If(inb, ONE << idx, ZERO)
    return res


def leaper_ref(sq, deltas):
    r0, f0 = divmod(sq, 8)
    v = 0
    for dr, df in deltas:
        r, f = r0 + dr, f0 + df
        if 0 <= r < 8 and 0 <= f < 8:
            v |= 1 << (r * 8 + f)
    return v


def pawn_attack_deltas(white):
    return [(1, 1), (1, -1)] if white else [(-1, 1), (-1, -1)]
