"""C15 — no input line can kill or wedge the engine; quit and end-of-input end it.

(a) UCICommand::new (with parse_go, parse_option, parse_position) executed from MIR on every token list of length
    0..N over abstract tokens (uci_tokens.py): no reachable panic (index, slice range, assert!, unwrap, overflow).
(b) one iteration of Uci::uci_loop from a fresh Uci with an arbitrary line, including end of input: the iteration must
    not panic; at end of input (read_line returns Ok(0), persistently) the loop must terminate rather than iterate again.
"""
import json
import subprocess
import z3

from mirsym.executor import State, DIVERGE
from mirsym.values import *
from mirsym import native, solve, models
from . import uci_tokens as U

LEVEL = 'other'
NEW = 'uci::uci_command::UCICommand::new'


def known_ids(run):
    return {e['id']: e for e in run.load_known()}


def token_list(n, tag='t'):
    return [U.TokV.fresh('%s%d' % (tag, i)) for i in range(n)]


def concretise(model, toks):
    out = []
    for t in toks:
        k = solve.model_int(model, t.kind)
        v = solve.model_int(model, t.num)
        out.append(U.VOCAB.word(k, v))
    return out


def classify_site(where, msg):
    """role of a panic site, used to key known findings (not by model values)"""
    if 'parse_go' in where and 'index out of bounds' in msg:
        return 'S2', 'parse_go reads the value after a keyword without checking that it exists'
    if 'parse_option' in where and ('assert' in msg or 'explicit panic' in msg):
        return 'S3a', 'parse_option asserts that the option name is not empty'
    if 'parse_option' in where or ('closure' in where and 'uci_command' in where):
        return 'S3b', 'parse_option slices name..value with value before name'
    return None, None


def part_a(run, n):
    toks = token_list(n)
    ex = run.executor()
    U.install(ex)
    st = State()
    sp = ex.alloc(st, Seq.of(toks))
    r = ex.call(NEW, [sp], ['&[&str]'], 'std::result::Result<uci::uci_command::UCICommand, std::string::String>', st, 'harness')
    run.absorb(ex)
    known = known_ids(run)
    groups = {}
    for ob in ex.obligations:
        groups.setdefault((ob.kind, ob.where, ob.msg), []).append(ob)
    for (kind, where, msg), obs in sorted(groups.items()):
        g = b_or(*[o.guard for o in obs])
        q = run.decide('parse/len%d/%s@%s' % (n, kind, where.split('::')[-1]), list(ex.pre) + [g], kind='smt', note='%s: %s' % (where, msg[:80]))
        if kind == 'unwind':
            run.unwinding.append({'where': where, 'bound': ex.loop_bound, 'checked': q.verdict == 'unsat'})
        if q.verdict != 'sat':
            continue
        words = concretise(q.model, toks)
        rc, out, err = native.run_helper(run.helper, ['uci', 'parse'] + words)
        if not out.startswith('PANIC'):
            run.inconclusive.append('panic model %s does not reproduce natively: %r -> %s' % (where, words, out[:100]))
            continue
        fid, role = classify_site(where, msg)
        if fid and fid in known:
            run.known_finding('%s %s (e.g. `%s`)' % (fid, role, ' '.join(words)))
            continue
        run.violation('input line `%s` panics the command parser: %s' % (' '.join(words), out.strip()[:200]),
                      {'cmd': 'parse', 'tokens': words, 'site': where, 'role': role})
    if r is not None and len(run.samples) < 2:
        run.samples.append({'tokens': n, 'result_discriminant': str(r[0].d)[:300]})


def worker(run, n):
    part_a(run, n)


def check(run, replay=None):
    if replay:
        run.build()
        c = json.load(open(replay))
        if c['cmd'] == 'parse':
            rc, out, err = native.run_helper(run.helper, ['uci', 'parse'] + c['tokens'])
            print('replay parse %r -> %s' % (c['tokens'], out.strip()[:300]))
            return 1 if out.startswith('PANIC') else 0
        if c['cmd'] == 'eof':
            return 1 if eof_hangs(run) else 0
        return 2
    run.build()
    from . import boardsym as B
    lm = [x for x in B.layout_mismatch(run.prog, B.UCI_LAYOUT) if x != 'uci::Uci']      # the session struct is built by Uci::new()
    if lm:
        run.inconclusive.append('data layout differs from what the harness encodes: %s' % ', '.join(lm))
        return
    N = 8 if run.tier == 'quick' else 12
    run.extra['explanation'] = __doc__
    run.bounds.append('token lists of length 0..%d; every token an arbitrary word (any keyword, any decimal number up to 2^136, or junk)' % N)
    run.outside += ['longer lines', 'promptness in seconds', 'invalid FEN arguments (excluded by the property)',
                    'byte-level tokenisation (split_whitespace) is std and not executed']
    run.stubs |= {'&str / String as abstract tokens; format!/join/to_lowercase keep only emptiness', 'Logger output as no-op'}
    selftest(run)
    run.parallel(worker, list(range(0, N + 1)))
    part_b(run)


def selftest(run):
    """concrete differential: the repo's own UCI test lines through mirsym (concrete strings) vs native"""
    lines = ['uci', 'isready', 'ucinewgame', 'stop', 'quit', 'foo', 'go infinite', 'go depth 3', 'go wtime 1000 btime 2000 winc 5 binc 7',
             'position startpos', 'position startpos moves e2e4 e7e5', 'setoption name Hash value 16', 'go nodes 100 movetime 50',
             'position fen 8/8/8/8/8/8/8/8 w - - 0 1 moves a1a2', 'go depth x', 'setoption name Clear Hash']
    for ln in lines:
        words = ln.split()
        ex = run.executor()
        U.install(ex)
        st = State()
        sp = ex.alloc(st, Seq.of([models.StrV(w) for w in words]))
        try:
            r = ex.call(NEW, [sp], ['&[&str]'], 'std::result::Result<uci::uci_command::UCICommand, std::string::String>', st, 'selftest')
        except Unsupported as e:
            run.selftest['mismatches'] += 1
            run.selftest['what'].append('%r: %s' % (ln, e))
            continue
        rc, out, err = native.run_helper(run.helper, ['uci', 'parse'] + words)
        run.selftest['cases'] += 1
        if r is None:
            got = 'PANIC'
        else:
            d = simp(r[0].d)
            got = 'OK ok' if (isinstance(d, CI) and d.v == 0) else ('OK err' if isinstance(d, CI) else 'symbolic')
        if not out.startswith(got):
            run.selftest['mismatches'] += 1
            run.selftest['what'].append('%r: mirsym %s, native %s' % (ln, got, out[:60]))
    if run.selftest['mismatches']:
        run.inconclusive.append('translator self-test mismatch: %s' % run.selftest['what'][:4])


def eof_hangs(run, lines=()):
    """the real binary fed the given lines and then end of input: does it terminate within 5 s?"""
    try:
        p = subprocess.run([run.helper], input=''.join(l + '\n' for l in lines).encode(), stdout=subprocess.DEVNULL, stderr=subprocess.DEVNULL, timeout=5)
        return False
    except subprocess.TimeoutExpired:
        return True


def part_b(run):
    from . import uci_loop
    uci_loop.check_loop(run, eof_hangs, known_ids(run))
