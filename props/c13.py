"""C13 — an interrupted search leaves nothing behind that can mislead a later one.

Same one-node inductive step as C11 (searchstep.py), but the search may be cut at any point: the running flag may be
cleared by the environment at any poll, limits are symbolic, and every nested alpha_beta / quiescence call may report
`aborted` (it then returns the dummy 0, and the cut is sticky).  Every write to the transposition table is observed.
Obligation: no insert happens on a path on which a nested call of this node was cut short (i.e. nothing computed from an
unfinished subtree is cached), for all cut points (they are free Booleans, not an enumeration), windows, flags, values.
"""
import json
import os
import z3

from mirsym.executor import State
from mirsym import solve
from mirsym import executor as X
from mirsym.values import *
from mirsym.models import opt_is_some
from . import absgame as A
from . import boardsym as B
from . import searchstep as SS
from .c11 import report

LEVEL = 'other'
MIN16, MAX16 = SS.MIN16, SS.MAX16


sym_limits = SS.sym_limits


def known_ids(run):
    return {e['id'] for e in run.load_known()}


clock_seen, cut_kind = SS.clock_seen, SS.cut_kind


def step(run, job):
    kind, n, contract_kind = job
    name = '%s/n%d' % (kind, n)
    env = SS.StepEnv(run, n, {'AB': 'alpha_beta', 'R': 'root', 'Q': 'quiescence'}[kind], ply_concrete=(0 if kind == 'R' else None), abortable=True, limits=sym_limits(),
                     cut_contract=contract_kind)
    ex = env.ex
    st = State()
    sp = ex.alloc(st, env.search_value(st))
    st.store[('G', 'own_cut')] = False

    def saw_poll(positive):
        def hook(ctx, val):
            g = ctx.ex.load(ctx.st, ('G', 'own_cut'), ())
            ctx.ex.store_to(ctx.st, ('G', 'own_cut'), (), b_or(g, val if positive else b_not(val)))
            return val
        return hook
    ex.post_hook(r'^search::(Search|<impl at .*>)::limits_exceeded$', saw_poll(True))
    ex.post_hook(r'^search::(Search|<impl at .*>)::is_running$', saw_poll(False))
    depth = z3.BitVec('depth', 8)
    # alpha_beta is also entered with depth 0 (it then drops into quiescence, whose cut is reported through the same ghost)
    ex.assume(z3.ULE(depth, 250) if kind == 'AB' else z3.And(z3.UGE(depth, 1), z3.ULE(depth, 250)))
    if kind == 'Q':
        alpha, beta = z3.Int('alpha'), z3.Int('beta')
        for c in [alpha >= MIN16 + 1, beta <= MAX16, alpha < beta]:
            ex.assume(c)
        r = ex.call(env.item('quiescence'), [sp, ex.alloc(st, ()), alpha, beta, ('instant',)],
                    ['&mut search::Search', '&evaluate::simple_evaluator::SimpleEvaluator', 'i16', 'i16', 'std::time::Instant'], 'i16', st, 'harness')
    elif kind == 'AB':
        alpha, beta = z3.Int('alpha'), z3.Int('beta')
        for c in [alpha >= MIN16 + 1, beta <= MAX16, alpha < beta]:
            ex.assume(c)
        r = ex.call(env.item('alpha_beta'), [sp, ex.alloc(st, ()), alpha, beta, depth, ('instant',)],
                    ['&mut search::Search', '&evaluate::simple_evaluator::SimpleEvaluator', 'i16', 'i16', 'u8', 'std::time::Instant'], 'i16', st, 'harness')
    else:
        r = ex.call(env.item('alpha_beta_start'), [sp, ex.alloc(st, ()), depth, ('instant',)],
                    ['&mut search::Search', '&evaluate::simple_evaluator::SimpleEvaluator', 'u8', 'std::time::Instant'], 'board::ply::Ply', st, 'harness')
    run.absorb(ex)
    ins = env.env['inserts']
    run.extra['inserts_observed'] = run.extra.get('inserts_observed', 0) + len(ins)
    known = known_ids(run)
    for k, i in enumerate(ins):
        site = i['where'].split('::')[-1]
        q = run.decide('%s/insert%d@%s' % (name, k, site), ex.pre + [zb(i['guard']), zb(i['aborted_below'])], kind='smt',
                       note='no cache write on a path where a nested search of this node was cut short')
        if q.verdict == 'sat':
            cut = [c for c in env.calls if 'aborted' in c and z3.is_true(q.model.eval(z3.And(zb(c['guard']), c['aborted']), model_completion=True))]
            what = ('after a nested search was cut short (%d of %d nested calls aborted, returning the dummy score 0), %s still writes a cache entry '
                    'for the node (site %s)' % (len(cut), len(env.calls), {'AB': 'alpha_beta', 'R': 'alpha_beta_start', 'Q': 'quiescence'}[kind], site))
            if 'S8' in known and kind == 'AB':
                run.known_finding('S8 alpha_beta stores a transposition-table entry although a child search was aborted (site %s)' % site)
            else:
                report(run, q, name, what)
    # the table as it is left on paths where a nested search was cut: nothing present (it was empty before; this also sees
    # writes made through a `&mut TTEntry` obtained from get_mut / entry())
    finals = [s_ for _, s_ in r[1]] if (r is not None and r[0] is X.PATHS) else ([r[1]] if r is not None else [])
    leftovers = []
    for s_ in finals:
        tt = ex.load(s_, ('S', 'board::transposition_table::TRANSPOSITION_TABLE'), ())
        ab = s_.store.get(('G', 'aborted_below'), False)
        if isinstance(tt, A.MapV):
            for k_, (pg, ent) in tt.d.items():
                leftovers.append(z3.And(zb(s_.guard), zb(ab), zb(pg)))
    if leftovers:
        q = run.decide('%s/table-left-empty-after-a-cut' % name, ex.pre + [z3.Or(*leftovers)], kind='smt',
                       note='after a cut below this node the table holds no entry written by it')
        if q.verdict == 'sat':
            report(run, q, name, 'after a nested search was cut short the table is left with an entry for the node')
    # CUT-POST: this node's own cut establishes what the contract assumes of nested cuts (the induction hypothesis is closed)
    posts = []
    for s_ in finals:
        S_ = ex.load(s_, sp.root, sp.path)
        flag = zb(ex.load(s_, S_[0].root, S_[0].path)[1])
        cut_any = z3.Or(zb(s_.store.get(('G', 'own_cut'), False)), zb(s_.store.get(('G', 'aborted_below'), False)))
        ok = z3.Not(flag)
        if contract_kind == 'weak':
            ok = z3.Or(ok, clock_seen(run, S_, env.env.get('clock_reads', []), [z3.And(zb(c['guard']), c['by_clock']) for c in env.calls if 'by_clock' in c]))
        posts.append(z3.And(zb(s_.guard), cut_any, z3.Not(ok)))
    if posts:
        q = run.decide('%s/cut-post' % name, ex.pre + [z3.Or(*posts)], kind='smt',
                       note='a cut of this node leaves the running flag cleared%s: what the contract assumes of nested cuts' % (
                           ' or a clock reading at/beyond the budget of a clocked search' if contract_kind == 'weak' else ''))
        if q.verdict == 'sat':
            report(run, q, name, 'a search that was cut short returns with the running flag still set%s: the callers cannot tell that the result is a dummy' % (
                ' and without the clock having reached the time budget' if contract_kind == 'weak' else ''))
    for ob, qq in run.check_obligations(ex, name):
        report(run, qq, name, 'panic reachable when the search is cut: %s %s' % (ob.where.split('::')[-1], ob.msg[:80]))
    # vacuity: some insert is reachable at all, and some nested abort is possible
    if ins and kind != 'Q':
        # vacuity witness: some cache write is reachable at all (one site at a time: cheap queries)
        verdict = 'unknown'
        # hints that only make the witness easier to find: nothing is cut, no limit is set
        hints = [z3.Not(c['aborted']) for c in env.calls if 'aborted' in c] + [z3.Not(z3.Bool('lim_%s_some' % n_)) for n_ in ('depth', 'nodes', 'movetime', 'wtime', 'btime', 'winc', 'binc', 'timer')]
        for i in ins:
            qv = solve.Query('%s/vacuity' % name, ex.pre + hints + [zb(i['guard'])], 'smt', 'witness')
            solve.decide(qv, 60, run.seed)
            verdict = qv.verdict
            if verdict == 'sat':
                break
        run.vacuity.append({'case': name, 'insert_reachable': verdict})
        if verdict != 'sat':
            run.inconclusive.append('%s: no insert reachable (%s)' % (name, verdict))
    if not run.samples:
        run.samples.append({'case': name, 'inserts': [i['where'].split('::')[-1] for i in ins], 'nested_calls': len(env.calls)})


def check(run, replay=None):
    if replay:
        c = json.load(open(replay))
        if isinstance(c, dict) and c.get('cmd') in ('searchcut', 'searchcmp', 'searchmates'):
            run.build()
            from . import searchreplay
            return searchreplay.replay_file(run, c)
        print('C13 counterexamples are assignments of abstract node facts and cut points; see the replay file')
        return 1
    run.build()
    if not B.check_layout(run.prog):
        run.inconclusive.append('data layout differs')
        return
    lm = B.layout_mismatch(run.prog, B.SEARCH_LAYOUT)
    if lm:
        run.inconclusive.append('data layout differs from what the harness encodes: %s' % ', '.join(lm))
        return
    run.extra['explanation'] = __doc__
    N = 2 if run.tier == 'quick' else 3
    jobs = [('AB', n) for n in range(1, N + 1)] + [('R', n) for n in range(1, N + 1)] + [('Q', n) for n in range(1, N + 1)]
    run.bounds.append('nodes with 1..%d pseudo-legal moves; any depth, window, ply; every combination of cut points (free Booleans per poll and per nested call); arbitrary limits' % N)
    run.outside += ['nodes with more moves',
                    'the effect of a bad entry on later searches (the property is about the write itself)']
    run.stubs |= {'one-level abstract game', 'nested calls: window contract or abort (returns 0; the cut guarantees what LIM-KIND establishes of limits_exceeded, no more)', 'running flag may be cleared at any poll',
                  'limits fully symbolic', 'clock free', 'cache probe returns None; inserts observed'}
    ck = cut_kind(run)
    run.extra['cut_contract'] = ck
    if ck is None:
        run.inconclusive.append('LIM-KIND: a positive answer of limits_exceeded neither clears the running flag nor is a clock-budget cut; no sound contract for nested cuts')
        return
    run.parallel(step, [j + (ck,) for j in jobs])
    from . import searchreplay
    searchreplay.confirm_on_real_engine(run, 'cut')
