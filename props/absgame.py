"""Abstract game: the environment in which the real search code (search.rs, move_orderer.rs) is executed
(DESIGN.md §4.4).  search.rs touches a position only through get_all_moves, get_filtered_moves, is_legal_move,
make_move, unmake_move, is_in_check, get_halfmove_clock, position_reached, the fields zkey / current_turn, Clone and
Evaluator::evaluate; these are answered from a finite rooted tree whose per-node facts are *symbolic*:
   in_check, repeated, fifty (Bools), static evaluation (16-bit in [-30000, 30000]), per move: legal, capture (Bools).
The transposition table is a finite map keyed by the (concrete, distinct) node keys; the clock returns fresh
non-decreasing values; the running flag is a boolean cell that the environment may clear at any poll.
"""
import itertools
import z3

from mirsym.executor import State, Fork, DIVERGE, NOT_HANDLED
from mirsym.values import *
from mirsym import models
from mirsym.models import some, NONE, ok, err, mk_option, opt_is_some, opt_val, StrV
from . import boardsym as B

INT_MODE = [True]     # scores as exact integers (z3 Int) rather than 16-bit vectors
MIN16 = -32768
MAX16 = 32767


class NodeRef:
    """the node an abstract board stands on; after a join of paths that stand on different nodes (the engine's root
    abort path returns without unmaking the move) it is a guarded choice, resolved under the path condition when used"""
    __slots__ = ('n', 'alts')

    def __init__(self, n, alts=None):
        self.n = n
        self.alts = alts          # [(cond, n)] or None

    def __repr__(self):
        return 'Node(%s)' % (self.n if self.alts is None else self.alts)

    def cases(self):
        return self.alts if self.alts is not None else [(True, self.n)]

    def ite_with(self, g, o):
        if self.alts is None and o.alts is None and self.n == o.n:
            return self
        ng = b_not(g)
        return NodeRef(None, [(b_and(g, c), n) for c, n in self.cases()] + [(b_and(ng, c), n) for c, n in o.cases()])

    def resolve(self, ex, guard):
        if self.alts is None:
            return self.n
        byn = {}
        for c, n in self.alts:
            byn[n] = b_or(byn.get(n, False), c)
        if len(byn) == 1:
            return next(iter(byn))
        s = z3.Solver()
        s.set('timeout', 20000)
        for p in ex.pre:
            s.add(p)
        s.add(zb(guard))
        live = []
        for n, c in byn.items():
            r = s.check(zb(c))
            if r != z3.unsat:
                live.append(n)
        if len(live) == 1:
            return live[0]
        raise Unsupported('abstract board stands on several possible nodes %s under the current path condition' % live)


class MapV:
    """finite map (transposition table): {concrete key: (present guard, entry value)}"""
    __slots__ = ('d',)

    def __init__(self, d=None):
        self.d = d or {}

    def ite_with(self, g, o):
        if self.d is o.d:
            return self
        out = {}
        for k in set(self.d) | set(o.d):
            a, b = self.d.get(k), o.d.get(k)
            if a is b:
                out[k] = a
            elif a is None:
                out[k] = (b_and(b_not(g), b[0]), b[1])
            elif b is None:
                out[k] = (b_and(g, a[0]), a[1])
            else:
                out[k] = (ite(g, a[0], b[0]) if a[0] is not b[0] else a[0], ite(g, a[1], b[1]))
        return MapV(out)

    # addressed like an array by the (concrete) key, so that `&mut TTEntry` handed out by get_mut / entry().or_insert()
    # points into the table and writes through it are seen
    def index_step(self, idx):
        if not isinstance(idx, CI) or idx.v not in self.d:
            raise Unsupported('table entry addressed by %r' % (idx,))
        return self.d[idx.v][1]

    def set_index_step(self, idx, newv):
        if not isinstance(idx, CI) or idx.v not in self.d:
            raise Unsupported('table entry addressed by %r' % (idx,))
        d = dict(self.d)
        d[idx.v] = (d[idx.v][0], newv)
        return MapV(d)


class Game:
    def __init__(self, branching, depth, ext_plies=(1,), qplies=1, tag='g', eval_bound=30000):
        """uniform tree.  Main search: nominal `depth`; check extensions possible at plies in ext_plies;
        captures (quiescence) possible for `qplies` plies beyond the deepest main-search ply."""
        self.B, self.depth, self.tag = branching, depth, tag
        self.ext_plies = set(ext_plies)
        self.max_main_ply = depth + len(self.ext_plies)            # deepest ply at which the main search can stand with depth 0
        self.height = self.max_main_ply + qplies
        self.nodes = []          # dict per node
        self.pre = []
        self._build(0, None, None)
        self.by_key = {n['key']: n for n in self.nodes}

    def _build(self, ply, parent, idx):
        nid = len(self.nodes)
        t = '%s%d' % (self.tag, nid)
        n = {'id': nid, 'ply': ply, 'parent': parent, 'idx': idx, 'key': 1000 + nid, 'turn': ply % 2, 'children': [], 'moves': []}
        self.nodes.append(n)
        n['in_check'] = z3.Bool(t + '_check') if (ply in self.ext_plies and ply >= 1) else False
        n['repeated'] = z3.Bool(t + '_rep') if ply >= 1 else False
        # half-move clock of the position: arbitrary, except that a position can only recur after at least four
        # reversible half-moves (chess fact, stated as an assumption of the abstract game)
        n['hmc'] = z3.BitVec(t + '_hmc', 16)
        n['fifty'] = z3.UGE(n['hmc'], 100) if ply >= 1 else False
        if ply >= 1:
            self.pre.append(z3.Implies(n['repeated'], z3.UGE(n['hmc'], 4)))
        else:
            self.pre.append(z3.ULT(n['hmc'], 100))
        n['eval'] = z3.Int(t + '_eval') if INT_MODE[0] else z3.BitVec(t + '_eval', 16)
        self.pre.append(z3.And(n['eval'] >= -30000, n['eval'] <= 30000))
        if ply < self.height:
            for i in range(self.B):
                legal = z3.Bool('%s_m%d_legal' % (t, i))
                capture = z3.Bool('%s_m%d_cap' % (t, i))
                n['moves'].append({'idx': i, 'legal': legal, 'capture': capture})
            for i in range(self.B):
                c = self._build(ply + 1, nid, i)
                n['children'].append(c)
        return nid

    # ---- values
    def board_value(self, nid):
        n = self.nodes[nid]
        return (B.color_v(n['turn']), NodeRef(nid), None, None, None, None, (CI(n['key'], 64),))

    def ply_value(self, nid, i, qlist=False):
        """move i of node nid as a Ply value.  Geometry encodes (ply of the node, index) so that moves are distinct;
        `qlist` marks entries of the capture-only list (see is_legal_move)"""
        n = self.nodes[nid]
        m = n['moves'][i]
        cap = Enum(z3.If(m['capture'], z3.BitVecVal(1, 64), z3.BitVecVal(0, 64)), {1: (B.kind_v(B.PAWN, 1 - n['turn']),), 0: ()})
        return ((CI(nid % 8, 8), CI((nid // 8) % 8, 8)), (CI(i, 8), CI(nid // 64, 8)), B.kind_v(B.KNIGHT, n['turn']), cap,
                B.opt_kind_v(None, 0), False, False, False, CI(1 if qlist else 0, 16),
                tuple(B.status_v(True) for _ in range(4)))

    def identify(self, nid, p):
        """[(cond, index)] : which move of node nid the Ply value p is (by its dest.rank)"""
        d = p[1][0]
        if isinstance(d, CI):
            return [(True, d.v)]
        return [(simp(bv(d) == i), i) for i in range(len(self.nodes[nid]['moves']))]


def install(ex, game, env):
    """env: dict with options: 'cache' (True/False), 'stop' (None | 'any'), 'clock' ('free')"""
    G = game
    TT = 'board::transposition_table::TRANSPOSITION_TABLE'

    def board_key(st):
        # paths that leave a function with the search board on different nodes (the root's abort path returns without
        # unmaking its move) are kept apart instead of merged
        out = []
        for k, v in st.store.items():
            if k[0] == 'H' and isinstance(v, tuple) and len(v) == 5 and isinstance(v[1], tuple) and len(v[1]) == 7 and isinstance(v[1][1], NodeRef):
                out.append((k, v[1][1].n if v[1][1].alts is None else -1,
                            v[2][1].n if isinstance(v[2], tuple) and isinstance(v[2][1], NodeRef) and v[2][1].alts is None else -1))
        return tuple(sorted(out))
    ex.exit_split = board_key
    ex.static_values[TT] = MapV({})
    env.setdefault('events', [])
    env.setdefault('inserts', [])
    env.setdefault('polls', 0)
    env.setdefault('clock_terms', [])

    def node_of(ctx, bp):
        b = ctx.deref(bp)
        if isinstance(b[1], Poison):
            raise Unsupported('abstract board was merged across incompatible paths: %s' % b[1].msg)
        n = b[1].resolve(ctx.ex, ctx.st.guard)
        if b[1].alts is not None:
            # write the resolved board back so that the choice is not re-decided at every use
            ctx.write(bp, G.board_value(n))
        return n

    def get_all_moves(ctx, bp):
        nid = node_of(ctx, bp)
        return Seq.of([G.ply_value(nid, i) for i in range(len(G.nodes[nid]['moves']))])
    ex.override('board::Board::get_all_moves', get_all_moves)

    def get_filtered_moves(ctx, bp, pred):
        # capture-only list: all moves, marked; non-captures are rejected by is_legal_move for marked entries
        nid = node_of(ctx, bp)
        return Seq.of([G.ply_value(nid, i, qlist=True) for i in range(len(G.nodes[nid]['moves']))])
    ex.override('board::Board::get_filtered_moves', get_filtered_moves)

    def concrete_move(ctx, nid, mv):
        ids = G.identify(nid, mv)
        if len(ids) == 1:
            return ids[0][1]
        live = [(c, i) for c, i in ids if c is not False]
        if len(live) == 1:
            return live[0][1]
        raise Unsupported('move identity is symbolic at a board call (the ordering post-hook should have split the path)')

    def is_legal_move(ctx, bp, mv):
        nid = node_of(ctx, bp)
        q = mv[8]
        isq = isinstance(q, CI) and q.v == 1
        legal = False
        # a move whose identity is symbolic (e.g. read back from the cache) is answered per candidate
        for c, i in reversed([x for x in G.identify(nid, mv) if x[0] is not False]):
            m = G.nodes[nid]['moves'][i]
            li = z3.And(m['legal'], m['capture']) if isq else m['legal']
            legal = li if c is True else ite(c, li, legal)
        return Enum(z3.If(zb(legal), z3.BitVecVal(0, 64), z3.BitVecVal(1, 64)), {0: (mv,), 1: (StrV('illegal'),)})
    ex.override('board::Board::is_legal_move', is_legal_move)

    def make_move(ctx, bp, mv):
        nid = node_of(ctx, bp)
        ids = [x for x in G.identify(nid, mv) if x[0] is not False]
        if len(ids) == 1:
            ctx.write(bp, G.board_value(G.nodes[nid]['children'][ids[0][1]]))
            return UNIT
        # symbolic identity: one path per candidate move
        def upd(i):
            def f(st):
                ctx.ex.store_to(st, bp.root, bp.path, G.board_value(G.nodes[nid]['children'][i]))
            return f
        return Fork([(c, UNIT, upd(i)) for c, i in ids])
    ex.override('board::Board::make_move', make_move)

    def unmake_move(ctx, bp):
        nid = node_of(ctx, bp)
        p = G.nodes[nid]['parent']
        if p is None:
            raise Unsupported('unmake at the root of the abstract game')
        ctx.write(bp, G.board_value(p))
        return UNIT
    ex.override('board::Board::unmake_move', unmake_move)

    def is_in_check(ctx, bp, color):
        """for the side to move: the node's own fact; for the side that has just moved: exactly when the move that led here was
        illegal (the rule is_legal_move itself applies); at the root, where no move led here, an arbitrary fact"""
        n = G.nodes[node_of(ctx, bp)]
        d = simp(color.d) if isinstance(color, Enum) else None
        own = n['in_check']
        if n['parent'] is None:
            other = env.setdefault('root_opp_in_check', z3.Bool('root_side_not_to_move_in_check'))
        else:
            other = b_not(G.nodes[n['parent']]['moves'][n['idx']]['legal'])
        if isinstance(d, CI):
            return own if d.v == n['turn'] else other
        if d is None:
            return own
        return ite(bv(d) == n['turn'], own, other)
    ex.override('board::Board::is_in_check', is_in_check)
    ex.override('board::Board::get_halfmove_clock',
                lambda ctx, bp: G.nodes[node_of(ctx, bp)]['hmc'])
    ex.override('board::Board::position_reached', lambda ctx, bp, key: G.nodes[node_of(ctx, bp)]['repeated'])
    ex.model(r'^<board::Board as std::clone::Clone>::clone$', lambda ctx, p: ctx.deref(p))
    ex.model(r'^<impl Evaluator as evaluate::Evaluator>::evaluate$', lambda ctx, ev, bp: G.nodes[node_of(ctx, bp)]['eval'])
    ex.model(r'^<evaluate::simple_evaluator::SimpleEvaluator as evaluate::Evaluator>::evaluate$',
             lambda ctx, ev, bp: G.nodes[node_of(ctx, bp)]['eval'])

    # ---- move ordering: the real MoveOrderer runs; its (possibly symbolic) pick is split into concrete cases
    def split_pick(ctx, val):
        if not isinstance(val, Enum):
            return val
        c = opt_is_some(val)
        if c is False:
            return val
        p = opt_val(val)
        d = p[1][0]
        if isinstance(d, CI):
            return val
        # every field of the picked Ply is an if-then-else over the candidate moves; re-select them per case
        cases = []
        if c is not True:
            cases.append((b_not(c), NONE))
        nmax = max(len(n['moves']) for n in G.nodes)
        for i in range(nmax):
            cond = b_and(c, simp(bv(d) == i))
            if cond is False:
                continue
            cases.append((cond, some(specialise(p, bv(d) == i))))
        return Fork(cases)
    # executed path by path: every outcome of the selection-sort comparisons is its own path with a concrete pick
    ex.no_merge(r'^<search::move_orderer::MoveOrderer as std::iter::Iterator>::next$')

    # ---- transposition table
    def rw_guard(ctx, p):
        return ok(p)
    ex.model(r'^std::sync::RwLock::<.*>::(read|write)$', rw_guard)
    ex.model(r'^<std::sync::RwLock(Read|Write)Guard<.*> as std::ops::Deref(Mut)?>::deref(_mut)?$', lambda ctx, p: ctx.deref(p) if False else p)

    def guard_deref(ctx, gp):
        # the guard value is the pointer to the map itself
        g = ctx.deref(gp) if isinstance(gp, Ptr) and not isinstance(ctx.deref(gp), MapV) else gp
        return g
    ex.model(r'^<std::sync::RwLock(Read|Write)Guard<.*> as std::ops::Deref(Mut)?>::deref(_mut)?$', guard_deref)

    def tt_get(ctx, mp, kp):
        m = ctx.deref(mp)
        k = ctx.deref(kp)[0]
        if not isinstance(k, CI):
            raise Unsupported('symbolic transposition-table key')
        if not env.get('cache', True):
            return NONE
        e = m.d.get(k.v)
        if e is None:
            return NONE
        return mk_option(e[0], ctx.ex.alloc(ctx.st, e[1]))
    ex.model(r'^std::collections::HashMap::<board::zkey::ZKey, board::transposition_table::TTEntry, .*>::get::<.*>$', tt_get)

    def tt_insert(ctx, mp, key, entry):
        m = ctx.deref(mp)
        k = key[0]
        if not isinstance(k, CI):
            raise Unsupported('symbolic transposition-table key')
        env['inserts'].append({'key': k.v, 'entry': entry, 'guard': ctx.st.guard, 'where': ctx.where,
                               'aborted_below': ctx.st.store.get(('G', 'aborted_below'), False)})
        d = dict(m.d)
        old = d.get(k.v)
        d[k.v] = (True, entry)
        ctx.write(mp, MapV(d))
        return mk_option(old[0], old[1]) if old is not None else NONE
    ex.model(r'^std::collections::HashMap::<board::zkey::ZKey, board::transposition_table::TTEntry, .*>::insert$', tt_insert)

    def tt_get_mut(ctx, mp, kp):
        m = ctx.deref(mp)
        k = ctx.deref(kp)[0]
        if not isinstance(k, CI):
            raise Unsupported('symbolic transposition-table key')
        e = m.d.get(k.v) if env.get('cache', True) else None
        if e is None:
            return NONE
        return mk_option(e[0], Ptr(mp.root, mp.path + (('i', CI(k.v, 64)),)))
    ex.model(r'^std::collections::HashMap::<board::zkey::ZKey, board::transposition_table::TTEntry, .*>::get_mut::<.*>$', tt_get_mut)

    def tt_entry(ctx, mp, key):
        k = key[0]
        if not isinstance(k, CI):
            raise Unsupported('symbolic transposition-table key')
        return ('tt_entry', mp, k.v)
    ex.model(r'^std::collections::HashMap::<board::zkey::ZKey, board::transposition_table::TTEntry, .*>::entry$', tt_entry)

    def tt_or_insert(ctx, e, entry):
        # Entry::or_insert(value): a write exactly when the key is absent (or the cache is off: then always absent)
        _, mp, k = e
        m = ctx.deref(mp)
        old = m.d.get(k) if env.get('cache', True) else None
        absent = True if old is None else b_not(old[0])
        if absent is not False:
            g = ctx.st.guard if absent is True else b_and(ctx.st.guard, absent)
            env['inserts'].append({'key': k, 'entry': entry, 'guard': g, 'where': ctx.where,
                                   'aborted_below': ctx.st.store.get(('G', 'aborted_below'), False)})
        d = dict(m.d)
        newv = entry if old is None else ite(old[0], old[1], entry)
        d[k] = (True, newv)
        ctx.write(mp, MapV(d))
        return Ptr(mp.root, mp.path + (('i', CI(k, 64)),))      # points into the table: later writes through it are seen
    ex.model(r'^std::collections::hash_map::Entry::<.*board::transposition_table::TTEntry>::or_insert$', tt_or_insert)

    def tt_clear(ctx, mp):
        ctx.write(mp, MapV({}))
        return UNIT
    ex.model(r'^std::collections::HashMap::<board::zkey::ZKey, board::transposition_table::TTEntry, .*>::clear$', tt_clear)

    # ---- running flag, clock, logging
    def atomic_new(ctx, v):
        return ('atomic', v)
    ex.model(r'^std::sync::atomic::Atomic::<bool>::new$', atomic_new)
    ex.model(r'^std::sync::Arc::<.*>::new$', lambda ctx, v: ctx.ex.alloc(ctx.st, v))
    ex.model(r'^<std::sync::Arc<.*> as std::ops::Deref>::deref$', lambda ctx, p: ctx.deref(p))
    ex.model(r'^<std::sync::Arc<.*> as std::clone::Clone>::clone$', lambda ctx, p: ctx.deref(p))

    def atomic_load(ctx, p, order):
        cell = ctx.deref(p)
        v = cell[1]
        if env.get('stop') == 'any':
            env['polls'] += 1
            s = z3.Bool('stop_at_poll_%d' % env['polls'])
            v = b_and(v, b_not(s))
            ctx.write(p, ('atomic', v))
        return v
    ex.model(r'^std::sync::atomic::Atomic::<bool>::load$', atomic_load)

    def atomic_store(ctx, p, v, order):
        ctx.write(p, ('atomic', v))
        return UNIT
    ex.model(r'^std::sync::atomic::Atomic::<bool>::store$', atomic_store)

    def instant_now(ctx):
        return ('instant',)
    ex.model(r'^std::time::Instant::now$', instant_now)

    def instant_elapsed(ctx, p):
        i = len(env['clock_terms'])
        t = z3.ZeroExt(64, z3.BitVec('elapsed_ms_%d' % i, 64))      # < 2^64 ms by construction
        prev = env['clock_terms'][-1] if env['clock_terms'] else None
        if prev is not None:
            ctx.ex.assume(z3.UGE(t, prev))
        # a summarised sub-search that was cut by the clock budget has seen the clock at or beyond that budget;
        # the clock does not run backwards
        for cond, floor in env.get('clock_floor', []):
            ctx.ex.assume(z3.Implies(zb(cond), z3.UGE(t, floor)))
        env['clock_terms'].append(t)
        env.setdefault('clock_reads', []).append((ctx.st.guard, t))
        return ('duration', t)
    ex.model(r'^std::time::Instant::elapsed$', instant_elapsed)
    ex.model(r'^std::time::Duration::as_millis$', lambda ctx, d: (ctx.deref(d) if isinstance(d, Ptr) else d)[1])

    def log(ctx, selfp, msg):
        env['events'].append(('log', ctx.st.guard, msg, ctx.where))
        return UNIT
    ex.model(r'^<search::Search as logger::Logger>::log::<.*>$', log)
    ex.model(r'^<search::Search as logger::Logger>::elog::<.*>$', log)
    from . import uci_tokens as U
    U.install(ex)
    ex.model(r'^std::slice::<impl \[std::string::String\]>::join::<&str>$', lambda ctx, p, sep: U.AbsStr(z3.Bool('joined_empty'), 'join'))


def specialise(v, cond):
    """value v under the assumption `cond`: substitute in every z3 leaf (cond is an equality `term == const`)"""
    lhs, rhs = cond.arg(0), cond.arg(1)

    def f(x):
        if isinstance(x, (z3.BitVecRef, z3.BoolRef)):
            return lift(z3.simplify(z3.substitute(x, (lhs, rhs))))
        if isinstance(x, tuple):
            return tuple(f(y) for y in x)
        if isinstance(x, Enum):
            return Enum(f(x.d), {k: f(p) for k, p in x.pay.items()})
        return x
    return f(v)


# ------------------------------------------------------------------ the Search value

def search_value(ex, st, game, limits=None, prog=None):
    """Search { running, board, original_board, limits, info } with a fresh Info and the given limits value"""
    run_cell = ex.alloc(st, ('atomic', True))
    lim = limits if limits is not None else tuple([NONE] * 8)
    killers = tuple(tuple([NONE, NONE]) for _ in range(256))
    info = (NONE, NONE, CI(0, 64), CI(0, 8), CI(0, 8), killers)
    return (run_cell, game.board_value(0), game.board_value(0), lim, info)


# ------------------------------------------------------------------ reference minimax (property statement)

def K16(v):
    return z3.IntVal(v) if INT_MODE[0] else z3.BitVecVal(v & 0xffff, 16)


def sat_neg16(x):
    return z3.If(x == K16(MIN16), K16(MAX16), -x)


def smax(a, b):
    return z3.If(a > b, a, b)


def ref_quiescence(G, nid):
    n = G.nodes[nid]
    best = n['eval']
    for m, c in zip(n['moves'], n['children']):
        usable = z3.And(m['legal'], m['capture'])
        v = sat_neg16(ref_quiescence(G, c))
        best = z3.If(z3.And(usable, v > best), v, best)
    return best


def ref_node(G, nid, depth, ply):
    """value of inner node `nid` with `depth` plies left, at distance `ply` from the root"""
    n = G.nodes[nid]
    zero = K16(0)
    if n['in_check'] is not False:
        ext = ref_expand(G, nid, depth + 1, ply)
        plain = ref_expand(G, nid, depth, ply) if depth > 0 else ref_quiescence(G, nid)
        body = z3.If(n['in_check'], ext, plain)
    else:
        body = ref_expand(G, nid, depth, ply) if depth > 0 else ref_quiescence(G, nid)
    return z3.If(z3.Or(zb(n['fifty']), zb(n['repeated'])), zero, body)


def ref_expand(G, nid, depth, ply):
    n = G.nodes[nid]
    if not n['moves']:
        raise Unsupported('reference minimax walks past the bottom of the abstract game')
    best = None
    anylegal = z3.BoolVal(False)
    for m, c in zip(n['moves'], n['children']):
        v = sat_neg16(ref_node(G, c, depth - 1, ply + 1))
        if best is None:
            best = z3.If(m['legal'], v, K16(MIN16))
        else:
            best = z3.If(z3.And(m['legal'], v > best), v, best)
        anylegal = z3.Or(anylegal, m['legal'])
    mate = K16(MIN16 + ply)
    none = z3.If(zb(n['in_check']), mate, K16(0))
    return z3.If(anylegal, best, none)


def ref_root(G, depth):
    """(value, per-move values) at the root: full width, no draw test, no extension"""
    n = G.nodes[0]
    vals = []
    for m, c in zip(n['moves'], n['children']):
        vals.append(sat_neg16(ref_node(G, c, depth - 1, 1)))
    best = K16(MIN16)
    for m, v in zip(n['moves'], vals):
        best = z3.If(z3.And(m['legal'], v > best), v, best)
    return best, vals
