"""C12 — with caching on: the cache mechanism cannot corrupt the search result (mechanism level, see "not covered").

What the property rests on (its anchors): the probe uses an entry only if its depth suffices and according to its bound
kind; the store writes a lower bound on cut-off, an upper bound if alpha was not raised, else an exact score; mate scoring.
Same one-node inductive step as C11 (searchstep.py), but WITH the transposition table active and holding an ARBITRARY entry
(or none) for the node: any score, stored depth, bound kind and stored move.  Idealisation (stated, not proved): a node has
one true value V once the remaining depth suffices; an entry whose stored depth is >= the requested depth is SOUND for V
(Exact => score == V, Lower => score <= V, Upper => score >= V); shallower entries are arbitrary garbage.
Obligations, for all windows, depths, flags, child values, entries:
   TT-AB   alpha_beta's result satisfies the window contract C(V, alpha, beta, result) -- so a sound cache never changes a
           result beyond what the window allows, a too-shallow entry is never used, bound kinds are respected;
           every entry alpha_beta writes for the node is sound for V and carries the effective depth searched;
           children are searched with proper windows and depth-1; no panic.
   TT-R    alpha_beta_start with an arbitrary root entry: best_score == max over legal moves of -v_child, best_move attains
           it (so a mated child, value MIN+1, is always preferred; a move allowing a mate in one, child value MAX-2, never
           chosen when another move avoids it), and the root entry it writes is Exact with that score.
By induction over height and over the sequence of searches (every entry present was written by this code => sound), every
result with cache on satisfies the contract for the true values; mate scores (MIN+ply) are part of V.
NOT covered (outside the claim): that real chess positions' values are depth-independent beyond mate scores (the reason the
property restricts itself to mate-level consequences); hash-key collisions; root-relative mate distances stored in the
table being reused at a different distance from the root (same position reached at another ply); the oracle comparison on
real tactical positions, which is a sampling activity and not done here.
"""
import json
import z3

from mirsym.executor import State
from mirsym.values import *
from . import absgame as A
from . import boardsym as B
from . import searchstep as SS
from .c11 import report, ref_children_max, check_calls, sneg, I

LEVEL = 'other'
MIN16, MAX16 = SS.MIN16, SS.MAX16


def sound(bound, score, V):
    return z3.And(z3.Implies(bound == 0, score == V), z3.Implies(bound == 1, score <= V), z3.Implies(bound == 2, score >= V))


def step_ab(run, n):
    name = 'TT-AB/n%d' % n
    env = SS.StepEnv(run, n, 'alpha_beta', cache_entry=True)
    ex = env.ex
    st = State()
    sp = ex.alloc(st, env.search_value(st))
    alpha, beta = z3.Int('alpha'), z3.Int('beta')
    depth = z3.BitVec('depth', 8)
    node = env.G.nodes[0]
    e = env.entry
    legal = [m['legal'] for m in node['moves']]
    cmax, anyl = ref_children_max(env, legal)
    ply = z3.BV2Int(env.ply, False)
    none = z3.If(zb(node['in_check']), I(MIN16) + ply, I(0))
    expand = z3.If(anyl, cmax, none)
    eff_depth0 = z3.And(depth == 0, z3.Not(zb(node['in_check'])))
    V = z3.If(z3.Or(zb(node['fifty']), zb(node['repeated'])), I(0), z3.If(eff_depth0, env.q, expand))
    pre0 = [alpha >= MIN16 + 1, beta <= MAX16, alpha < beta, z3.ULE(depth, 250),
            z3.Implies(z3.And(e['has'], z3.UGE(e['depth'], depth)), sound(e['bound'], e['score'], V))]
    for c in pre0:
        ex.assume(c)
    r = ex.call(env.item('alpha_beta'), [sp, ex.alloc(st, ()), alpha, beta, depth, ('instant',)],
                ['&mut search::Search', '&evaluate::simple_evaluator::SimpleEvaluator', 'i16', 'i16', 'u8', 'std::time::Instant'], 'i16', st, 'harness')
    run.absorb(ex)
    if r is None:
        run.inconclusive.append('%s: diverges' % name)
        return
    res, st2 = r
    res = ex.to_zint(res, 'i16')
    pre = ex.pre + [zb(st2.guard)]
    usable = z3.And(e['has'], z3.UGE(e['depth'], depth))
    for wn, cond in (('no-entry', z3.Not(e['has'])), ('exact', z3.And(usable, e['bound'] == 0)), ('lower', z3.And(usable, e['bound'] == 1)),
                     ('upper', z3.And(usable, e['bound'] == 2)), ('too-shallow', z3.And(e['has'], z3.ULT(e['depth'], depth)))):
        if not run.witness('%s/%s' % (name, wn), pre + [cond]):
            return
    q = run.decide('%s/contract' % name, pre + [z3.Not(SS.contract(V, alpha, beta, res))], kind='smt',
                   note='with an arbitrary (sound-if-deep-enough) cache entry, alpha_beta still satisfies the window contract w.r.t. the true value')
    if q.verdict == 'sat':
        report(run, q, name, 'with the cache on, alpha_beta violates the window contract', {'result': res, 'V': V})
    ins = [i for i in env.env['inserts'] if i['key'] == node['key']]
    others = [i for i in env.env['inserts'] if i['key'] != node['key']]
    if others:
        run.violation('%s: alpha_beta writes a cache entry under the key of another position' % name, {'case': name})
    eff = z3.If(zb(node['in_check']), depth + 1, depth)
    for k, i in enumerate(ins):
        sc, dp, bd, _ = i['entry']
        site = i['where'].split('::')[-1]
        bad = z3.Or(z3.Not(sound(bv(bd.d), ex.to_zint(sc, 'i16'), V)), bv(dp) != eff)
        q = run.decide('%s/store%d@%s' % (name, k, site), ex.pre + [zb(i['guard']), bad], kind='smt',
                       note='every entry written for the node is sound for the true value and carries the depth searched')
        if q.verdict == 'sat':
            report(run, q, name, 'alpha_beta stores an unsound cache entry (site %s)' % site,
                   {'stored_score': ex.to_zint(sc, 'i16'), 'stored_bound': bv(bd.d), 'stored_depth': bv(dp), 'V': V})
    if not ins and n > 0:
        run.inconclusive.append('%s: no cache write observed' % name)
    # the table as it is left (whatever API wrote it: insert, entry().or_insert(), get_mut): the node's entry, if it claims
    # at least the requested depth, is sound for the true value
    final_tt = ex.load(st2, ('S', 'board::transposition_table::TRANSPOSITION_TABLE'), ())
    fe = final_tt.d.get(node['key']) if isinstance(final_tt, A.MapV) else None
    if fe is not None:
        fsc, fdp, fbd, _ = fe[1]
        badf = z3.And(zb(fe[0]), z3.UGE(bv(fdp), depth), z3.Not(sound(bv(fbd.d), ex.to_zint(fsc, 'i16'), V)))
        q = run.decide('%s/table-left-sound' % name, pre + [badf], kind='smt',
                       note='the entry left in the table for the node, if at least as deep as the request, is sound for the true value')
        if q.verdict == 'sat':
            report(run, q, name, 'alpha_beta leaves an unsound cache entry for the node',
                   {'left_score': ex.to_zint(fsc, 'i16'), 'left_bound': bv(fbd.d), 'left_depth': bv(fdp), 'V': V, 'result': res})
    check_calls(run, env, name, pre, st2.guard, eff - 1)
    for ob, qq in run.check_obligations(ex, name):
        report(run, qq, name, 'panic reachable in alpha_beta with the cache on: %s %s' % (ob.where.split('::')[-1], ob.msg[:80]))
    if not run.samples:
        run.samples.append({'case': name, 'nested_calls': len(env.calls), 'stores': [i['where'].split('::')[-1] for i in ins]})


def step_root(run, n):
    name = 'TT-R/n%d' % n
    env = SS.StepEnv(run, n, 'root', ply_concrete=0, cache_entry=True)
    ex = env.ex
    st = State()
    sp = ex.alloc(st, env.search_value(st))
    depth = z3.BitVec('depth', 8)
    ex.assume(z3.And(z3.UGE(depth, 1), z3.ULE(depth, 250)))
    r = ex.call(env.item('alpha_beta_start'), [sp, ex.alloc(st, ()), depth, ('instant',)],
                ['&mut search::Search', '&evaluate::simple_evaluator::SimpleEvaluator', 'u8', 'std::time::Instant'], 'board::ply::Ply', st, 'harness')
    run.absorb(ex)
    if r is None:
        run.inconclusive.append('%s: diverges' % name)
        return
    best_ply, st2 = r
    S = ex.load(st2, sp.root, ())
    bm, bs = S[4][0], S[4][1]
    node = env.G.nodes[0]
    legal = [m['legal'] for m in node['moves']]
    cmax, anyl = ref_children_max(env, legal)
    pre = ex.pre + [zb(st2.guard), anyl]
    if not run.witness(name, pre + [env.entry['has']]):
        return
    bad = [bv(bs.d) != 1, bv(bm.d) != 1]
    if 1 in bs.pay:
        bad.append(ex.to_zint(bs.pay[1][0], 'i16') != cmax)
    if 1 in bm.pay:
        idx = bv(bm.pay[1][0][1][0])
        chosen, lg = sneg(env.v[-1]), legal[-1]
        for i in reversed(range(len(env.v) - 1)):
            chosen = z3.If(idx == i, sneg(env.v[i]), chosen)
            lg = z3.If(idx == i, legal[i], lg)
        bad += [chosen != cmax, z3.Not(lg), z3.UGE(idx, len(env.v))]
    q = run.decide('%s/exact' % name, pre + [z3.Or(*bad)], kind='smt',
                   note='cache on, arbitrary root entry: best_score == max over legal moves of -v_child and best_move attains it')
    if q.verdict == 'sat':
        report(run, q, name, 'with the cache on the root result differs from the best child value')
    ins = [i for i in env.env['inserts'] if i['key'] == node['key']]
    for k, i in enumerate(ins):
        sc, dp, bd, _ = i['entry']
        badi = z3.Or(bv(bd.d) != 0, ex.to_zint(sc, 'i16') != cmax, bv(dp) != depth)
        q = run.decide('%s/store%d' % (name, k), ex.pre + [zb(i['guard']), anyl, badi], kind='smt', note='the root entry written is Exact, the best child value, at the iteration depth')
        if q.verdict == 'sat':
            report(run, q, name, 'alpha_beta_start stores an unsound root entry')
    check_calls(run, env, name, pre, st2.guard, depth - 1)
    for ob, qq in run.check_obligations(ex, name, pre=ex.pre + [anyl]):
        report(run, qq, name, 'panic reachable at the root with the cache on: %s %s' % (ob.where.split('::')[-1], ob.msg[:80]))


def worker(run, job):
    kind, n = job
    (step_ab if kind == 'AB' else step_root)(run, n)


def check(run, replay=None):
    run.build()
    if replay:
        c = json.load(open(replay))
        if isinstance(c, dict) and c.get('cmd') in ('searchcmp', 'searchmates'):
            run.build()
            from . import searchreplay
            return searchreplay.replay_file(run, c)
        print(open(replay).read()[:3000])
        return 1
    if not B.check_layout(run.prog):
        run.inconclusive.append('data layout differs')
        return
    lm = B.layout_mismatch(run.prog, B.SEARCH_LAYOUT)
    if lm:
        run.inconclusive.append('data layout differs from what the harness encodes: %s' % ', '.join(lm))
        return
    run.extra['explanation'] = __doc__
    N = 2      # three generated moves with a symbolic stored move did not finish in 40 min (path split per candidate); stated bound
    jobs = [('AB', n) for n in range(1, N + 1)] + [('R', n) for n in range(1, N + 1)]
    run.bounds.append('one node with <= %d generated moves; arbitrary windows, depths <= 250, flags, child values and cache entry' % N)
    run.outside += ['depth-independence of real chess values beyond mate scores', 'hash-key collisions', 'mate distances reused at another distance from the root',
                    'oracle comparison on real tactical positions']
    run.stubs |= {'abstract game', 'nested searches by contract', 'transposition table as a finite map with one arbitrary entry for the node'}
    run.parallel(worker, jobs)
    from . import searchreplay
    searchreplay.confirm_on_real_engine(run, 'mates')
