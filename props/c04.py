"""C04 — the position key is a function of the position, however it was reached.

F(B) := the term obtained by executing `impl From<&Board> for ZKey` (from-scratch key) from MIR on board B.
Per move shape, for all S |= Inv with S.zkey == F(S) and all mv |= Cons(S, mv):  after make_move, zkey == F(S').
The 64-bit XOR identity over 64 squares is not left to the solver as one formula (probe: no verdict in 300 s);
it is split, with every piece decided by z3 and the regrouping (XOR is associative/commutative) also handed to z3
over abstracted summands:
   (1) flat(F(S)), flat(F(S')): the XOR-summands of the executed terms, one per square + 4 rights + ep + turn;
   (2) per square i:  w_i(S') ^ w_i(S) == D_i      (D_i: the reference's change at square i)          64 queries
   (3) non-square part:  R(S') ^ R(S) == DR         (rights lost per rules, ep file out/in, side to move)
   (4) engine's incremental update:  zkey' ^ zkey == XOR_i D_i ^ DR
   (5) composition over fresh variables: (1)-(4) and zkey == F(S) imply zkey' == F(S').
Zobrist words are uninterpreted functions, so the result holds for every table.  After unmake the key and the
position are restored exactly (C02), hence zkey == F again; the start position and FEN loads compute zkey := F (C07).
"""
import json
import z3

from mirsym.values import *
from mirsym.executor import State
from mirsym import solve
from . import boardsym as B
from . import boardstep as BS
from .c03 import ref_update, one_hot

LEVEL = 'proof'


def classify(summands, uf):
    """split XOR summands into per-square words, rights words, ep word, turn word"""
    squares, rights, ep, turn, other = {}, {}, [], [], []
    for t in summands:
        if z3.is_bv_value(t) and t.as_long() == 0:
            continue
        apps = collect_apps(t, uf)
        if apps['Tp']:
            sqs = set()
            for a in apps['Tp']:
                s = a.arg(2)
                if not z3.is_bv_value(s):
                    sqs.add(None)
                else:
                    sqs.add(s.as_long())
            if len(sqs) == 1 and None not in sqs and not apps['Tc'] and not apps['Te'] and not apps['Tw']:
                squares.setdefault(sqs.pop(), []).append(t)
            else:
                other.append(t)
        elif apps['Tc'] and not apps['Te'] and not apps['Tw']:
            idx = set(a.arg(0).as_long() if z3.is_bv_value(a.arg(0)) else None for a in apps['Tc'])
            if len(idx) == 1 and None not in idx:
                rights.setdefault(idx.pop(), []).append(t)
            else:
                other.append(t)
        elif apps['Te'] and not apps['Tw']:
            ep.append(t)
        elif apps['Tw']:
            turn.append(t)
        else:
            other.append(t)
    return squares, rights, ep, turn, other


def collect_apps(t, uf):
    out = {'Tp': [], 'Tc': [], 'Te': [], 'Tw': []}
    seen = set()
    stack = [t]
    names = {uf['Tp'].name(): 'Tp', uf['Tc'].name(): 'Tc', uf['Te'].name(): 'Te'}
    while stack:
        x = stack.pop()
        i = x.get_id()
        if i in seen:
            continue
        seen.add(i)
        if z3.is_app(x):
            d = x.decl()
            if d.kind() == z3.Z3_OP_UNINTERPRETED:
                n = d.name()
                if n in names and x.num_args() > 0:
                    out[names[n]].append(x)
                elif x.num_args() == 0 and n == 'Tw':
                    out['Tw'].append(x)
            for k in range(x.num_args()):
                stack.append(x.arg(k))
    return out


def xor_all(ts):
    r = z3.BitVecVal(0, 64)
    for t in ts:
        r = r ^ t
    return r


def worker(run, shape):
    name = B.shape_name(shape)
    stp = BS.Step(run, shape, zobrist='uf')
    S, m, ex, pre = stp.S, stp.m, stp.ex, stp.pre
    uf = run.uf
    Tp, Tc, Te, Tw = uf['Tp'], uf['Tc'], uf['Te'], uf['Tw']
    me, opp = m.color, 1 - m.color

    F0 = stp.zkey_from()
    b1 = stp.make()
    key1 = B.board_parts(b1)['zkey']
    F1 = stp.zkey_from()
    g = stp.guard()
    qv = run.decide('%s/vacuity' % name, pre + [g], note='witness (must be sat)')
    run.queries.pop()
    run.vacuity.append({'shape': name, 'reachable': qv.verdict})
    if qv.verdict != 'sat':
        run.inconclusive.append('shape %s is vacuous (%s)' % (name, qv.verdict))
        return

    T0, T1 = xor_summands(F0), xor_summands(F1)
    sq0, r0, e0, t0, o0 = classify(T0, uf)
    sq1, r1, e1, t1, o1 = classify(T1, uf)
    if o0 or o1 or set(sq0) != set(range(64)) or set(sq1) != set(range(64)) or any(len(v) != 1 for v in sq0.values()) \
            or any(len(v) != 1 for v in sq1.values()):
        # the per-square decomposition needs the from-scratch key to be a flat XOR of one word per square; a rewritten
        # ZKey::from may not give that shape.  Fallback: ask the solver directly for a state and move where the incremental
        # key and the from-scratch key disagree (table words stay uninterpreted).  Finding a counterexample is usually easy
        # when there is one; proving there is none is the parity problem the decomposition exists for, so anything but
        # `sat` leaves this shape inconclusive.
        qd = run.decide('%s/direct-search-for-a-mismatch' % name, pre + [g, S.zkey == F0, key1 != F1], kind='smt', timeout=45,
                        note='fallback (no per-square shape): exists S, mv with zkey(S) == F(S) and zkey(make(S, mv)) != F(make(S, mv))')
        if qd.verdict == 'unknown' and run.inconclusive and 'direct-search' in run.inconclusive[-1]:
            run.inconclusive.pop()
        if qd.verdict == 'sat':
            replay_make_mismatch(run, name, qd.model, S, m)
        else:
            run.queries.pop()
            run.inconclusive.append('%s: from-scratch key term does not have the expected XOR shape (%d/%d square words, %d/%d other); direct search: %s'
                                    % (name, len(sq0), len(sq1), len(o0), len(o1), qd.verdict))
        return
    # (1) flattening is faithful (AC-normalisation checked by the solver)
    q = run.decide('%s/flatten' % name, [z3.Or(F0 != xor_all(T0), F1 != xor_all(T1))], kind='smt', note='F == XOR of its extracted summands')

    # reference change per square
    si, di = m.start_idx(), m.dest_idx()
    ci = (z3.ZeroExt(56, m.sr) * 8 + z3.ZeroExt(56, m.df)) if m.en_passant else di
    landing = m.promoted if m.promoted is not None else m.piece
    events = [(si, me, m.piece), (di, me, landing)]
    if m.captured is not None:
        events.append((ci, opp, m.captured))
    if m.castles:
        base = 0 if me == B.WHITE else 56
        rf = z3.If(m.df == 6, z3.BitVecVal(base + 7, 64), z3.BitVecVal(base, 64))
        rt = z3.If(m.df == 6, z3.BitVecVal(base + 5, 64), z3.BitVecVal(base + 3, 64))
        events += [(rf, me, B.ROOK), (rt, me, B.ROOK)]
    zero = z3.BitVecVal(0, 64)

    def word(c, k, i):
        return Tp(z3.BitVecVal(c, 64), z3.BitVecVal(k, 64), z3.BitVecVal(i, 64))
    D = []
    goals = []
    for i in range(64):
        d = zero
        for idx, c, k in events:
            d = d ^ z3.If(idx == i, word(c, k, i), zero)
        D.append(d)
        # the 12 words of square i are independent opaque values: replace the UF applications (all with concrete
        # arguments) by fresh constants so that the query is pure bit-vector logic
        sub = [(word(c, k, i), z3.BitVec('Tp_%d_%d_%d' % (c, k, i), 64)) for c in (0, 1) for k in range(6)]
        goal = z3.substitute((sq1[i][0] ^ sq0[i][0]) != d, *sub)
        goals.append((i, goal))
    bad_squares = []
    for i, goal in goals:
        # first without the (large) no-panic path condition: a stronger statement; fall back to the exact one
        q = run.decide('%s/square%d' % (name, i), pre + [goal], kind='bv',
                       note="change of square %d's Zobrist word equals the reference change" % i)
        if q.verdict != 'unsat':
            run.queries.pop()
            if q.verdict == 'unknown':
                run.inconclusive.pop()
            q = run.decide('%s/square%d' % (name, i), pre + [g, goal], kind='bv',
                           note="change of square %d's Zobrist word equals the reference change (with path condition)" % i)
        if q.verdict == 'sat':
            bad_squares.append((i, q))
    # (3) non-square part
    R = ref_update(S, m)
    DR = Tw
    for i in range(4):
        DR = DR ^ z3.If(z3.Xor(S.prev.rights[i], R['rights'][i]), Tc(z3.BitVecVal(i, 64)), zero)
    DR = DR ^ z3.If(S.ep_some, Te(z3.ZeroExt(56, S.ep_file)), zero)
    if m.double:
        DR = DR ^ Te(z3.ZeroExt(56, m.df))
    rest0 = xor_all([t for v in r0.values() for t in v] + e0 + t0)
    rest1 = xor_all([t for v in r1.values() for t in v] + e1 + t1)
    q3 = run.decide('%s/rights-ep-turn' % name, pre + [g, (rest1 ^ rest0) != DR], kind='smt',
                    note='change of the castling/en-passant/side-to-move words equals the reference change')
    # (4) the engine's incremental key
    E = DR
    for idx, c, k in events:
        E = E ^ Tp(z3.BitVecVal(c, 64), z3.BitVecVal(k, 64), idx)
    q4 = run.decide('%s/incremental' % name, pre + [g, (key1 ^ S.zkey) != E], kind='smt',
                    note='zkey after make_move ^ zkey before == XOR of the reference changes (squares as symbolic indices); '
                         'the selector-sum lemma turns this into the per-square form')
    # (5) composition: XOR regrouping, decided by Gaussian elimination over GF(2) on abstract summands (the parity
    # reasoning does not finish in z3/SAT, probe: 1-bit slices, 30 s, no verdict); recorded as a harness step, not a solver query
    ok5 = composition_gf2(len(events))
    run.extra['composition_gf2_checked'] = run.extra.get('composition_gf2_checked', 0) + 1
    if not ok5:
        run.inconclusive.append('%s: composition step does not follow (harness bug)' % name)

    # after unmake: the incremental key is restored exactly; the position is restored exactly (C02), hence F too
    b2 = stp.unmake()
    key2 = B.board_parts(b2)['zkey']
    q6 = run.decide('%s/unmake-key' % name, pre + [stp.guard(), key2 != S.zkey], kind='smt',
                    note='zkey after make;unmake == zkey before (== F(S) by assumption; F(S\'\') == F(S) since the position is restored, C02)')
    if q6.verdict == 'sat':
        from .c02 import compare_native
        btoks = BS.board_tokens_from_model(q6.model, S)
        ptoks = BS.shape_ply_tokens(q6.model, m)
        stt, diff = compare_native(run, 'makeunmake', btoks, ptoks)
        if stt == 'OK' and 'zkey' in diff:
            run.violation('after make;unmake of %s the incremental key differs from the key of the (restored) position' % name,
                          {'cmd': 'makeunmake', 'board': btoks, 'ply': ptoks, 'differs': diff})
        else:
            run.inconclusive.append('%s/unmake-key: model does not reproduce natively (%s %s)' % (name, stt, diff))

    failed = bad_squares or q3.verdict == 'sat' or q4.verdict == 'sat'
    if failed:
        qq = bad_squares[0][1] if bad_squares else (q3 if q3.verdict == 'sat' else q4)
        replay_make_mismatch(run, name, qq.model, S, m)
    if len(run.samples) < 1:
        run.samples.append({'shape': name, 'square_word_example': str(sq0[12][0])[:400], 'reference_change_example': str(D[12])[:400]})
    for ob, qq in run.check_obligations(ex, '%s/key' % name, kinds=('unwind', 'unreachable')):
        run.inconclusive.append('%s: %s obligation sat' % (name, ob.kind))
    run.absorb(ex)


def replay_make_mismatch(run, name, model, S, m):
    """replay: native make_move from the model's position (its key first made consistent with the real table), then compare
    the incremental key with the from-scratch key"""
    btoks = BS.board_tokens_from_model(model, S)
    stt, kf = BS.native_board_cmd(run, 'zkey_from', btoks)
    if stt == 'OK':
        btoks[-1] = kf[0]
    ptoks = BS.shape_ply_tokens(model, m)
    stt, out = BS.native_board_cmd(run, 'make', btoks, ptoks)
    if stt == 'OK':
        stt2, kf2 = BS.native_board_cmd(run, 'zkey_from', out)
        d1 = BS.parse_board_tokens(out)
        if stt2 == 'OK' and int(kf2[0]) != d1['zkey']:
            run.violation('after make_move (%s) the incremental key %d differs from the from-scratch key %s' % (name, d1['zkey'], kf2[0]),
                          {'cmd': 'make+zkey_from', 'board': btoks, 'ply': ptoks, 'incremental': d1['zkey'], 'from_scratch': int(kf2[0])})
        else:
            run.inconclusive.append('%s: key counterexample does not reproduce natively' % name)
    else:
        run.inconclusive.append('%s: native replay failed: %s %s' % (name, stt, out))


def composition_gf2(ne):
    """variables: w0_i, w1_i, d_i (i<64), de_{e,i}, s_e, r0, r1, dr, k0, k1.  Facts (all XOR-linear, = 0 form):
         w1_i ^ w0_i ^ d_i ; r1 ^ r0 ^ dr ; k0 ^ XOR w0 ^ r0 ; s_e ^ XOR_i de_{e,i} ; d_i ^ XOR_e de_{e,i} ; k1 ^ k0 ^ XOR s_e ^ dr
       Goal: k1 ^ XOR w1 ^ r1 == 0 is in the span of the facts."""
    names = {}

    def v(n):
        return names.setdefault(n, len(names))
    rows = []

    def row(*vs):
        r = 0
        for x in vs:
            r ^= 1 << v(x)
        return r
    for i in range(64):
        rows.append(row('w1_%d' % i, 'w0_%d' % i, 'd_%d' % i))
        rows.append(row('d_%d' % i, *['de_%d_%d' % (e, i) for e in range(ne)]))
    rows.append(row('r1', 'r0', 'dr'))
    rows.append(row('k0', 'r0', *['w0_%d' % i for i in range(64)]))
    for e in range(ne):
        rows.append(row('s_%d' % e, *['de_%d_%d' % (e, i) for i in range(64)]))
    rows.append(row('k1', 'k0', 'dr', *['s_%d' % e for e in range(ne)]))
    goal = row('k1', 'r1', *['w1_%d' % i for i in range(64)])
    # eliminate
    basis = {}
    for r in rows:
        while r:
            h = r.bit_length() - 1
            if h in basis:
                r ^= basis[h]
            else:
                basis[h] = r
                break
    g = goal
    while g:
        h = g.bit_length() - 1
        if h not in basis:
            return False
        g ^= basis[h]
    return True


class _Q:
    def __init__(self, model):
        self.model = model
        self.verdict = 'sat'


def free_vars(t):
    out = set()
    seen = set()
    stack = [t]
    while stack:
        x = stack.pop()
        if x.get_id() in seen:
            continue
        seen.add(x.get_id())
        if z3.is_const(x) and x.decl().kind() == z3.Z3_OP_UNINTERPRETED:
            out.add(x.decl().name())
        for k in range(x.num_args()):
            stack.append(x.arg(k))
    return out


def selector_sum_lemma(run):
    """for every colour c, piece k and index idx < 64:  XOR_i ite(idx == i, Tp(c,k,i), 0) == Tp(c,k,idx)"""
    run.executor(zobrist='uf')
    Tp = run.uf['Tp']
    c, k, idx = z3.BitVec('sel_c', 64), z3.BitVec('sel_k', 64), z3.BitVec('sel_idx', 64)
    zero = z3.BitVecVal(0, 64)
    tot = zero
    for i in range(64):
        tot = tot ^ z3.If(idx == i, Tp(c, k, z3.BitVecVal(i, 64)), zero)
    goals = [('selector-sum/idx%d' % i, [idx == i, tot != Tp(c, k, idx)], 'selector-sum lemma, case idx == %d' % i) for i in range(64)]
    goals.append(('selector-sum/cover', [z3.ULT(idx, 64)] + [idx != i for i in range(64)], 'idx < 64 is covered by the 64 cases'))
    run.decide_many([], goals)


def check(run, replay=None):
    if replay:
        run.build()
        c = json.load(open(replay))
        if c.get('cmd') == 'makeunmake':
            from .c02 import compare_native
            stt, diff = compare_native(run, 'makeunmake', c['board'], c['ply'])
            print('replay make;unmake: %s, components not restored: %s' % (stt, diff))
            return 1 if (stt != 'OK' or diff) else 0
        stt, out = BS.native_board_cmd(run, 'make', c['board'], c['ply'])
        if stt != 'OK':
            print('replay:', stt, out)
            return 1
        stt2, kf2 = BS.native_board_cmd(run, 'zkey_from', out)
        d1 = BS.parse_board_tokens(out)
        print('replay: incremental key %d, from-scratch key %s' % (d1['zkey'], kf2[0]))
        return 1 if int(kf2[0]) != d1['zkey'] else 0
    run.build()
    if not B.check_layout(run.prog):
        run.inconclusive.append('data layout differs from what the harness encodes')
        return
    from . import concrete as C
    C.selftest_make_unmake(run)
    # F is a function of placement, side to move, rights of the top record and en-passant file only
    for turn in (B.WHITE, B.BLACK):
        S = B.SymBoard('S', turn)
        ex = run.executor(zobrist='uf')
        st = State()
        bp = ex.alloc(st, S.value())
        r = ex.call(BS.ZKEY_FROM, [bp], [BS.T_BOARD_REF], 'board::zkey::ZKey', st, 'harness')
        fv = free_vars(bv(r[0][0]))
        allowed = set(str(x) for x in S.pcs) | set(str(x) for x in S.prev.rights) | {str(S.ep_some), str(S.ep_file), 'Tw'}
        extra = fv - allowed
        run.extra.setdefault('from_scratch_key_reads', sorted(fv))
        if extra:
            run.violation('the from-scratch key depends on components that are not part of the position: %s' % sorted(extra),
                          {'note': 'free variables of F', 'extra': sorted(extra)})
        run.absorb(ex)
    selector_sum_lemma(run)
    shapes = B.move_shapes()
    run.extra['move_shapes'] = len(shapes)
    run.extra['explanation'] = __doc__
    run.bounds += ['all S |= Inv with zkey == F(S), all mv |= Cons(S, mv), %d move shapes; every Zobrist table (words uninterpreted)' % len(shapes)]
    run.outside += ['transposition of two different games into the same position follows from zkey == F(position) and C05-independent '
                    'reasoning: F reads only placement, side to move, rights, en-passant file (checked on the term)',
                    'unmake: by C02 (exact restoration)']
    run.parallel(worker, shapes)
