"""Whole-search runs of the real Search::search on a small abstract game (absgame.py), with symbolic limits.
Used by C09 (exactly one legal bestmove whatever the limits) and C14 (progress reports)."""
import z3

from mirsym.executor import State
from mirsym.values import *
from mirsym.models import some, NONE
from . import absgame as A


def limits_value(spec):
    """spec: dict field -> None | ('some', term) ; fields: depth nodes movetime wtime btime winc binc"""
    def opt(x):
        if x is None:
            return NONE
        return some(x)
    order = ['depth', 'nodes', 'movetime', 'wtime', 'btime', 'winc', 'binc']
    return tuple(opt(spec.get(k)) for k in order) + (NONE,)


def run(run_, game, env, max_depth, limits, prune_asserts=False):
    """execute Search::search(&mut search, &SimpleEvaluator, max_depth) ; returns (ex, result, search_ptr)"""
    ex = run_.executor()
    A.install(ex, game, env)
    if A.INT_MODE[0]:
        ex.int_types = {'i16'}
    for c in game.pre:
        ex.assume(c)
    if prune_asserts:
        ex.enable_pruning(timeout_ms=1000)
        ex.prune_mode = 'asserts'
    # where a log line comes from (bestmove: iter_deep, info: log_uci_info) and with which arguments
    env['info_lines'] = []

    def log_uci_info(ctx, sp, depth, t, pv):
        S = ctx.deref(sp)
        env['info_lines'].append({'depth': depth, 'guard': ctx.st.guard, 'pv': ctx.deref(pv) if isinstance(pv, Ptr) else pv,
                                  'best_score': S[4][1], 'seldepth': S[4][4], 'nodes': S[4][2], 'order': len(env['events'])})
        return NOT_HANDLED_
    from mirsym.executor import NOT_HANDLED as NOT_HANDLED_
    ex.model(r'^search::Search::log_uci_info$', log_uci_info)
    st = State()
    sp = ex.alloc(st, A.search_value(ex, st, game, limits))
    callee = None
    for n, it in run_.prog.items.items():
        if it.kind == 'fn' and n.endswith('::search') and n.startswith('search::<impl') and len(it.args) == 3:
            callee = n
    md = NONE if max_depth is None else some(max_depth)
    r = ex.call(callee, [sp, ex.alloc(st, ()), md],
                ['&mut search::Search', '&evaluate::simple_evaluator::SimpleEvaluator', 'std::option::Option<u8>'], '()', st, 'harness')
    from mirsym import executor as X
    if r is not None and r[0] is X.PATHS:
        # paths that end with the search board on different nodes: join them for the final inspection (the board
        # component becomes unusable, nothing reads it afterwards)
        r = (UNIT, X.merge_arrivals([s for _, s in r[1]]))
    return ex, r, sp
