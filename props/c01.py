"""C01 — legal move generation and check status are exactly the rules of chess.

Lemmas, each decided by z3 over all inputs of its domain (DESIGN.md §5 C01):
 L0  Vec<Square>::from(Bitboard) lists the set bits in ascending order (inductive identity + bounded direct check).
 L2  get_attacked_squares / is_in_check == reference computed from each target square outward, for all S |= I1, I2.
 L3  castling_ability == reference (turn, right, empty squares between, king path not attacked).
 L4  per piece kind, colour and square: Kind::get_moveset == the reference pseudo-legal records from that square
     (as a bag: sound, complete, duplicate-free), for all S |= Inv with that piece on that square.
 L5  get_all_moves visits squares 0..63, expands exactly the side to move's pieces, and fills captured_piece with the
     content of the destination (or the en-passant victim square).
 L6  is_legal_move(mv) is Err exactly when is_in_check(mover colour) holds in the position after make_move.
 L7  get_legal_moves == get_all_moves filtered by is_legal_move.
Slider lookups are replaced by the ray-walk reference they were proven equal to in C06 (summary), L0's summary is used in L4.
Composition (not solver-checked, stated here): L4+L5 => pseudo-legal set exact and duplicate-free; C03 (make_move == rules
update) + L2 + L6 => legality predicate exact; +L7 => legal set exact; empty legal set /\\ L2 => checkmate / stalemate exact.
"""
import json
import z3

from mirsym.executor import State, DIVERGE
from mirsym.values import *
from mirsym import native, solve, models
from mirsym.harness import bb
from . import boardsym as B
from . import boardstep as BS
from . import chessref as R
from . import chessref_concrete as CC

LEVEL = 'proof'

ROOK_GA = '<board::piece::rook::Rook as board::piece::Magic>::get_attacks'
BISHOP_GA = '<board::piece::bishop::Bishop as board::piece::Magic>::get_attacks'
VEC_FROM_BB = '<std::vec::Vec<board::square::Square> as std::convert::From<board::bitboard::Bitboard>>::from'
T_BOARD = '&board::Board'
T_COLOR = 'board::piece::Color'
T_KIND = 'board::piece::Kind'
T_SQ = 'board::square::Square'
T_BB = 'board::bitboard::Bitboard'


def install_slider_summary(ex, run):
    def slider(dirs):
        def f(ctx, sq, blockers):
            if not (isinstance(sq[0], CI) and isinstance(sq[1], CI)):
                raise Unsupported('slider summary needs a concrete square')
            return (R.slider_ref(sq[0].v * 8 + sq[1].v, bv(blockers[0]), dirs),)
        return f
    ex.override(ROOK_GA, slider(R.ROOK_DIRS))
    ex.override(BISHOP_GA, slider(R.BISHOP_DIRS))
    run.stubs.add('Rook/Bishop::get_attacks replaced by the ray-walk reference (equality for every square and occupancy is C06)')


def install_bitlist_summary(ex, run):
    def f(ctx, b):
        x = bv(b[0])
        return Seq(tuple((z3.Extract(i, i, x) == 1, (CI(i >> 3, 8), CI(i & 7, 8))) for i in range(64)))
    ex.override(VEC_FROM_BB, f)
    run.stubs.add('Vec<Square>::from(Bitboard) replaced by "set bits in ascending order" (lemma L0)')


# ------------------------------------------------------------------ references (symbolic)

def ref_attacked(S, by):
    """64-bit set of squares attacked by colour `by`, computed from each target square outward"""
    res = z3.BitVecVal(0, 64)
    occ = S.all
    P = lambda k: S.bbset(k, by)
    for t in range(64):
        r0, f0 = divmod(t, 8)
        conds = []
        for dr, df in R.KNIGHT_DELTAS:
            r, f = r0 + dr, f0 + df
            if 0 <= r < 8 and 0 <= f < 8:
                conds.append(R.bit(P(B.KNIGHT), r * 8 + f))
        for dr, df in R.KING_DELTAS:
            r, f = r0 + dr, f0 + df
            if 0 <= r < 8 and 0 <= f < 8:
                conds.append(R.bit(P(B.KING), r * 8 + f))
        pr = r0 - 1 if by == B.WHITE else r0 + 1
        for df in (-1, 1):
            f = f0 + df
            if 0 <= pr < 8 and 0 <= f < 8:
                conds.append(R.bit(P(B.PAWN), pr * 8 + f))
        for dirs, kinds in ((R.ROOK_DIRS, (B.ROOK, B.QUEEN)), (R.BISHOP_DIRS, (B.BISHOP, B.QUEEN))):
            for dr, df in dirs:
                r, f = r0 + dr, f0 + df
                clear = z3.BoolVal(True)
                while 0 <= r < 8 and 0 <= f < 8:
                    s = r * 8 + f
                    conds.append(z3.And(clear, z3.Or(*[R.bit(P(k), s) for k in kinds])))
                    clear = z3.And(clear, z3.Not(R.bit(occ, s)))
                    r += dr
                    f += df
        res = res | z3.If(z3.Or(*conds), R.sqbit(t), z3.BitVecVal(0, 64))
    return res


def ref_records(S, kind, color, sq, castle_flags):
    """{record tuple (sr,sf,dr,df,promo,castles,ep,double): z3 condition} for the piece (kind,color) on concrete sq"""
    own = S.white if color == B.WHITE else S.black
    opp = S.black if color == B.WHITE else S.white
    r0, f0 = divmod(sq, 8)
    out = {}

    def add(t, cond, promo=-1, castles=0, ep=0, dbl=0):
        key = (r0, f0, t // 8, t % 8, promo, castles, ep, dbl)
        out[key] = z3.Or(out[key], cond) if key in out else cond
    if kind in (B.KNIGHT, B.KING):
        for dr, df in (R.KNIGHT_DELTAS if kind == B.KNIGHT else R.KING_DELTAS):
            r, f = r0 + dr, f0 + df
            if 0 <= r < 8 and 0 <= f < 8:
                add(r * 8 + f, z3.Not(R.bit(own, r * 8 + f)))
        if kind == B.KING:
            home = 4 if color == B.WHITE else 60
            if sq == home:
                ks, qs = (0, 1) if color == B.WHITE else (2, 3)
                add(home + 2, castle_flags[ks], castles=1)
                add(home - 2, castle_flags[qs], castles=1)
    elif kind == B.PAWN:
        fwd = 1 if color == B.WHITE else -1
        last = 7 if color == B.WHITE else 0
        homer = 1 if color == B.WHITE else 6
        epr = 4 if color == B.WHITE else 3

        def addp(t, cond, **kw):
            if t // 8 == last:
                for pr in (B.QUEEN, B.ROOK, B.KNIGHT, B.BISHOP):
                    add(t, cond, promo=pr)
            else:
                add(t, cond, **kw)
        r = r0 + fwd
        if 0 <= r < 8:
            for df in (-1, 1):
                f = f0 + df
                if 0 <= f < 8:
                    addp(r * 8 + f, R.bit(opp, r * 8 + f))
            t1 = r * 8 + f0
            addp(t1, z3.Not(R.bit(S.all, t1)))
            if r0 == homer:
                t2 = (r + fwd) * 8 + f0
                add(t2, z3.And(z3.Not(R.bit(S.all, t1)), z3.Not(R.bit(S.all, t2))), dbl=1)
            if r0 == epr:
                for df in (-1, 1):
                    f = f0 + df
                    if 0 <= f < 8:
                        add(r * 8 + f, z3.And(S.ep_some, S.ep_file == f), ep=1)
    else:
        dirs = (R.ROOK_DIRS if kind in (B.ROOK, B.QUEEN) else []) + (R.BISHOP_DIRS if kind in (B.BISHOP, B.QUEEN) else [])
        for dr, df in dirs:
            r, f = r0 + dr, f0 + df
            clear = z3.BoolVal(True)
            while 0 <= r < 8 and 0 <= f < 8:
                t = r * 8 + f
                add(t, z3.And(clear, z3.Not(R.bit(own, t))))
                clear = z3.And(clear, z3.Not(R.bit(S.all, t)))
                r += dr
                f += df
    return out


def record_of_value(p):
    """(record tuple, other-fields dict) of a Ply value whose geometry is concrete"""
    def c(x):
        x = simp(x) if not isinstance(x, (CI, bool)) else x
        if isinstance(x, CI):
            return x.v
        if isinstance(x, bool):
            return int(x)
        raise Unsupported('move record with symbolic geometry')
    promo = -1
    if c(p[4].d) == 1:
        promo = c(p[4].pay[1][0].d)
    rec = (c(p[0][0]), c(p[0][1]), c(p[1][0]), c(p[1][1]), promo, c(p[5]), c(p[6]), c(p[7]))
    kind = c(p[2].d)
    color = c(p[2].pay[kind][0].d)
    cap = None
    if c(p[3].d) == 1:
        ck = c(p[3].pay[1][0].d)
        cap = (ck, c(p[3].pay[1][0].pay[ck][0].d))
    promo_color = c(p[4].pay[1][0].pay[promo][0].d) if promo >= 0 else None
    return rec, {'kind': kind, 'color': color, 'captured': cap, 'promo_color': promo_color}


# ------------------------------------------------------------------ lemmas

def lemma_L0(run):
    x = z3.BitVec('m', 64)
    ex = run.executor()
    st = State()
    # the trailing_zeros model on a symbolic word
    r = ex.call('core::num::<impl u64>::trailing_zeros', [x], ['u64'], 'u32', st, 'harness')
    tz = z3.ZeroExt(32, bv(r[0]))
    low = (z3.BitVecVal(1, 64) << tz)
    run.decide('L0/step-identity', [x != 0, z3.Or(z3.UGE(tz, 64), (x & low) == 0, (x & (low - 1)) != 0, (x & (x - 1)) != (x ^ low))], kind='bv',
               note='m != 0 => tz(m) < 64, bit tz(m) set, no lower bit set, m & (m-1) == m without that bit')
    # bounded direct check on the real loop
    K = 6 if run.tier == 'quick' else 16
    ex = run.executor()
    ex.loop_bound = 70
    b = z3.BitVec('bits', 64)
    st = State()
    r = ex.call(VEC_FROM_BB, [bb(b)], [T_BB], 'std::vec::Vec<board::square::Square>', st, 'harness')
    run.absorb(ex)
    seq, st2 = r
    pc = models.popcount_term(b)
    for k in range(min(K, len(seq.ents))):
        g, sqv = seq.ents[k]
        idx = z3.ZeroExt(56, bv(sqv[0])) * 8 + z3.ZeroExt(56, bv(sqv[1]))
        below = b & ((z3.BitVecVal(1, 64) << idx) - 1)
        spec = z3.And(z3.ULT(idx, 64), ((b >> idx) & 1) == 1, models.popcount_term(below) == k)
        run.decide('L0/entry%d' % k, [z3.Or(zb(g) != z3.UGT(pc, k), z3.And(zb(g), z3.Not(spec)))], kind='bv',
                   note='entry %d of Vec<Square>::from(b) exists iff popcount(b) > %d and is the %d-th lowest set bit' % (k, k, k))
    run.extra['L0_entries_checked_directly'] = min(K, len(seq.ents))
    run.extra['L0_loop_entries'] = len(seq.ents)
    for ob, qq in run.check_obligations(ex, 'L0', pre=[]):
        run.inconclusive.append('L0 obligation sat: %s' % ob)


def native_attacked(run, model, S, color):
    btoks = BS.board_tokens_from_model(model, S)
    stt, out = BS.native_board_cmd(run, 'attacked', btoks, [str(color)])
    d = BS.parse_board_tokens(btoks)
    want = CC.mask_of(CC.attacked_by(CC.mailbox(d), 1 - color))
    return btoks, stt, out, want


def lemma_L2(run, item):
    turn, color = item
    S = B.SymBoard('S', turn)
    pre = S.inv()
    ex = run.executor()
    install_slider_summary(ex, run)
    install_bitlist_summary(ex, run)
    for c in pre:
        ex.assume(c)
    st = State()
    bp = ex.alloc(st, S.value())
    r = ex.call('board::Board::get_attacked_squares', [bp, B.color_v(color)], [T_BOARD, T_COLOR], T_BB, st, 'harness')
    val, st2 = r
    ref = ref_attacked(S, 1 - color)
    name = 'L2/%s-to-move/attacks-on-%s' % ('w' if turn == 0 else 'b', 'white' if color == 0 else 'black')
    q = run.decide(name, pre + [bv(val[0]) != ref], note='get_attacked_squares == reference (target-outward) for all positions')
    if q.verdict == 'sat':
        btoks, stt, out, want = native_attacked(run, q.model, S, color)
        if stt == 'OK' and int(out[0]) != want:
            run.violation('squares attacked (seen from %s) are %#x, rules say %#x' % ('white' if color == 0 else 'black', int(out[0]), want),
                          {'cmd': 'attacked', 'board': btoks, 'color': color, 'expected': want})
        else:
            run.inconclusive.append('%s: model does not reproduce natively (%s)' % (name, stt))
    r2 = ex.call('board::Board::is_in_check', [bp, B.color_v(color)], [T_BOARD, T_COLOR], 'bool', st2, 'harness')
    chk, st3 = r2
    king = S.bbset(B.KING, color)
    q = run.decide(name + '/is_in_check', pre + [zb(chk) != ((king & ref) != 0)], note='is_in_check(colour) <=> that king stands on an attacked square')
    if q.verdict == 'sat':
        btoks = BS.board_tokens_from_model(q.model, S)
        stt, out = BS.native_board_cmd(run, 'incheck', btoks, [str(color)])
        d = BS.parse_board_tokens(btoks)
        mb = CC.mailbox(d)
        ks = [s for s, v in mb.items() if v == (B.KING, color)]
        want = int(bool(ks) and ks[0] in CC.attacked_by(mb, 1 - color))
        if stt == 'OK' and int(out[0]) != want:
            run.violation('is_in_check(%s) answers %s, rules say %d' % ('white' if color == 0 else 'black', out[0], want),
                          {'cmd': 'incheck', 'board': btoks, 'color': color, 'expected': want})
        else:
            run.inconclusive.append('%s/is_in_check: model does not reproduce natively' % name)
    for ob, qq in run.check_obligations(ex, name):
        btoks = BS.board_tokens_from_model(qq.model, S)
        stt, out = BS.native_board_cmd(run, 'attacked', btoks, [str(color)])
        if stt == 'PANIC':
            run.violation('get_attacked_squares panics: %s' % out, {'cmd': 'attacked', 'board': btoks, 'color': color})
        else:
            run.inconclusive.append('%s: %s obligation sat, not reproduced' % (name, ob.kind))
    run.absorb(ex)


def ref_castling(S, kind_idx):
    """reference: (is_err, available) for castling kind 0..3 in position S"""
    owner = B.WHITE if kind_idx < 2 else B.BLACK
    base = 0 if owner == B.WHITE else 56
    if kind_idx % 2 == 0:
        empty = [base + 5, base + 6]
        safe = [base + 4, base + 5, base + 6]
    else:
        empty = [base + 1, base + 2, base + 3]
        safe = [base + 2, base + 3, base + 4]
    att = ref_attacked(S, 1 - S.turn)
    ok = z3.And(S.prev.rights[kind_idx], *[z3.Not(R.bit(S.all, s)) for s in empty], *[z3.Not(R.bit(att, s)) for s in safe])
    return (owner != S.turn), ok


def lemma_L3(run, item):
    turn, kidx = item
    S = B.SymBoard('S', turn)
    pre = S.inv()
    ex = run.executor()
    install_slider_summary(ex, run)
    install_bitlist_summary(ex, run)
    for c in pre:
        ex.assume(c)
    st = State()
    bp = ex.alloc(st, S.value())
    kv = Enum(kidx, {i: () for i in range(4)})
    r = ex.call('board::Board::castling_ability', [bp, kv], [T_BOARD, 'board::ply::castling::CastlingKind'],
                'std::result::Result<board::ply::castling::CastlingStatus, &str>', st, 'harness')
    res, st2 = r
    is_err, ok = ref_castling(S, kidx)
    name = 'L3/%s-to-move/kind%d' % ('w' if turn == 0 else 'b', kidx)
    d = bv(res.d)
    if is_err:
        bad = d != 1
    else:
        status = bv(res.pay[0][0].d) if 0 in res.pay else None
        bad = z3.Or(d != 0, (status == 0) != ok)
    q = run.decide(name, pre + [bad], note='castling_ability == reference (turn, right, empty squares, unattacked king path)')
    if q.verdict == 'sat':
        btoks = BS.board_tokens_from_model(q.model, S)
        stt, out = BS.native_board_cmd(run, 'castling_ability', btoks, [str(kidx)])
        dd = BS.parse_board_tokens(btoks)
        mb = CC.mailbox(dd)
        owner = 0 if kidx < 2 else 1
        want_err = int(owner != turn)
        home = 4 if owner == 0 else 60
        rights = dd['history'][-1]['rights']
        att = CC.attacked_by(mb, 1 - turn)
        if kidx % 2 == 0:
            okc = rights[kidx] == 0 and all(x not in mb for x in (home + 1, home + 2)) and not any(x in att for x in (home, home + 1, home + 2))
        else:
            okc = rights[kidx] == 0 and all(x not in mb for x in (home - 1, home - 2, home - 3)) and not any(x in att for x in (home, home - 1, home - 2))
        want = [str(want_err), '0' if (want_err or okc) else '1'] if not want_err else ['1', '0']
        if stt == 'OK' and out != want:
            run.violation('castling_ability(kind %d) gives %s, rules give %s' % (kidx, out, want),
                          {'cmd': 'castling_ability', 'board': btoks, 'kind': kidx, 'expected': want})
        else:
            run.inconclusive.append('%s: model does not reproduce natively (%s %s / %s)' % (name, stt, out, want))
    for ob, qq in run.check_obligations(ex, name):
        run.inconclusive.append('%s: %s obligation sat' % (name, ob.kind))
    run.absorb(ex)


def lemma_L4(run, item):
    kind, color, sq = item
    S = B.SymBoard('S', color)       # the piece belongs to the side to move (L5 only expands those)
    pre = S.inv() + [R.bit(S.bbset(kind, color), sq)]
    ex = run.executor()
    install_slider_summary(ex, run)
    install_bitlist_summary(ex, run)
    flags = [z3.Bool('castle_ok_%d' % i) for i in range(4)]

    def castling_ability(ctx, bp, k):
        i = k.d.v
        owner = B.WHITE if i < 2 else B.BLACK
        if owner != S.turn:
            return Enum(1, {1: (models.StrV('Cannot castle when it is not your turn.'),)})
        return Enum(0, {0: (B.status_v(flags[i]),)})
    ex.override('board::Board::castling_ability', castling_ability)
    for c in pre:
        ex.assume(c)
    st = State()
    bp = ex.alloc(st, S.value())
    r = ex.call('board::piece::Kind::get_moveset', [B.kind_v(kind, color), (CI(sq >> 3, 8), CI(sq & 7, 8)), bp], [T_KIND, T_SQ, T_BOARD],
                'std::vec::Vec<board::ply::Ply>', st, 'harness')
    name = 'L4/%s-%s/sq%d' % ('w' if color == 0 else 'b', B.KIND_NAMES[kind].lower(), sq)
    if r is None:
        run.inconclusive.append('%s: get_moveset diverges' % name)
        return
    seq, st2 = r
    ref = ref_records(S, kind, color, sq, flags)
    eng = {}
    field_bad = []
    for g, p in seq.ents:
        if g is False:
            continue
        rec, other = record_of_value(p)
        eng.setdefault(rec, []).append(zb(g))
        want_cap = (B.PAWN, 1 - color) if rec[6] else None
        if other['kind'] != kind or other['color'] != color or other['captured'] != want_cap or (rec[4] >= 0 and other['promo_color'] != color):
            field_bad.append(zb(g))
    bad = list(field_bad)
    for rec in set(eng) | set(ref):
        e = z3.Or(*eng[rec]) if rec in eng else z3.BoolVal(False)
        rr = ref.get(rec, z3.BoolVal(False))
        bad.append(e != rr)
        gs = eng.get(rec, [])
        for i in range(len(gs)):
            for j in range(i + 1, len(gs)):
                bad.append(z3.And(gs[i], gs[j]))
    q = run.decide(name, pre + [zb(st2.guard), z3.Or(*bad)], note='engine records == reference pseudo-legal records (sound, complete, no duplicates)')
    if q.verdict == 'sat':
        btoks = BS.board_tokens_from_model(q.model, S)
        d = BS.parse_board_tokens(btoks)
        stt, out = BS.native_board_cmd(run, 'moveset', btoks, [str(kind), str(color), str(sq >> 3), str(sq & 7)])
        if stt == 'OK':
            from .concrete import parse_plies, ply_from_tokens
            got = sorted(CC.ply_key(ply_from_tokens(t)) for t in parse_plies(out))
            # castling flags in the model decide the reference's castling records: recompute with the real rule
            want = sorted(CC.pseudo_moves_from(d, sq))
            if kind == B.KING:
                # castling_ability was abstracted; compare non-castling records only here (castling is L3)
                got_nc = [x for x in got if not x[5]]
                want_nc = [x for x in want if not x[5]]
                differ = got_nc != want_nc
            else:
                differ = got != want
            if differ:
                run.violation('moves of the %s on square %d: engine %s, rules %s' % (B.KIND_NAMES[kind], sq, got, want),
                              {'cmd': 'moveset', 'board': btoks, 'kind': kind, 'color': color, 'square': sq})
            else:
                run.inconclusive.append('%s: model does not reproduce natively' % name)
        elif stt == 'PANIC':
            run.violation('get_moveset panics: %s' % out, {'cmd': 'moveset', 'board': btoks, 'kind': kind, 'color': color, 'square': sq})
        else:
            run.inconclusive.append('%s: native replay failed %s' % (name, out))
    for ob, qq in run.check_obligations(ex, name):
        btoks = BS.board_tokens_from_model(qq.model, S)
        stt, out = BS.native_board_cmd(run, 'moveset', btoks, [str(kind), str(color), str(sq >> 3), str(sq & 7)])
        if stt == 'PANIC':
            run.violation('get_moveset panics: %s' % out, {'cmd': 'moveset', 'board': btoks, 'kind': kind, 'color': color, 'square': sq})
        else:
            run.inconclusive.append('%s: %s obligation sat, not reproduced' % (name, ob.kind))
    if len(run.samples) < 1:
        run.samples.append({'case': name, 'engine_records': len(eng), 'reference_records': len(ref)})
    run.absorb(ex)


def content_code(S, s):
    """reference content of concrete square s as (is_occupied, kind term, colour term)"""
    occ = R.bit(S.all, s)
    kind = z3.BitVecVal(0, 64)
    col = z3.BitVecVal(0, 64)
    for c in (0, 1):
        for k in range(6):
            b = R.bit(S.bbset(k, c), s)
            kind = z3.If(b, z3.BitVecVal(k, 64), kind)
            col = z3.If(b, z3.BitVecVal(c, 64), col)
    return occ, kind, col


def lemma_L5(run, turn):
    S = B.SymBoard('S', turn)
    pre = S.inv()
    ex = run.executor()
    for c in pre:
        ex.assume(c)
    calls = []

    def get_moveset(ctx, kindv, sqv, bp):
        i = len(calls)
        ents = []
        for j in range(1 if run.tier == 'quick' else 2):
            p = B.SymPly('gm%d_%d' % (i, j), piece=0, color=0, free_flags=True)
            val = list(p.value())
            val[0] = sqv
            val[2] = kindv
            g = z3.Bool('gm%d_%d_present' % (i, j))
            ex.assume(z3.And(*p.in_range()))
            ents.append((g, tuple(val), p))
        calls.append({'kind': kindv, 'sq': sqv, 'guard': ctx.st.guard, 'ents': ents, 'board_ptr': bp})
        return Seq(tuple((g, v) for g, v, _ in ents))
    ex.override('board::piece::Kind::get_moveset', get_moveset)
    ex.enable_pruning(timeout_ms=2000)
    st = State()
    bp = ex.alloc(st, S.value())
    r = ex.call('board::Board::get_all_moves', [bp], [T_BOARD], 'std::vec::Vec<board::ply::Ply>', st, 'harness')
    out, st2 = r
    tn = 'w' if turn == 0 else 'b'
    own = S.white if turn == B.WHITE else S.black
    groups = []      # (label, [bad conditions])
    # calls: exactly the squares 0..63 in order whose content is a piece of the side to move, with that piece as receiver
    sqs = []
    for c in calls:
        if not (isinstance(c['sq'][0], CI) and isinstance(c['sq'][1], CI)):
            raise Unsupported('get_moveset called with a symbolic square')
        s = c['sq'][0].v * 8 + c['sq'][1].v
        sqs.append(s)
        occ, kind, col = content_code(S, s)
        bad = [zb(c['guard']) != R.bit(own, s)]
        kd = bv(c['kind'].d)
        kc = None
        for i in sorted(c['kind'].pay):
            t = bv(c['kind'].pay[i][0].d)
            kc = t if kc is None else z3.If(kd == i, t, kc)
        bad.append(z3.And(zb(c['guard']), z3.Or(kd != kind, kc != col)))
        groups.append(('call-sq%d' % s, bad))
    if sqs != list(range(64)):
        run.violation('get_all_moves does not visit squares 0..63 in order: %s' % sqs[:70], {'squares': sqs})
    # output entries
    expect = []
    for c in calls:
        for g, v, p in c['ents']:
            expect.append((z3.And(zb(c['guard']), g), v, p))
    outs = [e for e in out.ents if e[0] is not False]
    if len(outs) != len(expect):
        run.violation('get_all_moves returns %d guarded entries for %d produced by the pieces' % (len(outs), len(expect)), {'n_out': len(outs), 'n_expected': len(expect)})
    else:
        for n_, ((og, ov), (eg, ev, p)) in enumerate(zip(outs, expect)):
            bad = [zb(og) != eg]
            # geometry unchanged
            for a, b_ in ((ov[0][0], ev[0][0]), (ov[0][1], ev[0][1]), (ov[1][0], ev[1][0]), (ov[1][1], ev[1][1])):
                bad.append(z3.And(eg, bv(a) != bv(b_)))
            # captured_piece == content of dest, or of (start.rank, dest.file) for en passant
            cap_rank = z3.If(p.en_passant, bv(ev[0][0]), p.dr)
            idx = z3.ZeroExt(56, cap_rank) * 8 + z3.ZeroExt(56, p.df)
            occ = B.bit_at(S.all, idx)
            cap = ov[3]
            bad.append(z3.And(eg, (bv(cap.d) == 1) != occ))
            if 1 in cap.pay:
                ck = cap.pay[1][0]
                ckd = bv(ck.d)
                for c_ in (0, 1):
                    for k in range(6):
                        holds = B.bit_at(S.bbset(k, c_), idx)
                        ccol = None
                        for i in sorted(ck.pay):
                            t = bv(ck.pay[i][0].d)
                            ccol = t if ccol is None else z3.If(ckd == i, t, ccol)
                        bad.append(z3.And(eg, holds, z3.Or(ckd != k, ccol != c_)))
            groups.append(('entry%d' % n_, bad))
    q = None
    for label, bad in groups:
        qq = run.decide('L5/%s-to-move/%s' % (tn, label), pre + ex.pre[len(pre):] + [z3.Or(*bad)],
                        note='get_all_moves: visits 0..63, expands exactly own pieces with the right receiver, sets captured_piece to the victim square content')
        if qq.verdict == 'sat' and q is None:
            q = qq
    class _N:
        verdict = 'unsat'
    q = q or _N()
    if q.verdict == 'sat':
        btoks = BS.board_tokens_from_model(q.model, S)
        stt, outp = BS.native_board_cmd(run, 'allmoves', btoks)
        d = BS.parse_board_tokens(btoks)
        if stt == 'OK':
            from .concrete import parse_plies, ply_from_tokens
            got = [ply_from_tokens(t) for t in parse_plies(outp)]
            mb = CC.mailbox(d)
            want = []
            for s, (k, c) in sorted(mb.items()):
                if c == turn:
                    want += CC.pseudo_moves_from(d, s)
            wrong_cap = [p for p in got if (mb.get((p['sr'] if p['ep'] else p['dr']) * 8 + p['df'], (-1, None))[0] != p['cap'])]
            if sorted(CC.ply_key(p) for p in got) != sorted(want) or wrong_cap:
                run.violation('get_all_moves disagrees with the rules (L5 model): %d moves vs %d, %d with wrong captured piece'
                              % (len(got), len(want), len(wrong_cap)), {'cmd': 'allmoves', 'board': btoks})
            else:
                run.inconclusive.append('L5 model does not reproduce natively')
        else:
            run.inconclusive.append('L5 native replay: %s' % stt)
    for ob, qq in run.check_obligations(ex, 'L5/%s' % tn):
        run.inconclusive.append('L5: %s obligation sat: %s' % (ob.kind, ob))
    run.stubs.add('L5: Kind::get_moveset replaced by an arbitrary 2-element bag per call (its exactness is L4)')
    run.absorb(ex)


def lemma_L6(run, shape):
    name = B.shape_name(shape)
    stp = BS.Step(run, shape, zobrist='uf')
    S, m, ex = stp.S, stp.m, stp.ex
    chk = z3.Bool('in_check_result')
    seen = []

    def is_in_check(ctx, bp, color):
        seen.append((bp, color, ctx.deref(bp)))
        return chk
    ex.override('board::Board::is_in_check', is_in_check)
    res = stp.is_legal()
    if len(seen) != 1:
        run.violation('is_legal_move(%s) consults is_in_check %d times' % (name, len(seen)), {'shape': name})
        return
    bp, color, bval = seen[0]
    ok_ptr = isinstance(bp, Ptr) and bp.root == stp.bp.root and bp.path == ()
    cd = simp(color.d)
    if not ok_ptr or not (isinstance(cd, CI) and cd.v == m.color):
        run.violation('is_legal_move(%s) asks whether colour %r is in check on %r (expected the mover on the board after the move)' % (name, cd, bp),
                      {'shape': name})
    # the board at the time of the question is the board after make_move: same as C03's post-state (turn flipped)
    P = B.board_parts(bval)
    q = run.decide('L6/%s' % name, stp.pre + [stp.guard(), z3.Or(P['turn'] != (1 - m.color), B.enum_d(res) != z3.If(chk, z3.BitVecVal(1, 64), z3.BitVecVal(0, 64)))],
                   kind='smt', note='is_legal_move == Err  <=>  is_in_check(mover) in the position after make_move')
    if q.verdict == 'sat':
        run.violation('is_legal_move(%s) does not report the check status of the mover after the move' % name, {'shape': name})
    run.stubs.add('L6: is_in_check replaced by a free Bool (its exactness is L2); make/unmake real (C02, C03)')
    run.absorb(ex)


def lemma_L7(run):
    """get_legal_moves == get_all_moves filtered by is_legal_move, as a list (same moves, same order).  Both callees are
    replaced by arbitrary results: n moves, each present or not, legality an arbitrary function of the move.  The comparison
    is semantic (k-th element of the result == k-th accepted move), so it does not depend on how the result is assembled."""
    ex = run.executor()
    S = B.SymBoard('S', B.WHITE)
    n = 4
    plies = [B.SymPly('am%d' % i, piece=B.KNIGHT, color=B.WHITE, free_flags=True) for i in range(n)]
    gs = [z3.Bool('am%d_present' % i) for i in range(n)]
    L = [z3.Bool('legal_%d' % i) for i in range(n)]
    other = []

    def same(a, b_):
        return z3.And(*[x[1] == y[1] for x, y in zip(B.ply_terms(a), B.ply_terms(b_))])
    pre = [z3.Implies(same(plies[i].value(), plies[j].value()), L[i] == L[j]) for i in range(n) for j in range(i + 1, n)]

    def get_all_moves(ctx, bp):
        return Seq(tuple((gs[i], plies[i].value()) for i in range(n)))

    def is_legal_move(ctx, bp, mv):
        f = z3.Bool('legal_other_%d' % len(other))       # a move that is none of the generated ones: any answer
        other.append(f)
        for i in reversed(range(n)):
            f = z3.If(same(mv, plies[i].value()), L[i], f)
        return Enum(z3.If(f, z3.BitVecVal(0, 64), z3.BitVecVal(1, 64)), {0: (mv,), 1: (models.StrV('x'),)})
    ex.override('board::Board::get_all_moves', get_all_moves)
    ex.override('board::Board::is_legal_move', is_legal_move)
    for c in pre:
        ex.assume(c)
    st = State()
    bp = ex.alloc(st, S.value())
    r = ex.call('board::Board::get_legal_moves', [bp], ['&mut board::Board'], 'std::vec::Vec<board::ply::Ply>', st, 'harness')
    out, st2 = r
    if not isinstance(out, Seq):
        raise Unsupported('get_legal_moves returns %r' % (out,))
    O = [(zb(g), v) for g, v in out.ents]
    E = [(z3.And(gs[i], L[i]), plies[i].value()) for i in range(n)]

    def before(ents, k):
        return z3.Sum([z3.If(ents[j][0], 1, 0) for j in range(k)]) if k else z3.IntVal(0)
    bad = [before(O, len(O)) != before(E, len(E))]
    for a, (ga, va) in enumerate(O):
        for b_, (gb, vb) in enumerate(E):
            bad.append(z3.And(ga, gb, before(O, a) == before(E, b_), z3.Not(same(va, vb))))
    q = run.decide('L7/get_legal_moves', pre + [zb(st2.guard), z3.Or(*bad)], kind='smt',
                   note='get_legal_moves keeps exactly the moves is_legal_move accepts, unchanged and in order (list equality, %d result slots)' % len(O))
    alarms = []
    if q.verdict == 'sat':
        m = q.model
        desc = ['move %d: present=%s legal=%s %s' % (i, m.eval(gs[i], True), m.eval(L[i], True),
                                                       ' '.join('%s=%s' % (t[0], m.eval(t[1], True)) for t in B.ply_terms(plies[i].value())[:8])) for i in range(n)]
        alarms.append(('get_legal_moves is not the filter of get_all_moves by is_legal_move\n      ' + '\n      '.join(desc), {'moves': desc}))
    for ob, qq in run.check_obligations(ex, 'L7', pre=pre):
        alarms.append(('L7: get_legal_moves can panic: %s' % ob, {}))
    if alarms:
        # The lemma's environment hands out arbitrary moves and arbitrary legality answers.  That fits an implementation that
        # assembles the list from those two callees; one that decides (part of) legality itself from the board is outside it.
        # So a model is reported only with a concrete position on which the real get_legal_moves differs from the rules.
        from . import legalreplay
        res = legalreplay.battery(run)
        if isinstance(res, list):
            rec = dict(res[1])
            rec['abstract'] = [a[0][:600] for a in alarms]
            run.violation('%s; on the real engine: %s' % (alarms[0][0].split('\n')[0], res[0]), rec)
        else:
            run.inconclusive.append('L7: %s -- not reproduced on %s concrete positions (pins, shared destinations, checks): the lemma\'s environment '
                                    '(arbitrary moves and legality answers) does not fit how this tree assembles the list; no verdict' % (
                                        alarms[0][0].split('\n')[0], res.get('positions_compared', '?')))
    run.stubs.add('L7: get_all_moves / is_legal_move replaced by arbitrary results (their exactness is L4-L6)')
    run.absorb(ex)


def reference_selftest(run):
    """the concrete reference rules against the natively compiled engine on the repository's own FENs:
    legal move sets must agree (validates the oracle, DESIGN.md 3.5)"""
    from .concrete import repo_fens, parse_plies, ply_from_tokens
    import random
    rnd = random.Random(run.seed)
    fens = repo_fens()
    rnd.shuffle(fens)
    for fen in fens[:12]:
        stt, btoks = BS.native_board_cmd(run, 'fen', [], fen.split())
        if stt != 'OK':
            continue
        d = BS.parse_board_tokens(btoks)
        stt, out = BS.native_board_cmd(run, 'legalmoves', btoks)
        run.selftest['cases'] += 1
        got = sorted(CC.ply_key(ply_from_tokens(t)) for t in parse_plies(out))
        want = sorted(CC.legal_moves(d))
        if got != want:
            run.selftest['mismatches'] += 1
            run.selftest['what'].append('legal moves differ for %s: engine %d, reference %d' % (fen, len(got), len(want)))
    if run.selftest['mismatches']:
        # the oracle and the engine disagree on a concrete position: either a genuine defect or a wrong oracle - report as violation
        run.violation('reference rules and engine disagree on a repository FEN: %s' % run.selftest['what'][:2], {'what': run.selftest['what']})


def worker(run, job):
    kind, item = job
    {'L2': lemma_L2, 'L3': lemma_L3, 'L4': lemma_L4, 'L5': lemma_L5, 'L6': lemma_L6}[kind](run, item)


def check(run, replay=None):
    if replay:
        run.build()
        c = json.load(open(replay))
        if 'occupancy' in c and 'cmd' not in c:      # a slider-lookup counterexample of lemma L1 (same replay as C06)
            from . import c06
            got = c06.native_slider(run, c['piece'], c['square'], c['occupancy'])
            print('replay %s sq=%d occ=%#x: native=%s reference=%s' % (c['piece'], c['square'], c['occupancy'], got, c['expected']))
            return 1 if got != c['expected'] else 0
        if c.get('cmd') == 'legalmoves':
            from . import legalreplay
            return legalreplay.replay_file(run, c)
        extra = []
        if c['cmd'] == 'moveset':
            extra = [str(c['kind']), str(c['color']), str(c['square'] >> 3), str(c['square'] & 7)]
        elif c['cmd'] in ('attacked', 'incheck'):
            extra = [str(c['color'])]
        elif c['cmd'] == 'castling_ability':
            extra = [str(c['kind'])]
        stt, out = BS.native_board_cmd(run, c['cmd'], c['board'], extra)
        print('replay %s: %s %s (expected %s)' % (c['cmd'], stt, str(out)[:400], c.get('expected')))
        return 1
    run.build()
    if not B.check_layout(run.prog):
        run.inconclusive.append('data layout differs from what the harness encodes')
        return
    run.extra['explanation'] = __doc__
    run.bounds += ['L2, L3, L5: all positions satisfying Inv (no bound on number or kind of pieces)',
                   'L4: every (kind, colour, square) = 768 cases, all positions satisfying Inv with that piece on that square',
                   'L6: 118 move shapes as in C02/C03']
    run.outside += ['the composition argument (stated in the explanation) is not solver-checked',
                    'positions violating Inv (e.g. two kings of one colour, pawns on the first rank)',
                    'Kind::get_moveset for a king of the side that is NOT to move (castling_ability returns Err and expect() panics): never called by get_all_moves (L5)']
    reference_selftest(run)
    lemma_L0(run)
    # L1: the slider lookups that L2-L6 summarise by the ray-walk reference are exact (same obligations as C06, discharged here
    # so that this check does not silently rely on another one)
    from . import c06
    c06.sliders(run, z3.BitVec('occ', 64), prefix='L1/')
    jobs = [('L2', (t, c)) for t in (0, 1) for c in (0, 1)]
    jobs += [('L3', (t, k)) for t in (0, 1) for k in range(4)]
    jobs += [('L5', t) for t in (0, 1)]
    jobs += [('L6', sh) for sh in B.move_shapes()]
    squares = list(range(64))
    for kind in range(6):
        for color in (0, 1):
            for sq in squares:
                if kind == B.PAWN and (sq < 8 or sq >= 56):
                    continue        # I8
                jobs.append(('L4', (kind, color, sq)))
    run.extra['cases'] = len(jobs)
    run.parallel(worker, jobs)
    lemma_L7(run)
