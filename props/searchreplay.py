"""Native replay for the search properties (C11, C12): the real `Search::search` on concrete chess positions against

 * a textbook fail-soft alpha-beta over the engine's own look-ahead game (helper `search cmp`, cache neutralised by a hook
   placed -- in the scratch copy only -- at the entry of the inner search), for C11;
 * an exhaustive mate-in-1 / forced-mate-in-2 / avoidable-mate oracle (helper `search mates`, cache active and kept between
   the searches of one position), for C12.

These batteries do not decide anything: the verdict of C11/C12 is the solver's, over the abstract game.  They are used to
*replay* a solver counterexample on the real engine: a disagreement found here is a concrete position, reported with the
violation.  Positions: a fixed list plus positions along pseudo-random legal games (deterministic seeds), each addressed as
`<fen> moves ...` so that the game history (repetitions, fifty-move clock) is real.
"""
import json
import os
from concurrent.futures import ThreadPoolExecutor

from mirsym import native

START = 'rnbqkbnr/pppppppp/8/8/8/8/PPPPPPPP/RNBQKBNR w KQkq - 0 1'
FENS = [
    START,
    'r3k2r/p1ppqpb1/bn2pnp1/3PN3/1p2P3/2N2Q1p/PPPBBPPP/R3K2R w KQkq - 0 1',
    '8/2p5/3p4/KP5r/1R3p1k/8/4P1P1/8 w - - 0 1',
    'r3k2r/Pppp1ppp/1b3nbN/nP6/BBP1P3/q4N2/Pp1P2PP/R2Q1RK1 w kq - 0 1',
    'rnbq1k1r/pp1Pbppp/2p5/8/2B5/8/PPP1NnPP/RNBQK2R w KQ - 1 8',
    '4k3/8/8/8/8/8/4r3/4KB2 w - - 0 1',
    '6k1/5ppp/8/8/8/8/5PPP/R5K1 w - - 0 1',
    '7k/4P3/8/8/8/8/8/4K3 w - - 0 1',
    '8/8/8/2k5/3Pp3/8/8/4K3 b - d3 0 1',
    '4k3/8/8/8/8/8/8/4K2R w K - 98 60',
    '4k3/8/8/3q4/8/8/8/R3K3 w Q - 97 60',
    'k7/8/1K6/8/8/8/8/7Q w - - 0 1',
    'k7/8/2K5/8/8/8/8/7R w - - 0 1',
    '5rk1/5ppp/8/8/8/8/1Q3PPP/6K1 w - - 0 1',
    'r1bqkb1r/pppp1ppp/2n2n2/4p2Q/2B1P3/8/PPPP1PPP/RNB1K1NR w KQkq - 4 4',
    '6k1/5ppp/8/8/8/8/r4PPP/1R4K1 b - - 0 1',
]
ENDGAMES = ['8/8/8/3k4/8/8/3Q4/3K4 w - - 0 1', '8/8/8/3k4/8/8/3R4/3K4 w - - 0 1', '8/8/8/3k4/8/8/2QQ4/3K4 w - - 0 1',
            '3k4/8/8/8/8/8/2RR4/3K4 w - - 0 1', '3k4/2q5/8/8/8/8/8/3K4 b - - 0 1']


def have(run):
    rc, out, err = native.run_helper(run.helper, ['search', 'have'])
    t = out.split()
    return len(t) == 3 and t[1] == 'true', len(t) == 3 and t[2] == 'true'


def _last(out):
    ls = [l for l in out.strip().splitlines() if l.startswith(('OK ', 'BAD', 'PANIC'))]
    return ls[-1] if ls else ''


def positions(run, playouts=12, plies=60, step=3, endgame_plies=30, endgame_seeds=6):
    """list of argument lists: <6 fen fields> [moves ...]"""
    out = [f.split() for f in FENS]
    for seed in range(1, playouts + 1):
        rc, o, e = native.run_helper(run.helper, ['search', 'playout', str(seed), str(plies)] + START.split())
        mv = _last(o).split()[2:]
        for k in range(step, len(mv) + 1, step):
            out.append(START.split() + ['moves'] + mv[:k])
    for i, f in enumerate(ENDGAMES):
        for seed in [11 + i + 20 * j for j in range(endgame_seeds)]:
            rc, o, e = native.run_helper(run.helper, ['search', 'playout', str(seed), str(endgame_plies)] + f.split())
            mv = _last(o).split()[2:]
            for k in range(1, len(mv) + 1, 2):
                out.append(f.split() + ['moves'] + mv[:k])
    return out


def _memo(run, name, compute):
    memo = run.helper + '.' + name + '.json'
    with native._Lock(name + '-' + os.path.basename(run.helper)):
        if os.path.exists(memo):
            return json.load(open(memo))
        res = compute()
        json.dump(res, open(memo, 'w'))
        return res


def parse_cmp(line):
    t = line.split()
    if len(t) < 3 or t[0] != 'OK' or t[1] != 'cmp':
        return None
    return dict(zip(t[2::2], t[3::2]))


def cmp_disagrees(d):
    """what in one `search cmp` answer contradicts property C11 (None if nothing)"""
    if d['real_score'] != d['ref_root']:
        return 'the score %s differs from the minimax value %s of the look-ahead game' % (d['real_score'], d['ref_root'])
    if d['ref_value_of_real_move'] != d['ref_root']:
        return 'the move picked, %s, is worth %s while the minimax value is %s' % (d['real_move'], d['ref_value_of_real_move'], d['ref_root'])
    if d['entry_score'] != d['real_score']:
        return 'the root cache entry holds %s, the reported score is %s' % (d['entry_score'], d['real_score'])
    return None


def cmp_battery(run, depths=(1, 2, 3, 4)):
    """first disagreement between the real fixed-depth search (cache neutralised) and the reference: [text, replay record];
    None if the engine agrees everywhere; 'unavailable' when the helper part or the hook could not be built for this tree"""
    def compute():
        s2, hook = have(run)
        if not (s2 and hook):
            return 'unavailable'
        jobs = [(d, p) for p in positions(run) for d in depths]

        def one(job):
            d, p = job
            try:
                rc, o, e = native.run_helper(run.helper, ['search', 'cmp', str(d)] + p, timeout=300)
            except Exception as ex:      # a timeout is no verdict
                return job, None, 'timeout'
            return job, parse_cmp(_last(o)), _last(o)
        with ThreadPoolExecutor(16) as tp:
            for (d, p), r, raw in tp.map(one, jobs):
                if raw.startswith('PANIC'):
                    return ['`go depth %d` in the position `%s` panics: %s' % (d, ' '.join(p), raw[:160]), {'cmd': 'searchcmp', 'depth': d, 'position': p}]
                if r is None:
                    continue
                bad = cmp_disagrees(r)
                if bad:
                    return ['fixed-depth search (depth %d, cache neutralised) of `%s`: %s' % (d, ' '.join(p), bad),
                            {'cmd': 'searchcmp', 'depth': d, 'position': p, 'answer': r}]
        return None
    return _memo(run, 'searchcmp', compute)


def mates_battery(run, orders=('3', '4', '3,4', '1,2,3', '4,3', '2,4,3')):
    """first position with a mate in <= 2 / an avoidable mate threat where the move chosen after a completed >= 3-ply
    iteration is not acceptable to the oracle (cache active; several orders of earlier searches of the same position)"""
    def compute():
        s2, hook = have(run)
        if not s2:
            return 'unavailable'
        jobs = [(o, p) for p in positions(run, playouts=24, plies=100, step=1, endgame_seeds=10) for o in orders[:1]]

        def classify(job):
            o, p = job
            try:
                rc, out, e = native.run_helper(run.helper, ['search', 'mates', o] + p, timeout=300)
            except Exception:
                return job, ''
            return job, _last(out)
        hits = []
        with ThreadPoolExecutor(16) as tp:
            for (o, p), line in tp.map(classify, jobs):
                if line.startswith('OK class') and line.split()[2] != 'none':
                    hits.append(p)
                    if ':BAD' in line:
                        return ['after `go depth %s` in `%s` (%s): %s' % (o, ' '.join(p), line.split()[2], line), {'cmd': 'searchmates', 'depths': o, 'position': p}]
        jobs2 = [(o, p) for p in hits for o in orders[1:]]
        with ThreadPoolExecutor(16) as tp:
            for (o, p), line in tp.map(classify, jobs2):
                if ':BAD' in line:
                    return ['after the searches `go depth %s` (in this order, cache kept) in `%s` (%s): %s' % (o, ' '.join(p), line.split()[2], line),
                            {'cmd': 'searchmates', 'depths': o, 'position': p}]
        return {'positions_with_a_mate_or_threat': len(hits)}
    return _memo(run, 'searchmates', compute)


def replay_file(run, c):
    """re-run one recorded concrete counterexample; 1 if it still fails"""
    if c['cmd'] == 'searchcmp':
        rc, o, e = native.run_helper(run.helper, ['search', 'cmp', str(c['depth'])] + c['position'], timeout=600)
        r = parse_cmp(_last(o))
        print('replay search cmp depth %s `%s` -> %s' % (c['depth'], ' '.join(c['position']), _last(o)[:300]))
        if _last(o).startswith('PANIC'):
            return 1
        return 1 if (r is not None and cmp_disagrees(r)) else 0
    if c['cmd'] == 'searchdet':
        outs = []
        for _ in range(2):
            rc, o, e = native.run_helper(run.helper, ['search', 'det', str(c['depth'])] + c['position'], timeout=600)
            outs += _last(o).split()[2:]
        print('replay search det depth %s `%s` -> %s' % (c['depth'], ' '.join(c['position']), ' | '.join(outs)))
        return 1 if len(set(outs)) != 1 else 0
    if c['cmd'] == 'searchcut':
        rc, o, e = native.run_helper(run.helper, ['search', 'cut', str(c['depth']), str(c['nodes'])] + c['position'], timeout=600)
        r = parse_cut(_last(o))
        print('replay search cut depth %s nodes %s `%s` -> %s' % (c['depth'], c['nodes'], ' '.join(c['position']), _last(o)[:300]))
        return 1 if (_last(o).startswith('PANIC') or (r is not None and r['unsound'] != '0')) else 0
    if c['cmd'] == 'searchmates':
        rc, o, e = native.run_helper(run.helper, ['search', 'mates', c['depths']] + c['position'], timeout=600)
        print('replay search mates %s `%s` -> %s' % (c['depths'], ' '.join(c['position']), _last(o)[:300]))
        return 1 if ':BAD' in _last(o) else 0
    return 2


def confirm_on_real_engine(run, which):
    """after the solver has reported violations over the abstract game: look for the failure on the real engine (which in
    {'cmp', 'mates'}).  A disagreement found is reported as a violation of its own with a concrete, re-runnable replay
    record; the solver-level violations are annotated with the outcome either way."""
    if not run.violations:
        return
    try:
        res = {'cmp': cmp_battery, 'mates': mates_battery, 'cut': cut_battery, 'det': det_battery}[which](run)
    except Exception as ex:
        res = 'unavailable'
    run.extra['native_search_replay'] = res if not isinstance(res, list) else res[0]
    if isinstance(res, list):
        note = 'confirmed on the real engine: ' + res[0]
        abstract = list(run.violations)
        run.violations[:] = []
        run.violation('on the real engine: ' + res[0], res[1])
        run.violations += abstract
    elif res == 'unavailable':
        note = 'native search replay unavailable for this tree (the helper part or its hook did not build); solver model only'
    else:
        note = ('not reproduced on the battery of concrete positions; the violation stands as a solver model of the '
                'real MIR under the stated abstract-game environment')
    for v in run.violations:
        if not v['what'].startswith('on the real engine'):
            v['what'] += '\n      [%s]' % note


# ---------------------------------------------------------------- C13: interrupted searches

CUT_FENS = [
    START,
    'r3k2r/p1ppqpb1/bn2pnp1/3PN3/1p2P3/2N2Q1p/PPPBBPPP/R3K2R w KQkq - 0 1',
    '6k1/5ppp/8/8/8/8/5PPP/R5K1 w - - 0 1',
    '2r2rk1/1p1q1pp1/p2p1n1p/3Pp3/2P1P1b1/1P3N2/P3BPPP/2R2RK1 b - - 1 19',
    'r1bqkb1r/pppp1ppp/2n2n2/4p2Q/2B1P3/8/PPPP1PPP/RNB1K1NR w KQkq - 4 4',
    '8/2p5/3p4/KP5r/1R3p1k/8/4P1P1/8 w - - 0 1',
    '4k3/8/8/8/8/5n2/8/R3K2R w KQ - 0 1',
    '5rk1/5ppp/8/8/8/8/1Q3PPP/6K1 w - - 0 1',
    # the side to move is behind and has captures: a dummy 0 from a cut child looks better than the true values
    'r3k3/8/8/3q4/4P3/8/8/4K2R w K - 0 1',
    '4k3/pp6/8/2n1r3/3P4/8/8/4K3 w - - 0 1',
    'rn2k3/8/8/8/2b5/3P4/8/4K3 w - - 0 1',
    '4k3/8/8/8/3p4/2b5/1P6/4K2r w - - 0 1',
]


def parse_cut(line):
    t = line.split()
    if len(t) < 10 or t[0] != 'OK' or t[1] != 'cut':
        return None
    d = dict(zip(t[2:10:2], t[3:10:2]))
    d['first'] = line[line.index('first [') + 7:-1] if 'first [' in line else ''
    return d


def cut_battery(run, depths=(1, 2, 3), max_cuts=1500):
    """searches cut by a node budget N (every N up to the size of the full search, capped) from an empty cache: an entry left in
    the cache that is unsound for its position and depth - while the uncut search of the same position leaves only sound
    entries (this differential cancels the oracle's blind spots: history-dependent values, unknown positions)"""
    def compute():
        s2, hook = have(run)
        if not s2:
            return 'unavailable'
        jobs = []
        for f in CUT_FENS:
            for d in depths:
                try:
                    rc, o, e = native.run_helper(run.helper, ['search', 'cut', str(d), '0'] + f.split(), timeout=300)
                except Exception:
                    continue
                full = parse_cut(_last(o))
                if full is None or full['unsound'] != '0':
                    continue                       # the oracle does not apply cleanly here: skip the position
                total = int(full['nodes'])
                ns = list(range(1, min(total, max_cuts) + 1)) + list(range(max_cuts + 1, total, max(1, total // 40)))
                jobs += [(f, d, n) for n in ns]

        def one(job):
            f, d, n = job
            try:
                rc, o, e = native.run_helper(run.helper, ['search', 'cut', str(d), str(n)] + f.split(), timeout=300)
            except Exception:
                return job, None, ''
            return job, parse_cut(_last(o)), _last(o)
        with ThreadPoolExecutor(16) as tp:
            for (f, d, n), r, raw in tp.map(one, jobs):
                if raw.startswith('PANIC'):
                    return ['`go depth %d nodes %d` in `%s` panics: %s' % (d, n, f, raw[:160]), {'cmd': 'searchcut', 'depth': d, 'nodes': n, 'position': f.split()}]
                if r is not None and r['unsound'] != '0':
                    return ['after `go depth %d nodes %d` from an empty cache in `%s` the cache holds an entry that does not come from a completely '
                            'searched subtree: %s (the uncut search leaves only sound entries)' % (d, n, f, r['first']),
                            {'cmd': 'searchcut', 'depth': d, 'nodes': n, 'position': f.split()}]
        return {'cut_points_tried': len(jobs)}
    return _memo(run, 'searchcut', compute)


# ---------------------------------------------------------------- C16: determinism

def det_battery(run, depths=(1, 2, 3)):
    """the same fixed-depth search from an emptied cache: three times in one process (first thing, again, after an unrelated
    search) and in a second process; (best move, score, node count) must be identical everywhere"""
    def compute():
        s2, hook = have(run)
        if not s2:
            return 'unavailable'
        jobs = [(d, p) for p in positions(run, playouts=3, plies=40, step=5, endgame_seeds=1) for d in depths]
        # a few heavier searches (root subtrees that take milliseconds: wall-clock dependent tie-breaks show only there)
        jobs += [(4, f.split()) for f in FENS[:5]]

        def one(job):
            d, p = job
            outs = []
            for _ in range(2):
                try:
                    rc, o, e = native.run_helper(run.helper, ['search', 'det', str(d)] + p, timeout=300)
                except Exception:
                    return job, None
                outs.append(_last(o))
            return job, outs
        with ThreadPoolExecutor(16) as tp:
            for (d, p), outs in tp.map(one, jobs):
                if not outs or not all(o.startswith('OK det') for o in outs):
                    if outs and any(o.startswith('PANIC') for o in outs):
                        return ['`go depth %d` in `%s` panics' % (d, ' '.join(p)), {'cmd': 'searchdet', 'depth': d, 'position': p}]
                    continue
                res = set(outs[0].split()[2:] + outs[1].split()[2:])
                if len(res) != 1:
                    return ['`go depth %d` from an emptied cache in `%s` gives different (move/score/nodes) results: %s (process 1: first, again, '
                            'after another search; process 2: same)' % (d, ' '.join(p), ' | '.join(outs[0].split()[2:] + outs[1].split()[2:])),
                            {'cmd': 'searchdet', 'depth': d, 'position': p}]
        return {'searches_compared': 6 * len(jobs)}
    return _memo(run, 'searchdet', compute)
