"""C08 — the UCI position command sets up exactly the described game, or nothing.

(a) PARSE  UCICommand::new on token lists `position ...` of length <= 12 (abstract tokens): the parsed kind, the six FEN
           tokens and the move tokens are exactly the slices the UCI grammar defines; anything else is Err; no panic.
(b) LOAD   Uci::load_position executed from MIR with the board-level callees as uninterpreted constructors
           (start position, from_fen(fen), find_move(board, word) -> accept? + move, make_move(board, move)), k <= 4 moves
           (quick) / <= 8 (thorough): if every move is accepted the session position is start . m1 ... mk and does not
           depend on the previous session position; if any move is refused the result is Err and the previous position is
           kept.  execute_command(UCINewGame) resets to the start position.
(c) FIND   Board::find_move executed from MIR with get_legal_moves / to_notation summarised: it returns the first legal
           move whose coordinate string equals the word, Err if there is none.
(d) NOTATION  Ply::to_notation executed from MIR with a byte-level model of format!/Display/String::push: for every
           in-range start, dest and promotion piece the string is file letter, rank digit, file letter, rank digit and
           the optional q/r/b/n suffix; hence it is injective on (start, dest, promotion).
The legal move set itself is C01; make_move is C03.
"""
import json
import z3

from mirsym.executor import State, NOT_HANDLED, PATHS
from mirsym.values import *
from mirsym.models import some, NONE, ok, err, StrV, as_str
from mirsym import native, solve, models
from . import uci_tokens as U
from . import uci_loop as UL
from . import boardsym as B
from .c15 import concretise, NEW

LEVEL = 'other'


def tok_eq(a, b):
    return z3.And(bv(a.kind) == bv(b.kind), bv(a.num) == bv(b.num))


def parse_case(run, n):
    name = 'PARSE/len%d' % n
    toks = [U.TokV.fresh('p%d' % i) for i in range(n)]
    ex = run.executor()
    U.install(ex)

    def join(ctx, p, sep):       # keep the joined parts visible
        s, a, b = models.slice_window(ctx, p)
        return JoinedStr([v for _, v in s.ents[a:b]])
    ex.model(r'^std::slice::<impl \[.*\]>::join::<&str>$', join)
    toks[0] = U.TokV(CI(VID('position'), 8), CI(0, U.NUMW))
    st = State()
    sp = ex.alloc(st, Seq.of(toks))
    r = ex.call(NEW, [sp], ['&[&str]'], 'std::result::Result<uci::uci_command::UCICommand, std::string::String>', st, 'harness')
    run.absorb(ex)
    res, st2 = r
    pre = ex.pre + [zb(st2.guard)]
    K = lambda i, w: bv(toks[i].kind) == VID(w)
    # grammar
    startpos = n >= 2 and K(1, 'startpos')
    fen = (n >= 8) and K(1, 'fen')          # args = tokens[1..]; args.len() >= 7
    want_ok = z3.Or(startpos, fen) if n >= 2 else z3.BoolVal(False)
    bad = [(bv(res.d) == 0) != want_ok]
    if 0 in res.pay:
        cmd = res.pay[0][0]
        bad.append(z3.And(want_ok, bv(cmd.d) != 4))          # UCICommand::Position
        if 4 in cmd.pay:
            kind, moves = cmd.pay[4]
            if n >= 2:
                bad.append(z3.And(startpos, bv(kind.d) != 0))
                sp_moves = (n > 3) and K(2, 'moves')
                bad.append(z3.And(startpos, moves_differ(moves, toks[3:] if n > 3 else [], sp_moves)))
            if n >= 8:
                bad.append(z3.And(fen, bv(kind.d) != 1))
                if 1 in kind.pay:
                    f = kind.pay[1][0]
                    bad.append(z3.And(fen, z3.BoolVal(not (isinstance(f, JoinedStr) and len(f.parts) == 6 and all(x is y for x, y in zip(f.parts, toks[2:8]))))))
                fen_moves = (n > 9) and K(8, 'moves')
                bad.append(z3.And(fen, moves_differ(moves, toks[9:] if n > 9 else [], fen_moves)))
    q = run.decide('%s/slices' % name, pre + [z3.Or(*[zb(x) for x in bad])], kind='smt',
                   note='position command: kind, FEN tokens [2..8) and move tokens are the grammar slices; everything else is Err')
    if q.verdict == 'sat':
        words = concretise(q.model, toks)
        rc, out, e = native.run_helper(run.helper, ['uci', 'parse'] + words)
        run.violation('`%s` is parsed as %s, which is not what the UCI grammar says' % (' '.join(words), out.strip()[:200]), {'cmd': 'parse', 'tokens': words})
    for ob, qq in run.check_obligations(ex, name):
        words = concretise(qq.model, toks)
        rc, out, e = native.run_helper(run.helper, ['uci', 'parse'] + words)
        if out.startswith('PANIC'):
            run.violation('`%s` panics the parser: %s' % (' '.join(words), out.strip()[:120]), {'cmd': 'parse', 'tokens': words})
        else:
            run.inconclusive.append('%s: panic model not reproduced: %r' % (name, words))


class JoinedStr:
    """join(" ") of a concrete list of tokens"""
    def __init__(self, parts):
        self.parts = parts

    def ite_with(self, g, o):
        if len(self.parts) == len(o.parts) and all(a is b for a, b in zip(self.parts, o.parts)):
            return self
        return U.AbsStr(ite(g, len(self.parts) == 0, len(o.parts) == 0), 'join')

    def ite_mixed(self, g, other, self_is_then):
        return U.AbsStr(z3.Bool('x'), 'join').ite_mixed(g, other, self_is_then)

    def is_empty_model(self, ctx):
        return len(self.parts) == 0


def VID(w):
    return U.VOCAB.id(w)


def moves_differ(moves, expect_toks, present_cond):
    """z3 Bool: the parsed Option<Vec<String>> is not (Some(expect_toks) if present_cond else None)"""
    if present_cond is False:
        return bv(moves.d) != 0
    pc = zb(present_cond)
    conds = [(bv(moves.d) == 1) != pc]
    if 1 in moves.pay:
        v = moves.pay[1][0]
        if not isinstance(v, Seq):
            conds.append(pc)
        else:
            # guarded sequence: the entries whose guard holds, in order, must be exactly expect_toks
            cnt = z3.IntVal(0)
            for g, a in v.ents:
                g = zb(g)
                for k, e in enumerate(expect_toks):
                    if a is not e:
                        same = tok_eq(a, e) if isinstance(a, U.TokV) else z3.BoolVal(False)
                        conds.append(z3.And(pc, g, cnt == k, z3.Not(same)))
                conds.append(z3.And(pc, g, cnt >= len(expect_toks)))
                cnt = cnt + z3.If(g, 1, 0)
            conds.append(z3.And(pc, cnt != len(expect_toks)))
    return z3.Or(*conds)


# ------------------------------------------------------------------ (b) load_position with term-valued boards

class TermV:
    """a value that is a z3 term of an uninterpreted sort (boards, moves)"""
    __slots__ = ('t',)

    def __init__(self, t):
        self.t = t

    def ite_with(self, g, o):
        return TermV(self.t if self.t.eq(o.t) else z3.If(g, self.t, o.t))


class FenStr:
    """the fen string of a position command: an abstract string with an identity (equal ids <=> equal strings)"""
    def __init__(self, fid):
        self.fid = fid

    def eq_model(self, ctx, other):
        if isinstance(other, FenStr):
            return self.fid == other.fid
        raise Unsupported('fen string compared with %r' % (other,))

    def ite_with(self, g, o):
        return FenStr(z3.If(zb(g), self.fid, o.fid))

    def is_empty_model(self, ctx):
        return False


class CandNotation:
    """to_notation() of candidate number idx of board b (lists mode)"""
    def __init__(self, T, b, idx):
        self.T, self.b, self.idx = T, b, idx

    def eq_model(self, ctx, other):
        w = as_str(ctx, other)
        if not isinstance(w, U.TokV):
            raise Unsupported('candidate notation compared with %r' % (w,))
        k, n = TermEnv.canon(w)
        return z3.And(self.T.wkind(self.b, self.idx) == k, self.T.wnum(self.b, self.idx) == n)


class TermEnv:
    """boards and moves as terms of uninterpreted sorts; the board-level callees as uninterpreted functions.
    Two granularities: `lists=False` summarises Board::find_move itself (accept? + move found);
    `lists=True` executes the real find_move and summarises one level lower: get_all_moves / get_legal_moves return K
    candidate moves of the board (each present or not, legal or not, with an uninterpreted coordinate string), to_notation and
    make_move act on candidates -- so code that looks a move up in the wrong list is seen."""
    K = 2

    def __init__(self, run, lists=False):
        self.lists = lists
        self.BoardS = z3.DeclareSort('BoardS')
        self.MoveS = z3.DeclareSort('MoveS')
        self.start = z3.Const('start_board', self.BoardS)
        self.fenb = z3.Function('from_fen', z3.BitVecSort(8), self.BoardS)
        self.mk = z3.Function('make_move', self.BoardS, self.MoveS, self.BoardS)
        self.fm = z3.Function('found_move', self.BoardS, z3.BitVecSort(8), z3.BitVecSort(U.NUMW), self.MoveS)
        self.legal = z3.Function('names_a_legal_move', self.BoardS, z3.BitVecSort(8), z3.BitVecSort(U.NUMW), z3.BoolSort())
        self.ncalls = 0
        ex = self.ex = run.executor()
        env = UL.Env(ex, [], False)
        UL.install(ex, env)
        ex.model(r'^board::boardbuilder::BoardBuilder::build$', lambda ctx, bp: TermV(self.start))

        def from_fen(ctx, f):
            f = as_str(ctx, f)
            if not isinstance(f, FenStr):
                raise Unsupported('from_fen of %r' % (f,))
            return TermV(self.fenb(f.fid))
        ex.model(r'^board::(serialize::<impl board::Board>|Board)::from_fen$', from_fen)
        ex.model(r'^board::serialize::<impl at .*>::from_fen$', from_fen)

        def find_move(ctx, bp, notation):
            b = ctx.deref(bp)
            w = as_str(ctx, notation)
            self.ncalls += 1
            k, n = self.canon(w)
            a = self.legal(b.t, k, n)
            return Enum(z3.If(a, z3.BitVecVal(0, 64), z3.BitVecVal(1, 64)), {0: (TermV(self.fm(b.t, k, n)),), 1: (StrV('Move not found'),)})
        if not lists:
            ex.model(r'^board::Board::find_move$', find_move)
            ex.model(r'^board::<impl at .*>::find_move$', find_move)
        else:
            ex.models = [(p, f) for (p, f) in ex.models if 'find_move' not in p.pattern]       # the real find_move is executed
            I8 = z3.BitVecSort(8)
            self.present = z3.Function('cand_present', self.BoardS, I8, z3.BoolSort())
            self.islegal = z3.Function('cand_legal', self.BoardS, I8, z3.BoolSort())
            self.wkind = z3.Function('cand_word_kind', self.BoardS, I8, z3.BitVecSort(8))
            self.wnum = z3.Function('cand_word_num', self.BoardS, I8, z3.BitVecSort(U.NUMW))
            self.cmv = z3.Function('cand_move', self.BoardS, I8, self.MoveS)
            self.cur = [None]

            def cand_ply(i):
                return ((CI(0, 8), CI(0, 8)), (CI(i, 8), CI(0, 8)), B.kind_v(B.KNIGHT, 0), B.opt_kind_v(None, 0), B.opt_kind_v(None, 0),
                        False, False, False, CI(0, 16), tuple(B.status_v(True) for _ in range(4)))

            def moves_of(only_legal):
                def f(ctx, bp):
                    b = ctx.deref(bp).t
                    self.cur[0] = b
                    ents = []
                    for i in range(self.K):
                        g = self.present(b, z3.BitVecVal(i, 8))
                        if only_legal:
                            g = z3.And(g, self.islegal(b, z3.BitVecVal(i, 8)))
                        ents.append((g, cand_ply(i)))
                    return Seq(tuple(ents))
                return f
            for pat in (r'^board::Board::get_all_moves$', r'^board::<impl at .*>::get_all_moves$'):
                ex.model(pat, moves_of(False))
            for pat in (r'^board::Board::get_legal_moves$', r'^board::<impl at .*>::get_legal_moves$'):
                ex.model(pat, moves_of(True))

            def is_legal_move(ctx, bp, mv):
                b = ctx.deref(bp).t
                idx = bv(mv[1][0])
                return Enum(z3.If(self.islegal(b, idx), z3.BitVecVal(0, 64), z3.BitVecVal(1, 64)), {0: (UNIT,), 1: (StrV('illegal'),)})
            ex.model(r'^board::(Board|<impl at .*>)::is_legal_move$', is_legal_move)

            def to_notation(ctx, ply):
                if self.cur[0] is None:
                    raise Unsupported('to_notation before any move list was requested')
                return CandNotation(self, self.cur[0], bv(ply[1][0]))
            ex.model(r'^board::ply::(Ply|<impl at .*>)::to_notation$', to_notation)
            # legal(b, word) and the move found, in terms of the candidates: the first legal candidate with that string
            def hit(b, i, k, n):
                i8 = z3.BitVecVal(i, 8)
                return z3.And(self.present(b, i8), self.islegal(b, i8), self.wkind(b, i8) == k, self.wnum(b, i8) == n)
            self.legal = lambda b, k, n: z3.Or(*[hit(b, i, k, n) for i in range(self.K)])

            def fm(b, k, n):
                out = self.cmv(b, z3.BitVecVal(self.K - 1, 8))
                for i in reversed(range(self.K - 1)):
                    out = z3.If(hit(b, i, k, n), self.cmv(b, z3.BitVecVal(i, 8)), out)
                return out
            self.fm = fm

        def make_move(ctx, bp, mv):
            b = ctx.deref(bp)
            if self.lists:
                ctx.write(bp, TermV(self.mk(b.t, self.cmv(b.t, bv(mv[1][0])))))
                return UNIT
            ctx.write(bp, TermV(self.mk(b.t, mv.t)))
            return UNIT
        ex.model(r'^board::Board::make_move$', make_move)
        ex.model(r'^board::<impl at .*>::make_move$', make_move)
        ex.model(r'^<board::Board as std::clone::Clone>::clone$', lambda ctx, p: ctx.deref(p))

    @staticmethod
    def canon(w):
        """a word as (kind, number-if-numeric): equal canonical pairs <=> the harness treats the strings as equal"""
        return bv(w.kind), z3.If(bv(w.kind) == U.NUM, bv(w.num), z3.BitVecVal(0, U.NUMW))

    def play(self, base, words):
        """(all words name legal moves in turn, resulting position)"""
        b, okc = base, []
        for w in words:
            k, n = self.canon(w)
            okc.append(self.legal(b, k, n))
            b = self.mk(b, self.fm(b, k, n))
        return (z3.And(*okc) if okc else z3.BoolVal(True)), b

    def item(self, run, method):
        return [n for n, it in run.prog.items.items() if it.kind == 'fn' and n.startswith('uci::<impl') and n.endswith('::' + method)][0]


def load_case(run, job):
    kind, k = job[0], job[1]
    lists = len(job) > 2 and job[2] == 'lists'
    name = 'LOAD%s/%s/%s' % ('-LISTS' if lists else '', kind, 'no-moves-clause' if k < 0 else '%d-moves' % k)
    T = TermEnv(run, lists)
    ex = T.ex
    session = z3.Const('session_board', T.BoardS)
    fen_id = z3.BitVec('fen_id', 8)
    words = [U.TokV.fresh('mv%d' % i) for i in range(max(k, 0))]
    st = State()
    # the session object: built by the real Uci::new(), then its position replaced by an arbitrary one
    uv = ex.call(T.item(run, 'new'), [], [], 'uci::Uci', st, 'harness')[0]
    bi = run.prog.field_index('uci::Uci', 'board')
    uv = tuple(TermV(session) if i == bi else x for i, x in enumerate(uv))
    up = ex.alloc(st, uv)
    pk = Enum(0, {0: ()}) if kind == 'startpos' else Enum(1, {1: (FenStr(fen_id),)})
    moves = NONE if k < 0 else some(Seq.of(words))
    r = ex.call(T.item(run, 'load_position'), [up, pk, moves], ['&mut uci::Uci', 'uci::uci_command::PositionKind', 'std::option::Option<std::vec::Vec<std::string::String>>'],
                'std::result::Result<(), std::string::String>', st, 'harness')
    run.absorb(ex)
    res, st2 = r
    final = ex.load(st2, up.root, ())[bi].t
    base = T.start if kind == 'startpos' else T.fenb(fen_id)
    allacc, exp = T.play(base, words)
    bad = [z3.And(allacc, z3.Or(bv(res.d) != 0, final != exp)), z3.And(z3.Not(allacc), z3.Or(bv(res.d) != 1, final != session))]
    q = run.decide(name, ex.pre + [zb(st2.guard), z3.Or(*bad)], kind='smt',
                   note='all moves accepted => Ok and position == start.m1...mk (independent of the session position); any refusal => Err and position unchanged')
    if q.verdict == 'sat':
        abstract_violation(run, name, 'load_position does not implement "all moves or nothing"', {'case': name, 'model': str(q.model)[:800]})
    for ob, qq in run.check_obligations(ex, name):
        run.violation('%s: load_position can panic: %s' % (name, ob), {'case': name})


def session_case(run, seq):
    """a session from Uci::new(): a sequence of position / ucinewgame commands (bounded history); the position in force at
    the end is the one described by the last accepted position command (or the start position after ucinewgame / at the
    beginning), whatever was sent before"""
    lists = bool(seq) and seq[0] == 'lists'
    if lists:
        seq = seq[1:]
    name = 'SESSION%s/' % ('-LISTS' if lists else '') + '-'.join('N' if c == 'N' else 'P%d' % c for c in seq)
    T = TermEnv(run, lists)
    ex = T.ex
    st = State()
    uv = ex.call(T.item(run, 'new'), [], [], 'uci::Uci', st, 'harness')[0]
    up = ex.alloc(st, uv)
    bi = run.prog.field_index('uci::Uci', 'board')
    exp = T.start
    execute = T.item(run, 'execute_command')
    ex.no_merge(r'(^|::)(execute_command|load_position)$')      # path by path: list lengths stay concrete
    ex.enable_pruning(timeout_ms=2000)
    ex.prune_mode = 'all'
    nq = [0]

    def go(j, st, exp):
        if j == len(seq):
            final = ex.load(st, up.root, ())[bi]
            if not isinstance(final, TermV):
                run.inconclusive.append('%s: session position is not a board term: %r' % (name, final))
                return
            nq[0] += 1
            q = run.decide('%s/path%d' % (name, nq[0]), ex.pre + [zb(st.guard), final.t != exp], kind='smt',
                           note='position in force == the one described by the last accepted position command / ucinewgame, independent of earlier commands')
            if q.verdict == 'sat':
                abstract_violation(run, name, 'the session position depends on earlier commands', {'case': name, 'model': str(q.model)[:1200]})
            return
        c = seq[j]
        if c == 'N':
            cmd = Enum(2, {2: ()})
            exp_next = T.start
        else:
            is_fen = z3.Bool('c%d_is_fen' % j)
            fid = z3.BitVec('c%d_fen_id' % j, 8)
            words = [U.TokV.fresh('c%d_mv%d' % (j, i)) for i in range(c)]
            has_moves = z3.Bool('c%d_has_moves_clause' % j) if c == 0 else True
            pk = Enum(z3.If(is_fen, z3.BitVecVal(1, 64), z3.BitVecVal(0, 64)), {0: (), 1: (FenStr(fid),)})
            mv = Enum(z3.If(zb(has_moves), z3.BitVecVal(1, 64), z3.BitVecVal(0, 64)), {1: (Seq.of(words),), 0: ()})
            cmd = Enum(4, {4: (pk, mv)})
            okc, b = T.play(z3.If(is_fen, T.fenb(fid), T.start), words)
            exp_next = z3.If(okc, b, exp)
        r = ex.call(execute, [up, cmd], ['&mut uci::Uci', 'uci::uci_command::UCICommand'], 'std::result::Result<(), std::string::String>', st, 'harness')
        if r is None:
            return
        paths = r[1] if r[0] is PATHS else [r]
        for _, st2 in paths:
            if st2 is not None and ex.feasible(st2.guard):
                go(j + 1, st2, exp_next)
    go(0, st, T.start)
    run.absorb(ex)
    for ob, qq in run.check_obligations(ex, name):
        run.violation('%s: panic: %s' % (name, ob), {'case': name})


def newgame_case(run):
    ex = run.executor()
    env = UL.Env(ex, [], False)
    UL.install(ex, env)
    st = State()
    up = ex.alloc(st, UL.uci_value('none', run, ex, st))
    callee = [n for n, it in run.prog.items.items() if it.kind == 'fn' and n.startswith('uci::<impl') and n.endswith('::execute_command')][0]
    cmd = Enum(2, {2: ()})
    r = ex.call(callee, [up, cmd], ['&mut uci::Uci', 'uci::uci_command::UCICommand'], 'std::result::Result<(), std::string::String>', st, 'harness')
    run.absorb(ex)
    U_ = ex.load(r[1], up.root, ())
    okb = isinstance(U_[0], Opaque) and U_[0].data == 'startpos'
    run.decide('NEWGAME/resets-to-start', [z3.BoolVal(not okb)], kind='smt', note='ucinewgame sets the session position to construct_starting_board().build()')
    if not okb:
        abstract_violation(run, 'NEWGAME', 'ucinewgame does not reset the session position to the start position', {})


# ------------------------------------------------------------------ (c) find_move

def find_case(run):
    name = 'FIND'
    ex = run.executor()
    U.install(ex)
    n = 4
    plies = [B.SymPly('lm%d' % i, piece=B.KNIGHT, color=0, free_flags=True) for i in range(n)]
    gs = [z3.Bool('lm%d_present' % i) for i in range(n)]
    eqs = [z3.Bool('lm%d_notation_matches' % i) for i in range(n)]
    ex.override('board::Board::get_legal_moves', lambda ctx, bp: Seq(tuple((gs[i], plies[i].value()) for i in range(n))))
    asked = []

    def to_notation(ctx, ply):
        i = len(asked)
        asked.append(ply)
        return NotationV(i)
    ex.override('board::ply::Ply::to_notation', to_notation)

    class NotationV:
        def __init__(self, i):
            self.i = i

        def eq_model(self, ctx, other):
            return eqs[self.i]
    st = State()
    bp = ex.alloc(st, Opaque('Board'))
    word = U.TokV.fresh('word')
    r = ex.call('board::Board::find_move', [bp, word], ['&mut board::Board', '&str'], 'std::result::Result<board::ply::Ply, &str>', st, 'harness')
    run.absorb(ex)
    res, st2 = r
    hit = [z3.And(gs[i], eqs[i]) for i in range(n)]
    bad = [(bv(res.d) == 0) != z3.Or(*hit)]
    if 0 in res.pay:
        got = dict(B.ply_terms(res.pay[0][0]))
        for i in range(n):
            first = z3.And(hit[i], *[z3.Not(h) for h in hit[:i]])
            want = dict(B.ply_terms(plies[i].value()))
            bad.append(z3.And(first, z3.Or(*[got[k] != want[k] for k in want if k in got])))
    q = run.decide('%s/first-legal-move-with-that-notation' % name, ex.pre + [zb(st2.guard), z3.Or(*bad)], kind='smt',
                   note='find_move(word) == Ok(first legal move whose to_notation() == word), Err if none')
    if q.verdict == 'sat':
        run.violation('find_move does not return the first legal move with the given notation', {'model': str(q.model)[:600]})
    for ob, qq in run.check_obligations(ex, name):
        run.violation('find_move can panic: %s' % ob, {})


def findb_case(run, L):
    """find_move at byte level: a symbolic word of L bytes against n candidate legal moves; the real to_notation (format model)
    or whatever decoding the implementation uses is executed"""
    from . import fmtmodel
    name = 'FIND-BYTES/len%d' % L
    ex = run.executor()
    fmtmodel.install(ex)
    n = 3
    word = [z3.BitVec('w%d' % i, 8) for i in range(L)]
    plies, gs, encs = [], [], []
    for i in range(n):
        p = B.SymPly('lm%d' % i, piece=B.KNIGHT, color=0, free_flags=True)
        v = list(p.value())
        promo_some = z3.Bool('lm%d_promotes' % i)
        promo_kind = z3.BitVec('lm%d_promo_kind' % i, 64)
        v[4] = Enum(z3.If(promo_some, z3.BitVecVal(1, 64), z3.BitVecVal(0, 64)),
                    {1: (Enum(promo_kind, {k: (B.color_v(z3.BitVec('lm%d_promo_col' % i, 64)),) for k in range(6)}),), 0: ()})
        ex.assume(z3.And(z3.UGE(promo_kind, 2), z3.ULE(promo_kind, 5)))
        for x in (p.sr, p.sf, p.dr, p.df):
            ex.assume(z3.ULT(x, 8))
        B8 = lambda k: z3.BitVecVal(k, 8)
        suffix = z3.If(promo_kind == 2, B8(113), z3.If(promo_kind == 3, B8(114), z3.If(promo_kind == 4, B8(98), B8(110))))
        enc = [p.sf + 97, p.sr + 49, p.df + 97, p.dr + 49]
        if L == 4:
            same = z3.And(z3.Not(promo_some), *[word[k] == enc[k] for k in range(4)])
        elif L == 5:
            same = z3.And(promo_some, word[4] == suffix, *[word[k] == enc[k] for k in range(4)])
        else:
            same = z3.BoolVal(False)
        plies.append(tuple(v))
        gs.append(z3.Bool('lm%d_present' % i))
        encs.append(same)
    ex.override('board::Board::get_legal_moves', lambda ctx, bp: Seq(tuple((gs[i], plies[i]) for i in range(n))))
    ex.enable_pruning(timeout_ms=2000)
    ex.prune_mode = 'all'
    st = State()
    bp = ex.alloc(st, Opaque('Board'))
    r = ex.call('board::Board::find_move', [bp, fmtmodel.SymStr(tuple((True, w) for w in word))], ['&mut board::Board', '&str'], 'std::result::Result<board::ply::Ply, &str>', st, 'harness')
    run.absorb(ex)
    if r is None:
        # every path diverges: only panics are left to judge
        for ob, qq in run.check_obligations(ex, name, kinds=('panic', 'unwind', 'unreachable', 'model-limit')):
            w = bytes(qq.model.eval(x, model_completion=True).as_long() for x in word)
            replay_find(run, name, list(w), [], False)
        return
    res, st2 = r
    hit = [z3.And(gs[i], encs[i]) for i in range(n)]
    bad = [(bv(res.d) == 0) != z3.Or(*hit)]
    if 0 in res.pay:
        got = dict(B.ply_terms(res.pay[0][0]))
        for i in range(n):
            first = z3.And(hit[i], *[z3.Not(h) for h in hit[:i]])
            want = dict(B.ply_terms(plies[i]))
            bad.append(z3.And(first, z3.Or(*[got[k] != want[k] for k in want if k in got and got[k] is not None and want[k] is not None])))
    if L in (4, 5) and not run.witness(name, ex.pre + [zb(st2.guard), hit[1], z3.Not(hit[0])]):
        return
    q = run.decide(name, ex.pre + [zb(st2.guard), z3.Or(*bad)], kind='smt',
                   note='for every %d-byte word: find_move == Ok(first legal move whose coordinate string is the word), Err if none' % L)
    if q.verdict == 'sat':
        m = q.model
        w = list(bytes(m.eval(x, model_completion=True).as_long() for x in word))
        cands = []
        for i in range(n):
            if z3.is_true(m.eval(gs[i], model_completion=True)):
                p = plies[i]
                ev = lambda t: m.eval(bv(t), model_completion=True).as_long()
                cands.append('abcdefgh'[ev(p[0][1]) & 7] + str((ev(p[0][0]) & 7) + 1) + 'abcdefgh'[ev(p[1][1]) & 7] + str((ev(p[1][0]) & 7) + 1))
        ok_ = m.eval(bv(res.d) == 0, model_completion=True)
        replay_find(run, name, w, cands, z3.is_true(ok_))
    for ob, qq in run.check_obligations(ex, name, kinds=('panic', 'unwind', 'unreachable', 'model-limit')):
        run.violation('%s: find_move can panic / leaves the modelled fragment: %s' % (name, ob), {'case': name})


REPLAY_POSITIONS = ['startpos', 'fen 7k/4P3/8/8/8/8/8/4K3 w - - 0 1', 'fen 4k3/8/8/8/8/8/3p4/2R1K3 b - - 0 1',
                    'fen r3k2r/8/8/8/8/8/8/R3K2R w KQkq - 0 1']


# ---------------------------------------------------------------- concrete session replay (real engine vs independent rules)

STARTFEN = 'rnbqkbnr/pppppppp/8/8/8/8/PPPPPPPP/RNBQKBNR w KQkq - 0 1'
SESSION_POSITIONS = ['startpos',
                     'fen 4k3/8/8/8/8/8/4r3/4KB2 w - - 0 1',                 # bishop pinned?  no: king in check by the rook -- few legal moves
                     'fen 4k3/4r3/8/8/8/8/4B3/4K3 w - - 0 1',                # bishop pinned on the e-file
                     'fen r3k2r/8/8/8/8/8/6p1/R3K2R w KQkq - 0 1',           # castling through an attacked square
                     'fen 7k/4P3/8/8/8/8/8/4K3 w - - 0 1',                   # promotion
                     'fen 8/8/8/2k5/3Pp3/8/8/4K3 b - d3 0 1']                # en passant


def _ref_board(run, fen):
    rc, out, err = native.run_helper(run.helper, ['board', 'fen'] + fen.split())
    if not out.startswith('OK'):
        return None
    from .boardstep import parse_board_tokens
    return parse_board_tokens(out[2:].split())


def _ref_notation(mv):
    s_ = 'abcdefgh'[mv[1]] + str(mv[0] + 1) + 'abcdefgh'[mv[3]] + str(mv[2] + 1)
    if mv[4] is not None and mv[4] >= 0:
        s_ += {B.QUEEN: 'q', B.ROOK: 'r', B.BISHOP: 'b', B.KNIGHT: 'n'}.get(mv[4], '?')
    return s_


def _ref_play(d, word):
    """the position after the legal move named by the word (independent rules), None if the word names no legal move"""
    from . import chessref_concrete as CR
    for mv in CR.legal_moves(d):
        if _ref_notation(mv) == word:
            p = {'sr': mv[0], 'sf': mv[1], 'dr': mv[2], 'df': mv[3], 'promo': mv[4], 'castles': mv[5], 'ep': mv[6], 'double': mv[7]}
            a = CR.ref_make(d, p)
            return {'turn': a['turn'], 'fullmove': a['fullmove'], 'ep': a['ep'], 'bb': a['bb'], 'ph': a['ph'], 'zkey': 0,
                    'history': d['history'] + [{'rights': a['rights'], 'hmc': a['hmc']}]}
    return None


def _ref_words(d, limit=400):
    """probe words for a position: every legal coordinate string, every pseudo-legal one, and near misses"""
    from . import chessref_concrete as CR
    legal = sorted({_ref_notation(mv) for mv in CR.legal_moves(d)})
    mb = CR.mailbox(d)
    pseudo = sorted({_ref_notation(mv) for s_, (k, c) in mb.items() if c == d['turn'] for mv in CR.pseudo_moves_from(d, s_)})
    out = list(legal)
    out += [w for w in pseudo if w not in legal]
    for w in legal[:6]:
        out += [w[:4] if len(w) == 5 else w + 'q', w[2:4] + w[0:2], w.upper(), w[:3]]
    out += ['a2a5', 'e2e4x', 'zzzz', 'e9e4']
    seen, res = set(), []
    for w in out:
        if w and w not in seen and w.isascii() and w.isprintable() and ' ' not in w:
            seen.add(w)
            res.append(w)
    return res[:limit], set(legal)


def _same_position(d_ref, d_nat):
    return (d_ref['bb'][:12] == d_nat['bb'][:12] and d_ref['turn'] == d_nat['turn'] and d_ref['ep'] == d_nat['ep']
            and d_ref['history'][-1]['rights'] == d_nat['history'][-1]['rights'])


def _run_session(run, lines):
    args = []
    for i, ln in enumerate(lines):
        if i:
            args.append(';;')
        args += ln.split()
    rc, out, err = native.run_helper(run.helper, ['uci', 'session'] + args)
    from .boardstep import parse_board_tokens
    res = []
    for l in out.strip().splitlines():
        t = l.split()
        if t[0] == 'PANIC':
            res.append(('PANIC', None))
            break
        res.append((t[1], parse_board_tokens(t[2:])))
    return res


def _ref_session(run, lines, cache):
    """(expected outcome, expected position in force) after each line, by the independent rules"""
    def base(tok):
        key = ' '.join(tok)
        if key not in cache:
            cache[key] = _ref_board(run, STARTFEN if tok[0] == 'startpos' else ' '.join(tok[1:7]))
        return cache[key]
    cur = base(['startpos'])
    res = []
    for ln in lines:
        t = ln.split()
        if t[0] == 'ucinewgame':
            cur = base(['startpos'])
            res.append(('ok', cur))
            continue
        n = 1 if t[1] == 'startpos' else 7
        b = base(t[1:1 + n])
        words = t[2 + n:] if len(t) > 1 + n else []
        for w in words:
            b = _ref_play(b, w) if b is not None else None
        if b is None:
            res.append(('execerr', cur))
        else:
            cur = b
            res.append(('ok', cur))
    return res


def session_battery(run):
    """concrete sessions exercising every clause of the property: each legal / pseudo-legal / malformed word as a single move and
    as the last of two moves, a refused command after an accepted one, a second position command after moves, ucinewgame"""
    cache = {}
    out = []
    for pos in SESSION_POSITIONS:
        d = _ref_board(run, STARTFEN if pos == 'startpos' else pos[4:])
        if d is None:
            continue
        words, legal = _ref_words(d)
        for w in words:
            out.append(['position %s moves %s' % (pos, w)])
        first = sorted(legal)[:3]
        for m1 in first:
            d1 = _ref_play(d, m1)
            w2, legal2 = _ref_words(d1, 60)
            for w in w2:
                out.append(['position %s moves %s %s' % (pos, m1, w)])
            out.append(['position %s moves %s' % (pos, m1), 'position startpos moves e2e5', 'position %s' % pos])
            out.append(['position %s moves %s' % (pos, m1), 'position %s moves %s zzzz' % (pos, m1), 'position startpos moves e2e4'])
            out.append(['position %s moves %s' % (pos, m1), 'ucinewgame', 'position %s moves %s' % (pos, m1), 'position startpos'])
            out.append(['position startpos moves e2e4 e7e5', 'position %s moves %s' % (pos, m1), 'position startpos moves e2e4 e7e5 g1f3'])
    return out, cache


def replay_session(run):
    """the battery of concrete sessions on the real engine against the independent rules: the first disagreement as
    (description, replay record), None when the engine agrees everywhere.  Cached per helper binary (i.e. per tree)."""
    import os
    memo = run.helper + '.c08-battery.json'
    with native._Lock('c08-battery-' + os.path.basename(run.helper)):
        if os.path.exists(memo):
            return json.load(open(memo))
        res = _replay_session(run)
        json.dump(res, open(memo, 'w'))
        return res


def _replay_session(run):
    battery, cache = session_battery(run)
    for lines in battery:
        got = _run_session(run, lines)
        exp = _ref_session(run, lines, cache)
        for i, ((go, gb), (eo, eb)) in enumerate(zip(got, exp)):
            bad = None
            if go == 'PANIC':
                bad = 'panics the engine'
            elif go != eo:
                bad = 'is %s by the real engine but must be %s' % ('accepted' if go == 'ok' else 'refused', 'accepted' if eo == 'ok' else 'refused')
            elif eb is not None and not _same_position(eb, gb):
                bad = 'leaves a position in force that differs from the one the rules of chess give'
            if bad:
                return ['in the session `%s`, line %d `%s` %s' % (' ; '.join(lines[:i + 1]), i + 1, lines[i], bad),
                        {'cmd': 'ucisession', 'lines': lines[:i + 1]}]
        if len(got) < len(exp):
            return ['the session `%s` stops answering' % ' ; '.join(lines), {'cmd': 'ucisession', 'lines': lines}]
    return None


def abstract_violation(run, name, what, extra):
    """a solver counterexample over abstract boards / moves: reported only with a concrete session that fails on the real engine"""
    res = replay_session(run)
    if res:
        rec = dict(res[1])
        rec.update(extra)
        run.violation('%s: %s; on the real engine: %s' % (name, what, res[0]), rec)
    else:
        run.inconclusive.append('%s: %s (solver counterexample over abstract positions) -- not reproduced by the concrete session battery on the real engine' % (name, what))


def replay_session_file(run, c):
    cache = {}
    got = _run_session(run, c['lines'])
    exp = _ref_session(run, c['lines'], cache)
    for (go, gb), (eo, eb) in zip(got, exp):
        print('  got %s, expected %s; position %s' % (go, eo, 'as expected' if gb is not None and eb is not None and _same_position(eb, gb) else 'DIFFERS'))
    last = len(exp) - 1
    if len(got) <= last or got[last][0] != exp[last][0] or not _same_position(exp[last][1], got[last][1]):
        return 1
    return 0


def replay_find(run, name, word, cands, accepted):
    """replay on the real code (helper `uci exec`: one position command on a fresh session): a word must be accepted exactly
    when it is the coordinate string of a legal move (independent rules).  The solver's counterexample is transferred to a few
    concrete positions: the word itself, the byte-wise difference to each of the model's candidates applied to the legal
    moves of the position, a legal promotion with its suffix dropped / changed, and some generic malformed words."""
    from .c09 import reference_legal_notations
    try:
        w = bytes(word).decode('ascii')
    except Exception:
        w = None
    shown = w if w is not None and w.isprintable() and ' ' not in w else repr(bytes(word))
    for pos in REPLAY_POSITIONS:
        legal = reference_legal_notations(run, ['position ' + pos])
        if legal is None:
            continue
        probes = [w] if w else []
        for c in cands:
            if len(word) < 4 or len(c) < 4:
                continue
            delta = [word[k] - ord(c[k]) for k in range(4)]
            for lm in sorted(legal):
                pw = ''.join(chr((ord(lm[k]) + delta[k]) & 0xff) for k in range(4)) + ''.join(chr(x) for x in word[4:])
                probes.append(pw)
        for lm in sorted(legal):
            if len(lm) == 5:
                probes += [lm[:4], lm[:4] + lm[4].upper(), lm[:4] + 'k', lm[:4] + 'p']
            else:
                probes += [lm + 'q', lm.upper()]
        probes += ['a2a5', 'e2e4x', 'e2e', 'e2e4e5']
        seen = set()
        for pw in probes:
            if not pw or pw in seen or not pw.isascii() or not pw.isprintable() or ' ' in pw:
                continue
            seen.add(pw)
            rc, out, err = native.run_helper(run.helper, ['uci', 'exec', 'position'] + pos.split() + ['moves', pw])
            if out.startswith('PANIC'):
                run.violation('%s: `position %s moves %s` panics the engine: %s' % (name, pos, pw, out.strip()[:120]),
                              {'cmd': 'uciexec', 'tokens': ['position'] + pos.split() + ['moves', pw]})
                return
            acc = out.startswith('OK ok')
            if acc != (pw in legal):
                run.violation('%s: `position %s moves %s` is %s by the real engine although the word %s' % (
                    name, pos, pw, 'accepted' if acc else 'refused', 'names a legal move' if pw in legal else 'names no legal move'),
                    {'cmd': 'uciexec', 'tokens': ['position'] + pos.split() + ['moves', pw], 'legal': sorted(legal)})
                return
    run.inconclusive.append('%s: solver counterexample (word %s, candidates %s, accepted=%s) not reproduced on the real engine' % (name, shown, cands, accepted))


def token_level(job):
    """cases that execute the real find_move on *abstract tokens* (words as (kind, number) pairs)"""
    return job[0] == 'FIND' or (job[0] == 'LOAD' and len(job) > 3 and job[3] == 'lists') or (job[0] == 'SESSION' and job[1] and job[1][0] == 'lists')


def worker(run, job):
    try:
        worker_(run, job)
    except Unsupported as e:
        # a find_move that works on the bytes of the word cannot be executed on abstract tokens.  That is not a gap as long as
        # the byte-level lemma FIND-BYTES decides find_move itself and the summarised LOAD/SESSION cases decide the rest
        # (check() drops these notes only then).
        if token_level(job) and 'TokV' in str(e):
            run.inconclusive.append('NA-TOKEN-LEVEL %r: %s' % (job, e))
        else:
            raise


def worker_(run, job):
    kind = job[0]
    if kind == 'PARSE':
        parse_case(run, job[1])
    elif kind == 'LOAD':
        load_case(run, job[1:])
    elif kind == 'SESSION':
        session_case(run, job[1])
    elif kind == 'NEWGAME':
        newgame_case(run)
    elif kind == 'FIND':
        find_case(run)
    elif kind == 'FINDB':
        findb_case(run, job[1])
    elif kind == 'NOTATION':
        from . import fmtmodel
        fmtmodel.notation_case(run)


def check(run, replay=None):
    if replay:
        run.build()
        c = json.load(open(replay))
        if c.get('cmd') == 'uciexec':
            rc, out, e = native.run_helper(run.helper, ['uci', 'exec'] + c['tokens'])
            print('replay exec %r -> %s (legal moves by the independent rules: %s)' % (' '.join(c['tokens']), out.strip()[:80], ' '.join(c.get('legal', []))))
            return 1
        if c.get('cmd') == 'ucisession':
            return replay_session_file(run, c)
        if c.get('cmd') == 'parse':
            rc, out, e = native.run_helper(run.helper, ['uci', 'parse'] + c['tokens'])
            print('replay parse %r -> %s' % (c['tokens'], out.strip()[:300]))
        return 1
    run.build()
    if not B.check_layout(run.prog):
        run.inconclusive.append('data layout differs')
        return
    run.extra['explanation'] = __doc__
    N = 12 if run.tier == 'quick' else 16
    K = 4 if run.tier == 'quick' else 8
    jobs = [('PARSE', n) for n in range(1, N + 1)] + [('LOAD', 'startpos', k) for k in range(-1, K + 1)] + [('LOAD', 'fen', k) for k in range(-1, K + 1)]
    import itertools
    H = 3
    alphabet = ['N', 0, 1, 2]
    for h in range(1, H + 1):
        jobs += [('SESSION', seq) for seq in itertools.product(alphabet, repeat=h) if seq[-1] != 'N' or h == 1]
    # the same obligations one level lower (real find_move over abstract move lists): fewer moves / shorter sessions
    jobs += [('LOAD', kind_, k_, 'lists') for kind_ in ('startpos', 'fen') for k_ in (-1, 0, 1, 2)]
    jobs += [('SESSION', ('lists',) + seq) for h in (1, 2) for seq in itertools.product(alphabet[:3], repeat=h) if seq[-1] != 'N' or h == 1]
    jobs += [('NEWGAME',), ('FIND',), ('NOTATION',)] + [('FINDB', L) for L in (3, 4, 5, 6)]
    run.bounds.append('sessions of <= %d position/ucinewgame commands from Uci::new(), <= 2 moves each' % H)
    run.bounds.append('position lines of <= %d tokens; <= %d moves in load_position; find_move over 4 candidate legal moves' % (N, K))
    run.outside += ['stdin/stdout framing', 'the legal move set (C01) and make_move (C03) themselves', 'FEN parsing (C07)']
    run.stubs |= {'abstract tokens', 'boards and moves as uninterpreted terms in load_position', 'format!/Display/String byte-level model for to_notation'}
    run.parallel(worker, jobs)
    na = [x for x in run.inconclusive if x.startswith('NA-TOKEN-LEVEL')]
    if na:
        rest = [x for x in run.inconclusive if not x.startswith('NA-TOKEN-LEVEL')]
        findb_decided = sum(1 for q in run.queries if q['id'].startswith('FIND-BYTES/') and q['verdict'] in ('unsat', 'sat')) >= 4
        if findb_decided and not any(('FINDB' in x or 'FIND-BYTES' in x) for x in rest):
            run.inconclusive[:] = rest
            run.outside.append('%d token-level cases (FIND, LISTS) not executed: find_move reads the bytes of the word on this tree; it is decided by FIND-BYTES, '
                               'LOAD/SESSION with find_move summarised decide the rest' % len(na))
            run.extra['token_level_cases_not_applicable'] = na
