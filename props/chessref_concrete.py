"""Concrete mailbox chess rules (python), used to judge native replays: an independent, deliberately naive
implementation (8x8 array of (kind, colour) or None)."""
from . import boardsym as B

CORNER_RIGHT = {7: 0, 0: 1, 63: 2, 56: 3}


def mailbox(d):
    """dict(sq -> (kind, color)) from the 12 piece sets of a parsed board"""
    mb = {}
    for c in (0, 1):
        for k in range(6):
            x = d['bb'][B.bb_field(k, c)]
            for s in range(64):
                if x >> s & 1:
                    mb[s] = (k, c)
    return mb


def sets_from_mailbox(mb):
    bb = [0] * 15
    for s, (k, c) in mb.items():
        bb[B.bb_field(k, c)] |= 1 << s
    for i in range(6):
        bb[12] |= bb[i]
        bb[13] |= bb[6 + i]
    bb[14] = bb[12] | bb[13]
    return bb


def ref_make(d0, p):
    """expected state after playing move record p (dict) in position d0 (dict); only rule-defined components"""
    mb = mailbox(d0)
    me = d0['turn']
    s, t = p['sr'] * 8 + p['sf'], p['dr'] * 8 + p['df']
    prev = d0['history'][-1]
    piece = mb.get(s)
    capture_sq = p['sr'] * 8 + p['df'] if p['ep'] else t
    captured = mb.get(capture_sq) if (p['ep'] or t in mb) else None
    mb.pop(s, None)
    if captured is not None:
        mb.pop(capture_sq, None)
    land = (p['promo'], me) if p['promo'] >= 0 else piece
    mb[t] = land
    if p['castles']:
        base = 0 if me == 0 else 56
        if p['df'] == 6:
            mb.pop(base + 7, None)
            mb[base + 5] = (B.ROOK, me)
        else:
            mb.pop(base, None)
            mb[base + 3] = (B.ROOK, me)
    rights = list(prev['rights'])  # 0 = available
    if piece and piece[0] == B.KING:
        for i in ((0, 1) if me == 0 else (2, 3)):
            rights[i] = 1
    for sq in (s, t):
        if sq in CORNER_RIGHT:
            rights[CORNER_RIGHT[sq]] = 1
    hmc = 0 if (piece and piece[0] == B.PAWN) or captured is not None else prev['hmc'] + 1
    return {'turn': 1 - me, 'fullmove': d0['fullmove'] + (1 if me == 1 else 0), 'ep': p['df'] if p['double'] else -1,
            'bb': sets_from_mailbox(mb), 'rights': rights, 'hmc': hmc & 0xffff, 'ph': list(d0['ph']) + [d0['zkey']],
            'nhist': len(d0['history']) + 1}


def diff_state(exp, d1):
    out = []
    for k in ('turn', 'fullmove', 'ep', 'bb'):
        if exp[k] != d1[k]:
            out.append(k)
    top = d1['history'][-1]
    if top['rights'] != exp['rights']:
        out.append('castling_rights')
    if top['hmc'] != exp['hmc']:
        out.append('halfmove_clock')
    if sorted(set(exp['ph'])) != sorted(set(d1['ph'])):
        out.append('position_record')
    if len(d1['history']) != exp['nhist']:
        out.append('history_length')
    return out
