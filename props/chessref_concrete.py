"""Concrete mailbox chess rules (python), used to judge native replays: an independent, deliberately naive
implementation (8x8 array of (kind, colour) or None)."""
from . import boardsym as B

CORNER_RIGHT = {7: 0, 0: 1, 63: 2, 56: 3}


def mailbox(d):
    """dict(sq -> (kind, color)) from the 12 piece sets of a parsed board"""
    mb = {}
    for c in (0, 1):
        for k in range(6):
            x = d['bb'][B.bb_field(k, c)]
            for s in range(64):
                if x >> s & 1:
                    mb[s] = (k, c)
    return mb


def sets_from_mailbox(mb):
    bb = [0] * 15
    for s, (k, c) in mb.items():
        bb[B.bb_field(k, c)] |= 1 << s
    for i in range(6):
        bb[12] |= bb[i]
        bb[13] |= bb[6 + i]
    bb[14] = bb[12] | bb[13]
    return bb


def ref_make(d0, p):
    """expected state after playing move record p (dict) in position d0 (dict); only rule-defined components"""
    mb = mailbox(d0)
    me = d0['turn']
    s, t = p['sr'] * 8 + p['sf'], p['dr'] * 8 + p['df']
    prev = d0['history'][-1]
    piece = mb.get(s)
    capture_sq = p['sr'] * 8 + p['df'] if p['ep'] else t
    captured = mb.get(capture_sq) if (p['ep'] or t in mb) else None
    mb.pop(s, None)
    if captured is not None:
        mb.pop(capture_sq, None)
    land = (p['promo'], me) if p['promo'] >= 0 else piece
    mb[t] = land
    if p['castles']:
        base = 0 if me == 0 else 56
        if p['df'] == 6:
            mb.pop(base + 7, None)
            mb[base + 5] = (B.ROOK, me)
        else:
            mb.pop(base, None)
            mb[base + 3] = (B.ROOK, me)
    rights = list(prev['rights'])  # 0 = available
    if piece and piece[0] == B.KING:
        for i in ((0, 1) if me == 0 else (2, 3)):
            rights[i] = 1
    for sq in (s, t):
        if sq in CORNER_RIGHT:
            rights[CORNER_RIGHT[sq]] = 1
    hmc = 0 if (piece and piece[0] == B.PAWN) or captured is not None else prev['hmc'] + 1
    return {'turn': 1 - me, 'fullmove': d0['fullmove'] + (1 if me == 1 else 0), 'ep': p['df'] if p['double'] else -1,
            'bb': sets_from_mailbox(mb), 'rights': rights, 'hmc': hmc & 0xffff, 'ph': list(d0['ph']) + [d0['zkey']],
            'nhist': len(d0['history']) + 1}


def diff_state(exp, d1):
    out = []
    for k in ('turn', 'fullmove', 'ep', 'bb'):
        if exp[k] != d1[k]:
            out.append(k)
    top = d1['history'][-1]
    if top['rights'] != exp['rights']:
        out.append('castling_rights')
    if top['hmc'] != exp['hmc']:
        out.append('halfmove_clock')
    if sorted(set(exp['ph'])) != sorted(set(d1['ph'])):
        out.append('position_record')
    if len(d1['history']) != exp['nhist']:
        out.append('history_length')
    return out


# ------------------------------------------------------------------ attacks / move generation (concrete, mailbox)

KNIGHT_D = [(2, 1), (2, -1), (-2, 1), (-2, -1), (1, 2), (1, -2), (-1, 2), (-1, -2)]
KING_D = [(1, 0), (-1, 0), (0, 1), (0, -1), (1, 1), (1, -1), (-1, 1), (-1, -1)]
ROOK_D = [(1, 0), (-1, 0), (0, 1), (0, -1)]
BISHOP_D = [(1, 1), (1, -1), (-1, 1), (-1, -1)]


def attacked_by(mb, by):
    """set of squares attacked by colour `by`"""
    out = set()
    for s, (k, c) in mb.items():
        if c != by:
            continue
        r0, f0 = divmod(s, 8)
        if k == B.KNIGHT or k == B.KING:
            for dr, df in (KNIGHT_D if k == B.KNIGHT else KING_D):
                r, f = r0 + dr, f0 + df
                if 0 <= r < 8 and 0 <= f < 8:
                    out.add(r * 8 + f)
        elif k == B.PAWN:
            r = r0 + (1 if c == 0 else -1)
            for df in (-1, 1):
                f = f0 + df
                if 0 <= r < 8 and 0 <= f < 8:
                    out.add(r * 8 + f)
        else:
            dirs = (ROOK_D if k in (B.ROOK, B.QUEEN) else []) + (BISHOP_D if k in (B.BISHOP, B.QUEEN) else [])
            for dr, df in dirs:
                r, f = r0 + dr, f0 + df
                while 0 <= r < 8 and 0 <= f < 8:
                    out.add(r * 8 + f)
                    if r * 8 + f in mb:
                        break
                    r += dr
                    f += df
    return out


def mask_of(squares):
    v = 0
    for s in squares:
        v |= 1 << s
    return v


def pseudo_moves_from(d, s):
    """reference pseudo-legal move records (as comparable tuples) of the piece on square s:
       (sr, sf, dr, df, promo_kind|-1, castles, ep, double)  -- captured piece is implied by the position"""
    mb = mailbox(d)
    k, c = mb[s]
    r0, f0 = divmod(s, 8)
    out = []

    def add(t, promo=-1, castles=0, ep=0, dbl=0):
        out.append((r0, f0, t // 8, t % 8, promo, castles, ep, dbl))
    if k in (B.KNIGHT, B.KING):
        for dr, df in (KNIGHT_D if k == B.KNIGHT else KING_D):
            r, f = r0 + dr, f0 + df
            if 0 <= r < 8 and 0 <= f < 8 and mb.get(r * 8 + f, (None, None))[1] != c:
                add(r * 8 + f)
        if k == B.KING:
            rights = d['history'][-1]['rights']
            home = 4 if c == 0 else 60
            if s == home and d['turn'] == c:
                att = attacked_by(mb, 1 - c)
                ks, qs = (0, 1) if c == 0 else (2, 3)
                if rights[ks] == 0 and all(x not in mb for x in (home + 1, home + 2)) and not any(x in att for x in (home, home + 1, home + 2)):
                    add(home + 2, castles=1)
                if rights[qs] == 0 and all(x not in mb for x in (home - 1, home - 2, home - 3)) and not any(x in att for x in (home, home - 1, home - 2)):
                    add(home - 2, castles=1)
    elif k == B.PAWN:
        fwd = 1 if c == 0 else -1
        last = 7 if c == 0 else 0
        homer = 1 if c == 0 else 6
        epr = 4 if c == 0 else 3

        def addp(t, **kw):
            if t // 8 == last:
                for pr in (B.QUEEN, B.ROOK, B.KNIGHT, B.BISHOP):
                    add(t, promo=pr)
            else:
                add(t, **kw)
        r = r0 + fwd
        if 0 <= r < 8:
            for df in (-1, 1):
                f = f0 + df
                if 0 <= f < 8 and mb.get(r * 8 + f, (None, None))[1] == 1 - c:
                    addp(r * 8 + f)
            if r * 8 + f0 not in mb:
                addp(r * 8 + f0)
                if r0 == homer and (r + fwd) * 8 + f0 not in mb:
                    add((r + fwd) * 8 + f0, dbl=1)
            if r0 == epr and d['ep'] >= 0 and abs(d['ep'] - f0) == 1:
                add(r * 8 + d['ep'], ep=1)
    else:
        dirs = (ROOK_D if k in (B.ROOK, B.QUEEN) else []) + (BISHOP_D if k in (B.BISHOP, B.QUEEN) else [])
        for dr, df in dirs:
            r, f = r0 + dr, f0 + df
            while 0 <= r < 8 and 0 <= f < 8:
                t = r * 8 + f
                if t in mb:
                    if mb[t][1] != c:
                        add(t)
                    break
                add(t)
                r += dr
                f += df
    return out


def ply_key(p):
    """comparable tuple of a native/parsed ply dict in the same format as pseudo_moves_from"""
    return (p['sr'], p['sf'], p['dr'], p['df'], p['promo'], p['castles'], p['ep'], p['double'])


def legal_moves(d):
    """reference legal moves of the side to move: pseudo-legal moves after which the own king is not attacked"""
    mb = mailbox(d)
    me = d['turn']
    out = []
    for s, (k, c) in sorted(mb.items()):
        if c != me:
            continue
        for mv in pseudo_moves_from(d, s):
            p = {'sr': mv[0], 'sf': mv[1], 'dr': mv[2], 'df': mv[3], 'promo': mv[4], 'castles': mv[5], 'ep': mv[6], 'double': mv[7]}
            after = ref_make(d, p)
            mb2 = mailbox({'bb': after['bb']})
            ksq = [x for x, v in mb2.items() if v == (B.KING, me)]
            if ksq and ksq[0] not in attacked_by(mb2, 1 - me):
                out.append(mv)
    return out
