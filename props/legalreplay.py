"""Native replay for C01's list-level lemmas: the real Board::get_legal_moves against the independent mailbox rules on concrete
positions.  It decides nothing; it turns a solver model about the *assembly* of the legal-move list (lemma L7, whose
environment answers legality questions arbitrarily) into a concrete position, or shows that no such position is found - in
which case the lemma's abstraction does not fit the implementation under test and the check answers inconclusive.

Positions (deterministic): the repository's own FENs, and a structured generator aimed at what list assembly can get wrong -
a king with a piece of every kind pinned (or merely standing) on each of the 8 lines towards an enemy slider of every
fitting kind, a second and third piece of the same kind nearby (shared destinations), checks, both colours, plus random
extra material.
"""
import json
import os
import random
from concurrent.futures import ThreadPoolExecutor

from mirsym import native
from . import boardsym as B
from . import boardstep as BS
from . import chessref_concrete as CC
from .concrete import repo_fens, parse_plies, ply_from_tokens

LETTER = {B.PAWN: 'p', B.KNIGHT: 'n', B.BISHOP: 'b', B.ROOK: 'r', B.QUEEN: 'q', B.KING: 'k'}
DIRS = [(1, 0), (-1, 0), (0, 1), (0, -1), (1, 1), (1, -1), (-1, 1), (-1, -1)]


def fen_of(mb, turn):
    rows = []
    for r in range(7, -1, -1):
        row, gap = '', 0
        for f in range(8):
            p = mb.get(r * 8 + f)
            if p is None:
                gap += 1
                continue
            if gap:
                row += str(gap)
                gap = 0
            ch = LETTER[p[0]]
            row += ch.upper() if p[1] == 0 else ch
        if gap:
            row += str(gap)
        rows.append(row)
    return '%s %s - - 0 1' % ('/'.join(rows), 'wb'[turn])


def generated(seed=20260928, per_config=16):
    rnd = random.Random(seed)
    out = []
    kinds = [B.QUEEN, B.ROOK, B.BISHOP, B.KNIGHT, B.PAWN]
    for me in (0, 1):
        for (dr, df) in DIRS:
            sliders = [B.QUEEN, B.ROOK] if 0 in (dr, df) else [B.QUEEN, B.BISHOP]
            for sl in sliders:
                for pk in kinds:
                    for _ in range(per_config):
                        for attempt in range(20):
                            kr, kf = rnd.randrange(8), rnd.randrange(8)
                            d1 = rnd.randrange(1, 4)
                            d2 = d1 + rnd.randrange(1, 4)
                            pr, pf = kr + dr * d1, kf + df * d1
                            sr, sf = kr + dr * d2, kf + df * d2
                            if not (0 <= sr < 8 and 0 <= sf < 8):
                                continue
                            if pk == B.PAWN and pr in (0, 7):
                                continue
                            mb = {kr * 8 + kf: (B.KING, me), pr * 8 + pf: (pk, me), sr * 8 + sf: (sl, 1 - me)}
                            free = [s for s in range(64) if s not in mb]
                            rnd.shuffle(free)
                            # the enemy king, not adjacent to ours
                            ek = next((s for s in free if max(abs(s // 8 - kr), abs(s % 8 - kf)) > 1), None)
                            if ek is None:
                                continue
                            mb[ek] = (B.KING, 1 - me)
                            free.remove(ek)
                            # more pieces of the pinned kind (shared destinations), some other material of both colours
                            for _ in range(rnd.randrange(0, 3)):
                                s = free.pop()
                                if pk == B.PAWN and s // 8 in (0, 7):
                                    continue
                                mb[s] = (pk, me)
                            for _ in range(rnd.randrange(0, 4)):
                                s = free.pop()
                                k = rnd.choice(kinds)
                                if k == B.PAWN and s // 8 in (0, 7):
                                    continue
                                mb[s] = (k, rnd.randrange(2))
                            # the side not to move must not be in check (a reachable position)
                            ksq = {c: [s for s, v in mb.items() if v == (B.KING, c)][0] for c in (0, 1)}
                            if ksq[1 - me] in CC.attacked_by(mb, me):
                                continue
                            out.append(fen_of(mb, me))
                            break
    return out


def battery(run):
    """first position where engine and rules disagree on the list of legal moves: [text, replay record]; None if they agree on
    every position; cached per helper binary"""
    memo = run.helper + '.legalmoves.json'
    with native._Lock('legalmoves-' + os.path.basename(run.helper)):
        if os.path.exists(memo):
            return json.load(open(memo))
        fens = repo_fens() + generated()

        def one(fen):
            try:
                return fen, compare(run, fen)
            except Exception as e:      # a position the helper refuses is no evidence either way
                return fen, None
        res = None
        with ThreadPoolExecutor(16) as tp:
            n = 0
            for fen, bad in tp.map(one, fens):
                n += 1
                if bad and res is None:
                    res = ['in `%s` %s' % (fen, bad), {'cmd': 'legalmoves', 'fen': fen}]
        if res is None:
            res = {'positions_compared': n}
        json.dump(res, open(memo, 'w'))
        return res


def compare(run, fen):
    stt, btoks = BS.native_board_cmd(run, 'fen', [], fen.split())
    if stt != 'OK':
        return None
    d = BS.parse_board_tokens(btoks)
    stt, out = BS.native_board_cmd(run, 'legalmoves', btoks)
    if stt != 'OK':
        return 'get_legal_moves panics: %s' % ' '.join(out)[:120] if stt == 'PANIC' else None
    got = sorted(CC.ply_key(ply_from_tokens(t)) for t in parse_plies(out))
    want = sorted(CC.legal_moves(d))
    if got == want:
        return None
    name = lambda m: 'abcdefgh'[m[1]] + str(m[0] + 1) + 'abcdefgh'[m[3]] + str(m[2] + 1)
    extra = [name(m) for m in got if m not in want]
    missing = [name(m) for m in want if m not in got]
    dup = len(got) != len(set(got))
    return 'get_legal_moves %s%s%s' % ('offers illegal move(s) %s ' % ' '.join(extra[:4]) if extra else '',
                                       'omits legal move(s) %s ' % ' '.join(missing[:4]) if missing else '',
                                       'lists a move twice' if dup and not (extra or missing) else '')


def replay_file(run, c):
    bad = compare(run, c['fen'])
    print('replay legal moves of `%s`: %s' % (c['fen'], bad or 'engine and rules agree'))
    return 1 if bad else 0
