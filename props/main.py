import importlib
import sys

from mirsym.harness import run_check

LEVELS = {}


def main():
    if len(sys.argv) < 2:
        print('usage: check <ID> [--tier quick|thorough] [--replay path]')
        return 3
    pid = sys.argv[1].upper()
    try:
        mod = importlib.import_module('props.' + pid.lower())
    except ModuleNotFoundError:
        print('no check for', pid)
        return 3
    return run_check(pid, mod.check, getattr(mod, 'LEVEL', 'proof'))


if __name__ == '__main__':
    sys.exit(main())
