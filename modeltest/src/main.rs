// Translator validation for mirsym's std models: each function uses a few std operations on values derived from its
// two u64 arguments; it is run natively and through mirsym (concretely) on the same inputs and the results compared.
#![allow(clippy::all)]
use std::convert::TryFrom;

fn small(a: u64) -> [u8; 6] {
    [(a & 7) as u8, ((a >> 3) & 7) as u8, ((a >> 6) & 7) as u8, ((a >> 9) & 7) as u8, ((a >> 12) & 7) as u8, ((a >> 15) & 7) as u8]
}
fn opt(a: u64) -> Option<u64> { if a & 1 == 1 { Some(a >> 1) } else { None } }
fn res(a: u64) -> Result<u64, u8> { if a & 1 == 1 { Ok(a >> 1) } else { Err((a >> 1) as u8) } }

#[inline(never)] pub fn t00(a: u64, b: u64) -> u64 { opt(a).and_then(|x| if x % 3 == 0 { Some(x + b % 5) } else { None }).unwrap_or(77) }
#[inline(never)] pub fn t01(a: u64, b: u64) -> u64 { opt(a).map_or(b % 11, |x| x % 13) }
#[inline(never)] pub fn t02(a: u64, b: u64) -> u64 { opt(a).unwrap_or_else(|| b % 17) }
#[inline(never)] pub fn t03(a: u64, b: u64) -> u64 { match opt(a).xor(opt(b)) { Some(x) => x % 1000, None => 5 } }
#[inline(never)] pub fn t04(a: u64, b: u64) -> u64 { match opt(a).zip(opt(b)) { Some((x, y)) => (x % 100) * 100 + y % 100, None => 3 } }
#[inline(never)] pub fn t05(a: u64, b: u64) -> u64 { let mut o = opt(a); let t = o.take(); let r = o.replace(b % 9); t.unwrap_or(1) % 50 + r.unwrap_or(2) + o.unwrap_or(0) }
#[inline(never)] pub fn t06(a: u64, b: u64) -> u64 { opt(a).filter(|x| x % 2 == b % 2).map(|x| x % 97).unwrap_or(99) }
#[inline(never)] pub fn t07(a: u64, b: u64) -> u64 { res(a).map(|x| x % 7).and_then(|x| if x > 2 { Ok(x + b % 3) } else { Err(9) }).unwrap_or_else(|e| u64::from(e) % 31) }
#[inline(never)] pub fn t08(a: u64, _b: u64) -> u64 { res(a).err().map_or(1000, |e| u64::from(e)) + res(a).unwrap_or_default() % 10 }
#[inline(never)] pub fn t09(a: u64, b: u64) -> u64 { (a % 1000).checked_div(b % 4).unwrap_or(12345) + (a % 1000).checked_rem(b % 3).unwrap_or(7) }
#[inline(never)] pub fn t10(a: u64, b: u64) -> u64 { let x = a as i32; let y = (b % 100) as i32 - 50; (x.wrapping_neg() as u32 as u64) ^ (y.signum() as u32 as u64) ^ u64::from(y.unsigned_abs()) ^ u64::from((a as u32).abs_diff(b as u32)) }
#[inline(never)] pub fn t11(a: u64, b: u64) -> u64 { u64::from(a.is_power_of_two()) + a.rotate_left((b % 64) as u32) % 1000 + a.rotate_right((b % 70) as u32) % 999 + u64::from(a.leading_ones()) + u64::from(a.trailing_ones()) }
#[inline(never)] pub fn t12(a: u64, b: u64) -> u64 { let (r, o) = (a as u8).overflowing_add(b as u8); let (r2, o2) = (a as u8).overflowing_mul(b as u8); u64::from(r) + 256 * u64::from(o) + 512 * u64::from(r2) + 1 * u64::from(o2) }
#[inline(never)] pub fn t13(a: u64, b: u64) -> u64 { ((a % 10) as u32).pow(3) as u64 + (b % 100).clamp(10, 60) + ((a as i8).saturating_mul(b as i8) as u8 as u64) }
#[inline(never)] pub fn t14(a: u64, b: u64) -> u64 { let c = (a % 128) as u8; u64::from(c.is_ascii_digit()) + 2 * u64::from(c.is_ascii_lowercase()) + 4 * u64::from(c.is_ascii_uppercase()) + 8 * u64::from(c.is_ascii_alphabetic()) + 16 * u64::from(c.to_ascii_lowercase()) + 4096 * u64::from(c.to_ascii_uppercase()) + u64::from((c as char).to_digit(10).unwrap_or(11)) * 1_000_000 + b % 2 }
#[inline(never)] pub fn t15(a: u64, b: u64) -> u64 { let s = small(a); s.iter().take((b % 8) as usize).map(|&x| u64::from(x)).sum::<u64>() + 100 * s.iter().skip((b % 5) as usize).count() as u64 }
#[inline(never)] pub fn t16(a: u64, b: u64) -> u64 { let s = small(a); let t = small(b); s.iter().zip(t.iter()).filter(|(x, y)| x > y).count() as u64 + 10 * s.iter().rev().position(|&x| x == 3).map_or(9, |p| p as u64) }
#[inline(never)] pub fn t17(a: u64, b: u64) -> u64 { let s = small(a); let t = small(b); u64::from(s.iter().chain(t.iter()).all(|&x| x < 7)) + 2 * u64::from(*s.iter().last().unwrap()) + 20 * u64::from(s.iter().copied().nth(2).unwrap()) + 200 * s.iter().fold(0u64, |acc, &x| acc * 3 + u64::from(x)) % 100_000 }
#[inline(never)] pub fn t18(a: u64, b: u64) -> u64 { let s = small(a); u64::from(s.iter().copied().max().unwrap()) + 10 * u64::from(s.iter().copied().min().unwrap()) + 100 * s.iter().filter_map(|&x| if u64::from(x) > b % 8 { Some(u64::from(x) * 2) } else { None }).sum::<u64>() + 10_000 * s.iter().find_map(|&x| if x % 2 == 1 { Some(u64::from(x)) } else { None }).unwrap_or(8) }
#[inline(never)] pub fn t19(a: u64, b: u64) -> u64 { let s = small(a); s.iter().take_while(|&&x| u64::from(x) != b % 8).count() as u64 + 10 * s.iter().skip_while(|&&x| u64::from(x) != b % 8).count() as u64 + 100 * s.iter().copied().max_by_key(|&x| x % 4).map_or(0, u64::from) + 1000 * s.iter().copied().min_by_key(|&x| x % 3).map_or(0, u64::from) }
#[inline(never)] pub fn t20(a: u64, b: u64) -> u64 { let s = small(a); let (l, r) = s.split_at((b % 7) as usize); let f = s.split_first().map_or(0, |(x, rest)| u64::from(*x) + rest.len() as u64); l.len() as u64 + 10 * r.iter().map(|&x| u64::from(x)).sum::<u64>() + 1000 * f + 100_000 * u64::from(s.ends_with(&[s[4], s[5]])) + 1_000_000 * s.get(1..(b % 9) as usize).map_or(77, |w| w.len() as u64) }
#[inline(never)] pub fn t21(a: u64, b: u64) -> u64 { let s = small(a); s.windows(2).filter(|w| w[0] <= w[1]).count() as u64 + 10 * s.chunks(4).map(|c| c.len() as u64 * u64::from(c[0])).sum::<u64>() + b % 2 }
#[inline(never)] pub fn t22(a: u64, b: u64) -> u64 { let s = small(a); let mut v: Vec<u8> = s.to_vec(); v.insert(2, (b % 8) as u8); v.truncate(5); v.extend_from_slice(&s[..2]); let x = v.swap_remove(1); v.iter().fold(u64::from(x), |acc, &e| acc * 8 + u64::from(e)) }
#[inline(never)] pub fn t23(a: u64, b: u64) -> u64 { let mut s = small(a); let t = small(b); s[1..4].copy_from_slice(&t[2..5]); s[4..].fill(7); if let Some(f) = s.first_mut() { *f = 6; } s.iter().fold(0u64, |acc, &e| acc * 8 + u64::from(e)) }
#[inline(never)] pub fn t24(a: u64, b: u64) -> u64 { let x = (a % 200) as i32 - 100; let y = (b % 9) as i32 - 4; if y == 0 { 0 } else { (x.rem_euclid(y) as i64 + 1000 * x.div_euclid(y) as i64 + 1_000_000) as u64 } }
#[inline(never)] pub fn t25(a: u64, b: u64) -> u64 { u64::from(i8::try_from(a as u32 % 300).map_or(200u8, |v| v as u8)) + 1000 * u64::from(u8::try_from((b % 600) as i32 - 100).unwrap_or(255)) + 1_000_000 * u64::from(u16::try_from(a % 70000).is_ok()) }
#[inline(never)] pub fn t26(a: u64, b: u64) -> u64 { let c = a % 5 == 0; c.then_some(b % 10).unwrap_or(33) + 100 * c.then(|| b % 7).map_or(9, |x| x + 1) }
#[inline(never)] pub fn t27(a: u64, b: u64) -> u64 { let s = small(a); let t = small(b); u64::from(s.starts_with(&t[..1])) + 2 * u64::from(s[..3].iter().any(|x| t.contains(x))) + 4 * u64::from((2u8..6).contains(&s[0])) + 8 * u64::from((2u8..=6).contains(&t[0])) }
#[inline(never)] pub fn t28(a: u64, b: u64) -> u64 { let s = format!("{}{}", (b'a' + (a % 8) as u8) as char, (a >> 3) % 8 + 1); let bs = s.as_bytes(); u64::from(bs[0]) * 256 + u64::from(bs[1]) + 65536 * s.len() as u64 + 1_000_000 * u64::from(s.bytes().next().filter(|c| (b'a'..b'h').contains(c)).is_some()) + b % 2 }
#[inline(never)] pub fn t29(a: u64, b: u64) -> u64 { let f = |x: u64, y: u64| x.wrapping_mul(3) ^ y; let g: &dyn Fn(u64, u64) -> u64 = &f; g(a % 1000, b % 1000) + opt(a).is_none_or(|x| x > b) as u64 }
#[inline(never)] pub fn t30(a: u64, b: u64) -> u64 { let s = small(a); let w = &s[..(b % 7) as usize]; let x = match w.split_first_chunk::<4>() { Some(([p, q, r, t], rest)) => u64::from(*p) + 8 * u64::from(*q) + 64 * u64::from(*r) + 512 * u64::from(*t) + 4096 * rest.len() as u64, None => 99_999 }; x + 1_000_000 * opt(a).into_iter().chain(opt(b)).map(|v| v % 10).sum::<u64>() + 100_000_000 * [opt(a), opt(b), None].into_iter().flatten().count() as u64 }
#[inline(never)] pub fn t31(a: u64, b: u64) -> u64 { let s = small(a); match *s[..(b % 7) as usize].as_ref() { [x, y] => u64::from(x) * 8 + u64::from(y), [x, .., z] => 100 + u64::from(x) + u64::from(z), [x] => 200 + u64::from(x), [] => 300 } }
fn tq(a: u64, b: u64) -> Option<u64> { let x = opt(a)?; let y = opt(b)?; Some(x % 100 + y % 100) }
#[inline(never)] pub fn t32(a: u64, b: u64) -> u64 { tq(a, b).unwrap_or(12345) + small(a).iter_mut().zip((0u8..).zip(small(b).iter())).map(|(x, (i, y))| u64::from(*x) * u64::from(i) + u64::from(*y)).sum::<u64>() * 100_000 + small(a).map(|x| u64::from(x) + 1).iter().sum::<u64>() * 10_000_000 }
#[derive(Clone, Copy, Default)] struct Sp { index: u8, score: u32 }
#[inline(never)] pub fn t33(a: u64, b: u64) -> u64 {
    let sa = small(a); let sb = small(b);
    let mut buf = [Sp::default(); 8];
    let mut len = 0usize;
    for (slot, (index, &x)) in buf.iter_mut().zip((0u8..).zip(sa.iter())) { *slot = Sp { index, score: u32::from(x) * 3 % 5 }; len += 1; }
    let mut out = 0u64; let mut idx = 0usize;
    loop {
        let remaining = &mut buf[idx..len];
        let best = match remaining.iter().enumerate().rev().max_by_key(|(_, s)| s.score).map(|(i, _)| i) { Some(i) => i, None => break };
        remaining.swap(0, best);
        idx += 1;
        out = out * 8 + u64::from(sb[usize::from(remaining[0].index)]) + u64::from(remaining[0].index);
    }
    out
}
#[inline(never)] pub fn t34(a: u64, _b: u64) -> u64 { small(a).iter().enumerate().rev().fold(0u64, |acc, (i, x)| acc * 64 + (i as u64) * 8 + u64::from(*x)) }
#[inline(never)] pub fn t35(a: u64, _b: u64) -> u64 { small(a).iter().enumerate().rev().max_by_key(|(_, x)| **x % 3).map_or(99, |(i, x)| (i as u64) * 8 + u64::from(*x)) }
#[inline(never)] pub fn t36(a: u64, b: u64) -> u64 { let mut s = small(a); let lo = (b % 3) as usize; let r = &mut s[lo..5]; r.swap(0, (b % 2 + 1) as usize); let f = r[0]; s.iter().fold(u64::from(f), |acc, &e| acc * 8 + u64::from(e)) }
#[inline(never)] pub fn t37(a: u64, _b: u64) -> u64 { small(a).iter().enumerate().max_by_key(|(_, x)| **x % 3).map_or(99, |(i, x)| (i as u64) * 8 + u64::from(*x)) + 1000 * small(a).iter().enumerate().min_by_key(|(_, x)| **x % 3).map_or(99, |(i, x)| (i as u64) * 8 + u64::from(*x)) }
fn dbl(x: u64) -> u64 { x.wrapping_mul(2) }
fn inc(x: u64) -> u64 { x.wrapping_add(1) }
#[inline(never)] pub fn t38(a: u64, b: u64) -> u64 { let tbl: [(fn(u64) -> u64, u64); 2] = [(dbl, 3), (inc, 5)]; let mk: [fn(u64) -> Option<u64>; 2] = [Some, opt]; tbl.iter().filter_map(|&(f, k)| (f(a % 100) > b % 50).then_some(f(a % 100) * k)).reduce(|x, y| x + y).unwrap_or(7) + 1000 * mk.iter().map(|m| m(b % 9).unwrap_or(3)).sum::<u64>() }

// ---- base models (the ones the unchanged tree's proofs rely on)
#[inline(never)] pub fn t39(a: u64, b: u64) -> u64 { let x = opt(a); let y = opt(b); x.unwrap_or(5) % 100 + 100 * u64::from(x.is_some()) + 200 * u64::from(y.is_none()) + 1000 * x.or(y).unwrap_or(3) % 100_000 + x.map(|v| v % 7).unwrap_or_default() + u64::from(x.is_some_and(|v| v % 2 == 0)) * 7_000_000 }
#[inline(never)] pub fn t40(a: u64, b: u64) -> u64 { let r: Result<u64, String> = opt(a).ok_or("none".to_string()); let r2 = r.map_err(|e| e.len() as u64); (match r2 { Ok(v) => v % 1000, Err(e) => 5000 + e }) + opt(b).ok_or_else(|| 9u8).map_or_else(|e| u64::from(e), |v| v % 10) * 10_000 }
#[inline(never)] pub fn t41(a: u64, b: u64) -> u64 { let mut v: Vec<u8> = Vec::new(); for x in small(a) { v.push(x); } v.push((b % 8) as u8); let p = v.pop().unwrap_or(9); v.retain(|&x| x != 3); let l = v.len() as u64; u64::from(p) + 10 * l + 100 * u64::from(v.contains(&2)) + 1000 * u64::from(*v.first().unwrap_or(&8)) + 10_000 * u64::from(*v.last().unwrap_or(&8)) + 100_000 * u64::from(v.is_empty()) }
#[inline(never)] pub fn t42(a: u64, b: u64) -> u64 { let s = small(a); let v: Vec<u64> = s.iter().map(|&x| u64::from(x) + b % 3).filter(|x| x % 2 == 0).collect(); let w: Vec<u8> = s.iter().flat_map(|&x| vec![x, x / 2]).collect(); v.iter().sum::<u64>() + 100 * v.len() as u64 + 10_000 * w.len() as u64 + 1_000_000 * w.iter().position(|&x| x == 1).map_or(99, |p| p as u64) + 100_000_000 * u64::from(s.iter().any(|&x| x == 7)) + s.iter().find(|&&x| x > 4).map_or(0, |&x| u64::from(x)) * 1_000_000_000 }
#[inline(never)] pub fn t43(a: u64, b: u64) -> u64 { let mut acc = 0u64; for i in 0..(a % 9) { acc = acc * 3 + i; } for i in (1..=(b % 7)).rev() { acc = acc * 5 + i; } for (i, x) in small(a).iter().enumerate() { acc += (i as u64) * u64::from(*x); } for i in (0..(b % 5) as u8).rev() { acc = acc * 2 + u64::from(i); } acc }
#[inline(never)] pub fn t44(a: u64, b: u64) -> u64 { u64::from(a.count_ones()) + 100 * u64::from(a.trailing_zeros()) + 10_000 * u64::from(a.leading_zeros()) + (a.swap_bytes() % 997) * 1_000_000 + (a.reverse_bits() % 991) * 1_000_000_000 + (a % 1000).div_ceil(b % 7 + 1) * 1_000_000_000_000 }
#[inline(never)] pub fn t45(a: u64, b: u64) -> u64 { let x = a as u8; let y = b as u8; u64::from(x.checked_add(y).unwrap_or(0)) + 256 * u64::from(x.checked_sub(y).unwrap_or(1)) + 65536 * u64::from(x.saturating_add(y)) + 16_777_216 * u64::from(x.saturating_sub(y)) + 4_294_967_296 * u64::from(x.wrapping_mul(y)) + (1u64 << 40) * u64::from(x.max(y)) + (1u64 << 48) * u64::from(x.min(y)) + (1u64 << 56) * u64::from((a as i16).saturating_neg() as u16 as u8) }
#[inline(never)] pub fn t46(a: u64, b: u64) -> u64 { let x = (a % 64) as u32; (1u64.checked_shl(x).unwrap_or(0) % 1_000_003) + (b.checked_shr((a % 70) as u32).unwrap_or(7) % 1009) * 1_000_000 + u64::from((a as u16) >> (b % 16)) * 1_000_000_000 + (((a as i32) >> (b % 31)) as u32 as u64 % 1013) * 1_000_000_000_000 }
#[inline(never)] pub fn t47(a: u64, b: u64) -> u64 { let x = a as i64; let y = (b % 1000) as i64 - 500; ((x as i8) as i64 + 200) as u64 + ((a as u32) as u64 % 1000) * 1000 + (u64::from(a as u16) ^ u64::from(b as u8)) * 1_000_000 + (if y != 0 { (x % 100_000 / y + 1_000_000) as u64 } else { 0 }) * 1_000_000_000 % 1_000_000_000_000_000 + (if y != 0 { ((x % 100_000) % y + 1000) as u64 } else { 0 }) }
#[inline(never)] pub fn t48(a: u64, b: u64) -> u64 { let s: String = format!("{}{}", (b'a' + (a % 8) as u8) as char, (b % 8) + 1); let mut t = String::new(); for c in s.chars() { t.push(c); } t.push('q'); let n: u64 = ((a % 10_000).to_string()).parse().unwrap_or(1); let bad: Result<u8, _> = "300".parse::<u8>(); u64::from(t == "a1q") + 2 * u64::from(s.as_str() == t.as_str()) + 4 * u64::from(t.is_empty()) + 8 * n + 1_000_000 * u64::from(bad.is_err()) + 10_000_000 * u64::from(s.chars().next().unwrap_or('z') as u32 - 'a' as u32) }
#[inline(never)] pub fn t49(a: u64, b: u64) -> u64 { let mut arr = [[0u8; 3]; 4]; for i in 0..4 { for j in 0..3 { arr[i][j] = ((a >> (i * 3 + j)) & 3) as u8; } } let i = (b % 4) as usize; let j = (b / 4 % 3) as usize; arr[i][j] = arr[i][j].wrapping_add(9); let mut s = small(a); s.swap((b % 6) as usize, (a % 6) as usize); arr.iter().flatten().fold(0u64, |acc, &e| acc * 13 + u64::from(e)) % 1_000_000_007 + u64::from(s[2]) * 2_000_000_000 }
#[inline(never)] pub fn t50(a: u64, b: u64) -> u64 { #[derive(Clone, Copy, PartialEq, Eq, Default)] struct P { x: u8, y: Option<u8> } let p = P { x: (a % 5) as u8, y: if b % 2 == 0 { Some((b % 7) as u8) } else { None } }; let q = P { x: (b % 5) as u8, ..p }; let d = P::default(); u64::from(p == q) + 2 * u64::from(p != d) + 4 * u64::from(Some(p) == Some(q)) + 8 * u64::from(q.clone().x) + 100 * u64::from(p.y.unwrap_or(9)) + 1000 * u64::from(u8::try_from(a % 300).unwrap_or(255)) + 1_000_000 * u64::from(u16::from(p.x) + 1) }

#[inline(never)] pub fn t51(a: u64, b: u64) -> u64 { let mut s = small(a); s.sort(); let mut t = small(b).to_vec(); t.sort_by_key(|&x| x % 3); t.extend(s.iter().copied()); t.extend_from_slice(&s[..2]); let mut d = vec![1u8, 1, 2, 2, 2, 3, 1]; d.dedup(); s.iter().fold(0u64, |acc, &e| acc * 8 + u64::from(e)) + t.iter().fold(0u64, |acc, &e| acc.wrapping_mul(9).wrapping_add(u64::from(e))) % 1_000_003 * 1_000_000 + d.len() as u64 * 1_000_000_000_000_000 }
#[inline(never)] pub fn t52(a: u64, b: u64) -> u64 { let w = ["go", "stop", "name x", "value=3"][(a % 4) as usize]; u64::from(w.starts_with("na")) + 2 * u64::from(w.ends_with('p')) + 4 * w.strip_prefix("va").map_or(9, |r| r.len() as u64) + 100 * w.split_once(' ').map_or(7, |(l, r)| (l.len() * 10 + r.len()) as u64) + 10_000 * u64::from(w.contains("to")) + 100_000 * w.trim().len() as u64 + b % 2 }

#[inline(never)] pub fn t53(a: u64, b: u64) -> u64 { let mut x = opt(a); let mut y = opt(b); let o = std::mem::replace(&mut x, Some(b % 7)); std::mem::swap(&mut x, &mut y); let t = std::mem::take(&mut y); let mut v = vec![1u8, 2]; let w = std::mem::take(&mut v); o.unwrap_or(1) % 100 + 100 * x.unwrap_or(2) % 10_000 + 10_000 * t.unwrap_or(3) + 1_000_000 * y.map_or(5, |_| 6) + 10_000_000 * (w.len() + v.len() * 10) as u64 }

#[inline(never)] pub fn t54(a: u64, b: u64) -> u64 { use std::cmp::Ordering; let x = (a % 7) as u8; let y = (b % 7) as u8; let o = x.cmp(&y); let r = match o { Ordering::Less => 1u64, Ordering::Equal => 2, Ordering::Greater => 3 }; let s = small(a); let m = s.iter().copied().max_by(|p, q| (p % 4).cmp(&(q % 4))).unwrap_or(9); let n = s.iter().copied().min_by(|p, q| (p % 4).cmp(&(q % 4))).unwrap_or(9); let mut t = s; t.sort_by(|p, q| q.cmp(p)); r + 10 * u64::from(std::cmp::max(x, y)) + 100 * u64::from(std::cmp::min(x, y)) + 1000 * u64::from(m) + 10_000 * u64::from(n) + 100_000 * t.iter().fold(0u64, |acc, &e| acc * 8 + u64::from(e)) + 100_000_000_000 * u64::from(o.reverse() == Ordering::Less) + 1_000_000_000_000 * u64::from(o.is_ge()) + 10_000_000_000_000 * u64::from((a as i16).cmp(&(b as i16)) == Ordering::Less) + 100_000_000_000_000 * u64::from(x.partial_cmp(&y) == Some(Ordering::Greater)) }

#[inline(never)] pub fn t55(a: u64, b: u64) -> u64 { let s = small(a); let r: Result<u64, u8> = s.iter().try_fold(b % 5, |acc, &x| if x == 7 { Err(x) } else { Ok(acc * 3 + u64::from(x)) }); let o: Option<u64> = Some(small(b).to_vec()).iter().flatten().try_fold(1u64, |acc, &x| if x == 0 { None } else { Some(acc * u64::from(x) % 1009) }); (match r { Ok(v) => v % 100_000, Err(e) => 900_000 + u64::from(e) }) + 1_000_000 * o.unwrap_or(777) }

#[inline(never)] pub fn t56(a: u64, b: u64) -> u64 { let s = small(a); let k = (b % 3) as u8 + 1; let dense: u64 = s.chunk_by(|x, y| x / k == y / k).map(|c| c.len() as u64 * 10 + u64::from(c[0])).fold(0u64, |acc, x| (acc * 131 + x) % 1_000_003); let v: Vec<u8> = s.iter().copied().filter(|x| x % 2 == (b % 2) as u8).collect(); let sparse: u64 = v.chunk_by(|x, y| x == y).filter(|c| c[0] != 3).flatten().copied().fold(7u64, |acc, x| (acc * 17 + u64::from(x)) % 1_000_003); dense + 1_000_003 * sparse }

#[inline(never)] pub fn t57(a: u64, b: u64) -> u64 { let s = small(a); let mut x: u64 = b; let mut y: u8 = 0; for (i, e) in s.iter().enumerate() { if i % 2 == 0 { y ^= e; } else { y |= e; } let w = u64::from(*e) << (8 * i); x ^= &w; x &= &!(1u64 << 63); } x.wrapping_add(u64::from(y)) }

#[inline(never)] pub fn t58(a: u64, b: u64) -> u64 { let s = small(a); let i = (b % 4) as usize; let j = i + ((b >> 2) % 3) as usize; let w = &s[i..j]; let sum: u64 = w.iter().map(|&x| u64::from(x)).sum(); let pos = w.iter().position(|&x| x == 3).map_or(9, |p| p as u64); let tail = &s[j..]; let cnt = tail.iter().filter(|&&x| x > 2).count() as u64; let first = w.first().map_or(8, |&x| u64::from(x)); sum + 100 * pos + 1000 * cnt + 10_000 * first + 100_000 * (w.len() as u64) + 1_000_000 * u64::from(w.is_empty()) }

#[inline(never)] pub fn t59(a: u64, b: u64) -> u64 { let s = small(a); let i = (b % 5) as usize; let j = i + ((b >> 3) % 2) as usize; let w = &s[i..j]; let x = match w.split_first() { Some((f, rest)) => u64::from(*f) * 10 + rest.len() as u64, None => 99 }; let y = match s[i..].split_last() { Some((l, rest)) => u64::from(*l) * 10 + rest.len() as u64, None => 98 }; x + 1000 * y }

#[inline(never)] pub fn t60(a: u64, b: u64) -> u64 { let words = ["Hash", "VALUE", "x9Z", "name"]; let w = words[(a % 4) as usize]; let mut out = String::with_capacity(8); if w.is_ascii() { out.extend(w.bytes().map(|c| char::from(c.to_ascii_lowercase()))); } out.push(' '); out.push_str(words[(b % 4) as usize]); let up = (b as u8 % 26 + 97).to_ascii_uppercase(); out.bytes().fold(u64::from(up), |acc, c| (acc * 131 + u64::from(c)) % 1_000_000_007) }

#[inline(never)] pub fn t61(a: u64, b: u64) -> u64 { let s = small(a); let mut v: Vec<u8> = s.to_vec(); let opts = [opt(b).map(|x| (x % 7) as u8), Some(9), opt(b >> 1).map(|x| (x % 5) as u8)]; v.splice(1..3, opts.into_iter().flatten()); v.splice(..1, [7u8, 7]); v.iter().fold(0u64, |acc, &e| (acc * 11 + u64::from(e)) % 1_000_003) + 1_000_003 * v.len() as u64 }

#[inline(never)] pub fn t62(a: u64, b: u64) -> u64 { let s = small(a); let mut v: Vec<u8> = Vec::new(); for (i, &e) in s.iter().enumerate() { if (b >> i) & 1 == 1 { v.push(e); } } let p1 = v.pop().map_or(9, u64::from); let p2 = v.pop().map_or(9, u64::from); v.iter().fold(p1 * 10 + p2, |acc, &e| (acc * 11 + u64::from(e)) % 1_000_003) + 1_000_003 * v.len() as u64 }

fn main() {
    let args: Vec<String> = std::env::args().collect();
    let id: usize = args[1].parse().unwrap();
    let a: u64 = args[2].parse().unwrap();
    let b: u64 = args[3].parse().unwrap();
    let fs: [fn(u64, u64) -> u64; 63] = [t00, t01, t02, t03, t04, t05, t06, t07, t08, t09, t10, t11, t12, t13, t14, t15, t16, t17, t18, t19, t20, t21, t22, t23, t24, t25, t26, t27, t28, t29, t30, t31, t32, t33, t34, t35, t36, t37, t38, t39, t40, t41, t42, t43, t44, t45, t46, t47, t48, t49, t50, t51, t52, t53, t54, t55, t56, t57, t58, t59, t60, t61, t62];
    let r = std::panic::catch_unwind(|| fs[id](a, b));
    match r { Ok(v) => println!("OK {v}"), Err(_) => println!("PANIC") }
}
